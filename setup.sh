#!/bin/sh
# Builds the framework from files on disk only (offline).
set -e
cd "$(dirname "$0")"
export CARGO_NET_OFFLINE=true
python3 tools/extract.py /repo lean/TeosVerif/Gen lean/TeosVerif/GenBaseline > /dev/null
(cd lean && lake build TeosVerif teos_model)
cp /repo/Cargo.lock harness/Cargo.lock
(cd harness && cargo build --offline)
(cd harness && cargo build --offline --locked --manifest-path /repo/Cargo.toml -p watchtower-plugin --bin watchtower-client --target-dir "$PWD/target-plugin")
