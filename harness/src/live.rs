//! The tower with its real `ChainMonitor` + `SpvClient` polling the simulated block source:
//! what `teosd`'s main loop does, one poll at a time.

use std::sync::Arc;

use bitcoin::block::Block;
use bitcoin::Network;
use lightning_block_sync::poll::ChainPoller;
use lightning_block_sync::{SpvClient, UnboundedCache};

use teos::chain_monitor::ChainMonitor;
use teos::gatekeeper::Gatekeeper;
use teos::responder::Responder;
use teos::watcher::Watcher;

use crate::chain::mk_block;
use crate::simsource::SimSource;
use crate::tower::*;

type Inner = (Arc<Watcher>, Arc<Responder>);
type Listener = (Arc<Gatekeeper>, &'static Inner);
pub type Monitor = ChainMonitor<'static, ChainPoller<Arc<SimSource>, SimSource>, UnboundedCache, &'static Listener>;

pub struct Live {
    pub sys: TowerSys,
    pub source: Arc<SimSource>,
    pub monitor: Monitor,
}

impl Live {
    /// wraps an assembled tower: the block source knows the tower's chain; the monitor starts at its tip
    pub fn new(sys: TowerSys) -> Live {
        let source = Arc::new(SimSource::default());
        for (i, (_, b, h, _)) in sys.chain.iter().enumerate() {
            source.add_block(b, *h, i + 1 == sys.chain.len());
        }
        let monitor = Self::monitor_for(&sys, &source);
        Live { sys, source, monitor }
    }

    pub fn monitor_for(sys: &TowerSys, source: &Arc<SimSource>) -> Monitor {
        let tip_hash = sys.chain.last().unwrap().1.block_hash();
        let tip = source.validated(&tip_hash);
        let inner: &'static Inner = Box::leak(Box::new((sys.watcher.clone(), sys.responder.clone())));
        let listener: &'static Listener = Box::leak(Box::new((sys.gatekeeper.clone(), inner)));
        let cache: &'static mut UnboundedCache = Box::leak(Box::new(UnboundedCache::new()));
        let poller = ChainPoller::new(source.clone(), Network::Regtest);
        let spv = SpvClient::new(tip, poller, cache, listener);
        let (_trigger, shutdown) = triggered::trigger();
        sys.rt.block_on(ChainMonitor::new(spv, tip, sys.dbm.clone(), 1, shutdown, sys.reachable.clone()))
    }

    /// the node mines a block on its best tip
    pub fn mine(&mut self, txs: Vec<u32>) -> Block {
        let num = self.sys.next_block;
        self.sys.next_block += 1;
        let prev = self.sys.chain.last().unwrap().1.block_hash();
        let height = self.sys.height() + 1;
        let txdata = txs.iter().map(|n| self.sys.tx(*n)).collect();
        let block = mk_block(prev, num, txdata);
        self.sys.chain.push((num, block.clone(), height, txs));
        self.source.add_block(&block, height, true);
        block
    }

    pub fn poll(&mut self) {
        let rt = tokio::runtime::Builder::new_current_thread().enable_all().build().unwrap();
        rt.block_on(self.monitor.poll_best_tip());
    }
}
