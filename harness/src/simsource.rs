//! Simulated bitcoind as a `lightning_block_sync::BlockSource` (headers, blocks, best tip) with
//! scripted faults: unreachable node, block download failing for chosen blocks.

use std::collections::{HashMap, HashSet};
use std::sync::{Arc, Mutex};

use bitcoin::block::Block;
use bitcoin::hash_types::BlockHash;
use bitcoin::pow::Work;
use lightning_block_sync::poll::{Validate, ValidatedBlockHeader};
use lightning_block_sync::{AsyncBlockSourceResult, BlockData, BlockHeaderData, BlockSource, BlockSourceError};

#[derive(Default)]
pub struct SourceState {
    /// every block ever announced: hash -> (block, height)
    pub blocks: HashMap<BlockHash, (Block, u32)>,
    pub best: Option<BlockHash>,
    pub down: bool,
    pub fail_blocks: HashSet<BlockHash>,
    pub calls: Vec<String>,
}

#[derive(Clone, Default)]
pub struct SimSource(pub Arc<Mutex<SourceState>>);

fn chainwork(height: u32) -> Work {
    // every block has the same (trivial) work: cumulative work grows with the height
    let mut b = [0u8; 32];
    // (the regtest-trivial target has work 1: lightning-block-sync checks chainwork = previous + work)
    b[24..32].copy_from_slice(&(height as u64 + 1).to_be_bytes());
    Work::from_be_bytes(b)
}

impl SimSource {
    pub fn add_block(&self, block: &Block, height: u32, make_best: bool) {
        let mut s = self.0.lock().unwrap();
        s.blocks.insert(block.block_hash(), (block.clone(), height));
        if make_best {
            s.best = Some(block.block_hash());
        }
    }

    pub fn header_data(&self, hash: &BlockHash) -> Option<BlockHeaderData> {
        let s = self.0.lock().unwrap();
        s.blocks.get(hash).map(|(b, h)| BlockHeaderData { header: b.header, height: *h, chainwork: chainwork(*h) })
    }

    pub fn validated(&self, hash: &BlockHash) -> ValidatedBlockHeader {
        self.header_data(hash).expect("known block").validate(*hash).expect("validates")
    }

    pub fn set_down(&self, down: bool) {
        self.0.lock().unwrap().down = down;
    }
}

impl BlockSource for SimSource {
    fn get_header<'a>(&'a self, header_hash: &'a BlockHash, _height_hint: Option<u32>) -> AsyncBlockSourceResult<'a, BlockHeaderData> {
        Box::pin(async move {
            {
                let mut s = self.0.lock().unwrap();
                s.calls.push("getheader".into());
                if s.down {
                    return Err(BlockSourceError::transient("connection refused (simulated)"));
                }
            }
            self.header_data(header_hash).ok_or_else(|| BlockSourceError::transient("header not found"))
        })
    }

    fn get_block<'a>(&'a self, header_hash: &'a BlockHash) -> AsyncBlockSourceResult<'a, BlockData> {
        Box::pin(async move {
            let mut s = self.0.lock().unwrap();
            s.calls.push("getblock".into());
            if s.down {
                return Err(BlockSourceError::transient("connection refused (simulated)"));
            }
            if s.fail_blocks.contains(header_hash) {
                return Err(BlockSourceError::transient("block download failed (simulated)"));
            }
            match s.blocks.get(header_hash) {
                Some((b, _)) => Ok(BlockData::FullBlock(b.clone())),
                None => Err(BlockSourceError::transient("block not found")),
            }
        })
    }

    fn get_best_block(&self) -> AsyncBlockSourceResult<(BlockHash, Option<u32>)> {
        Box::pin(async move {
            let mut s = self.0.lock().unwrap();
            s.calls.push("getbestblock".into());
            if s.down {
                return Err(BlockSourceError::transient("connection refused (simulated)"));
            }
            match s.best {
                Some(h) => {
                    let height = s.blocks.get(&h).map(|x| x.1);
                    Ok((h, height))
                }
                None => Err(BlockSourceError::transient("empty chain")),
            }
        })
    }
}
