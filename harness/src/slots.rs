//! C07 (formula): the real `compute_appointment_slots` against the Lean model `slotsF32`,
//! exhaustively for every length up to 2^24 + 2^13 (change points) and sampled up to 2^32;
//! monitor: equals the exact ceiling below 2^24 and is never 0 for a non-empty blob.

use teos_common::appointment::compute_appointment_slots;
use teos_common::constants::ENCRYPTED_BLOB_MAX_SIZE;

use crate::report::Report;
use crate::rng::Rng;

pub fn run(seed: u64, thorough: bool, rep: &mut Report) {
    rep.begin_case("slots-exhaustive");
    let hi: usize = (1 << 24) + (1 << 13);
    let f = |n: usize| compute_appointment_slots(n, ENCRYPTED_BLOB_MAX_SIZE);
    let mut prev = f(0);
    let v0 = prev;
    let mut changes = vec![];
    let mut bad_ceiling = 0u64;
    for n in 1..=hi {
        let v = f(n);
        if v != prev {
            changes.push(format!("{n}:{v}"));
            prev = v;
        }
        if n < (1 << 24) {
            let exact = ((n + 2047) / 2048) as u32;
            if v != exact || v == 0 {
                bad_ceiling += 1;
                if bad_ceiling < 4 {
                    rep.fail("C07", "slot_formula_not_ceiling", &format!("compute_appointment_slots({n}) = {v}, ceil(n/2048) = {exact}"));
                }
            }
        }
    }
    rep.count_n("lengths_swept", hi as u64 + 1);
    rep.line(&format!("sl changes 0 {hi}"), &format!("v0={v0} {}", changes.join(",")));
    rep.end_case(Some("exhaustive".into()));
    // sampled: up to 2^32, around powers of two and slot boundaries
    let mut rng = Rng::new(seed);
    let samples = if thorough { 200_000 } else { 20_000 };
    rep.begin_case("slots-sampled");
    for i in 0..samples {
        let n: usize = match i % 4 {
            0 => rng.below(1u64 << 32) as usize,
            1 => ((1u64 << rng.range(24, 31)) as i64 + rng.range(0, 400) as i64 - 200).max(0) as usize,
            2 => (rng.below(1u64 << 21) * 2048 + rng.below(3)) as usize,
            _ => rng.below(1u64 << 26) as usize,
        };
        rep.line(&format!("sl at {n}"), &format!("{}", f(n)));
    }
    rep.count_n("lengths_sampled", samples);
    rep.end_case(Some("sampled".into()));
}
