//! C10 / C11: schedule exploration of the real tower under the deterministic scheduler (hook H5).
//! A scenario = sequential set-up operations + two or three operations run concurrently, each in
//! its own thread. Every schedule with at most `B` pre-emptions (at lock acquisitions) is run; the
//! outcome (replies + final database + RPC multiset) must equal that of some sequential order of the
//! same operations. Circular waits and aborts are reported with the schedule as replay.
//! This is search (it validates the model against the code and finds failing schedules); the
//! theorems are in Props/C10.lean and Props/C11.lean.

use std::collections::{BTreeMap, BTreeSet};
use std::panic::{catch_unwind, AssertUnwindSafe};
use std::sync::Arc;

use bitcoin::block::Block;
use bitcoin::Transaction;
use lightning::chain::Listen;
use tonic::Request;

use teos::api::internal::InternalAPI;
use teos::gatekeeper::Gatekeeper;
use teos::protos::public_tower_services_server::PublicTowerServices;
use teos::responder::Responder;
use teos::watcher::Watcher;
use teos_common::protos as common_msgs;
use teos_common::UserId;

use crate::chain::{genesis_hash, mk_block};
use crate::report::Report;
use crate::simnode::{GetR, SendR};
use crate::sync::{Sched, Stuck};
use crate::tower::*;

#[derive(Clone)]
pub enum COp {
    Reg(u32),
    Add { user: u32, loc: u32, blob: BlobSpec, tsd: u32 },
    Get { user: u32, loc: u32 },
    Sub { user: u32 },
    /// connect a block with these transactions on the current tip
    Conn(Vec<u32>),
    Disc,
    /// one client, one connection: asks for its subscription, reads the answer, then sends an appointment (the second
    /// request starts after the first has been answered: every sequential explanation keeps them in that order)
    SubThenAdd { user: u32, loc: u32, blob: BlobSpec, tsd: u32 },
}

impl COp {
    pub fn name(&self) -> String {
        match self {
            COp::Reg(u) => format!("reg(u{u})"),
            COp::Add { user, loc, blob, .. } => format!("add(u{user},l{loc},{})", blob.token()),
            COp::Get { user, loc } => format!("get(u{user},l{loc})"),
            COp::Sub { user } => format!("sub(u{user})"),
            COp::SubThenAdd { user, loc, blob, .. } => format!("sub(u{user});add(u{user},l{loc},{})", blob.token()),
            COp::Conn(t) => format!("conn({:?})", t),
            COp::Disc => "disc".into(),
        }
    }
    fn hop(&self) -> HOp {
        match self {
            COp::Reg(u) => HOp::Reg { user: *u },
            COp::Add { user, loc, blob, tsd } => HOp::Add { user: *user, loc: *loc, blob: blob.clone(), tsd: *tsd, sig: SigKind::Valid },
            COp::Get { user, loc } => HOp::Get { user: *user, loc: *loc, sig: SigKind::Valid },
            COp::Sub { user } | COp::SubThenAdd { user, .. } => HOp::Sub { user: *user, sig: SigKind::Valid },
            COp::Conn(t) => HOp::Conn { txs: t.clone(), send: BTreeMap::new(), get: BTreeMap::new() },
            COp::Disc => HOp::Disc,
        }
    }
}

#[derive(Clone)]
pub struct Scenario {
    pub name: &'static str,
    pub cfg: (u32, u32, u32),
    pub height: u32,
    pub setup: Vec<COp>,
    pub send: BTreeMap<u32, SendR>,
    pub get: BTreeMap<u32, GetR>,
    pub conc: Vec<COp>,
    /// run one after the other once the concurrent operations are over, before the outcome is read: makes state
    /// that is not visible through the API (the responder's set of reorged trackers, say) show in what follows
    pub after: Vec<COp>,
}

/// the work a managed thread does, prepared on the main thread
enum Job {
    Reg(common_msgs::RegisterRequest),
    Add(common_msgs::AddAppointmentRequest),
    Get(common_msgs::GetAppointmentRequest),
    Sub(common_msgs::GetSubscriptionInfoRequest),
    SubThenAdd(common_msgs::GetSubscriptionInfoRequest, common_msgs::AddAppointmentRequest),
    Conn(Block, u32),
    Disc(Block, u32),
}

fn build(sc: &Scenario, boot: &BootChain) -> (TowerSys, Report) {
    let dir = std::env::temp_dir().join(format!("teos-conc-scratch-{}", std::process::id()));
    let mut rep = Report::new(&dir);
    rep.begin_case("scratch");
    let mut sys = TowerSys::boot(sc.cfg, sc.height, boot, &mut rep);
    sys.set_tables(&sc.send, &sc.get);
    for op in &sc.setup {
        let h = match op {
            COp::Conn(t) => HOp::Conn { txs: t.clone(), send: sc.send.clone(), get: sc.get.clone() },
            other => other.hop(),
        };
        sys.exec(&h, &mut rep);
    }
    sys.node.take_log();
    (sys, rep)
}

fn outcome_of(sys: &mut TowerSys, replies: &[String]) -> String {
    if replies.iter().any(|r| r.starts_with("abort")) {
        // a panic with locks held poisons them: the state cannot be read any more
        sys.dead = true;
        return format!("{} | poisoned", replies.join(" ; "));
    }
    let mut log: Vec<String> = sys.node.take_log().iter().map(|(m, t)| format!("{m}:{}", sys.txnum.get(t).cloned().unwrap_or(0))).collect();
    log.sort();
    log.dedup();
    // The compared outcome: reply kinds, every user's balance and window, every stored appointment
    // (key, blob, delay), every tracker (key, dispute, penalty, confirmed?), the set of RPCs. Height
    // stamps read from the relaxed atomics (start_block, in-mempool-since) and the numbers echoed in
    // replies are reported separately (`stamps`), not compared: see DESIGN.md, C10.
    let kinds: Vec<String> = replies.iter().map(|r| r.split_whitespace().take(if r.starts_with("err") { 2 } else { 1 }).collect::<Vec<_>>().join(" ")).collect();
    let db = sys.read_db();
    let users: Vec<String> = db.users.iter().map(|(u, (s, st, e))| format!("u{u}:{s}/{st}/{e}")).collect();
    let mem: Vec<String> = sys.users_seen.clone().iter().filter_map(|u| sys.mem_user(*u).map(|(s, e)| format!("u{u}:{s}/{e}"))).collect();
    let ap: Vec<String> = db.appts.iter().map(|((l, u), (blob, tsd, _, _))| format!("l{l}/u{u}:{}:{tsd}", sys.blobs.get(blob).map(|b| b.token()).unwrap_or_default())).collect();
    let tr: Vec<String> = db.trackers.iter().map(|((l, u), (d, p, c, _))| format!("l{l}/u{u}:t{d}:t{p}:{}", if *c { "C" } else { "M" })).collect();
    format!("{} | mem=[{}] users=[{}] appts=[{}] trackers=[{}] | rpc={}", kinds.join(" ; "), mem.join(" "), users.join(" "), ap.join(" "), tr.join(" "), log.join(","))
}

fn prepare(sys: &mut TowerSys, op: &COp, next_height: &mut u32, prev: &mut bitcoin::BlockHash) -> Job {
    match op {
        COp::Reg(u) => Job::Reg(common_msgs::RegisterRequest { user_id: UserId(user_key(*u).pk).to_vec() }),
        COp::Add { user, loc, blob, tsd } => {
            let locator = sys.locator(*loc);
            let (bytes, _) = sys.build_blob(blob);
            let appt = teos_common::appointment::Appointment::new(locator, bytes.clone(), *tsd);
            let sig = teos_common::cryptography::sign(&appt.to_vec(), &user_key(*user).sk);
            Job::Add(common_msgs::AddAppointmentRequest {
                appointment: Some(common_msgs::Appointment { locator: locator.to_vec(), encrypted_blob: bytes, to_self_delay: *tsd }),
                signature: sig,
            })
        }
        COp::Get { user, loc } => {
            let locator = sys.locator(*loc);
            let sig = teos_common::cryptography::sign(format!("get appointment {locator}").as_bytes(), &user_key(*user).sk);
            Job::Get(common_msgs::GetAppointmentRequest { locator: locator.to_vec(), signature: sig })
        }
        COp::Sub { user } => {
            let sig = teos_common::cryptography::sign(b"get subscription info", &user_key(*user).sk);
            Job::Sub(common_msgs::GetSubscriptionInfoRequest { signature: sig })
        }
        COp::SubThenAdd { user, loc, blob, tsd } => {
            let (Job::Sub(a), Job::Add(b)) = (
                prepare(sys, &COp::Sub { user: *user }, next_height, prev),
                prepare(sys, &COp::Add { user: *user, loc: *loc, blob: blob.clone(), tsd: *tsd }, next_height, prev),
            ) else { unreachable!() };
            Job::SubThenAdd(a, b)
        }
        COp::Conn(txs) => {
            let txdata: Vec<Transaction> = txs.iter().map(|n| sys.tx(*n)).collect();
            let num = sys.next_block;
            sys.next_block += 1;
            let block = mk_block(*prev, num, txdata);
            *prev = block.block_hash();
            *next_height += 1;
            sys.chain.push((num, block.clone(), *next_height, txs.clone()));
            Job::Conn(block, *next_height)
        }
        COp::Disc => {
            let (_, block, h, _) = sys.chain.pop().expect("disc");
            *next_height = h - 1;
            *prev = block.header.prev_blockhash;
            Job::Disc(block, h)
        }
    }
}

fn run_job(job: Job, api: Arc<InternalAPI>, gk: Arc<Gatekeeper>, w: Arc<Watcher>, r: Arc<Responder>) -> String {
    let job = match job {
        Job::SubThenAdd(a, b) => {
            let first = run_job(Job::Sub(a), api.clone(), gk.clone(), w.clone(), r.clone());
            let second = run_job(Job::Add(b), api, gk, w, r);
            return format!("{first} then {second}");
        }
        j => j,
    };
    let res = catch_unwind(AssertUnwindSafe(|| {
        let rt = tokio::runtime::Builder::new_current_thread().enable_all().build().unwrap();
        match job {
            Job::Reg(req) => match rt.block_on(api.register(Request::new(req))) {
                Ok(x) => {
                    let x = x.into_inner();
                    format!("ok {} {} {}", x.available_slots, x.subscription_start, x.subscription_expiry)
                }
                Err(s) => format!("err {:?}", s.code()),
            },
            Job::Add(req) => match rt.block_on(api.add_appointment(Request::new(req))) {
                Ok(x) => {
                    let x = x.into_inner();
                    format!("ok {} {} {}", x.start_block, x.available_slots, x.subscription_expiry)
                }
                Err(s) => format!("err {:?} {}", s.code(), if s.message().contains("expired") { "expired" } else { "" }),
            },
            Job::Get(req) => match rt.block_on(api.get_appointment(Request::new(req))) {
                Ok(x) => format!("ok status={}", x.into_inner().status),
                Err(s) => format!("err {:?}", s.code()),
            },
            Job::Sub(req) => match rt.block_on(api.get_subscription_info(Request::new(req))) {
                Ok(x) => format!("ok {}", x.into_inner().available_slots),
                Err(s) => format!("err {:?}", s.code()),
            },
            Job::SubThenAdd(..) => unreachable!(),
            Job::Conn(block, h) => {
                let inner = (w.clone(), r.clone());
                let listener = (gk.clone(), &inner);
                let txdata: Vec<(usize, &Transaction)> = block.txdata.iter().enumerate().collect();
                listener.filtered_block_connected(&block.header, &txdata, h);
                "ok".to_string()
            }
            Job::Disc(block, h) => {
                let inner = (w.clone(), r.clone());
                let listener = (gk.clone(), &inner);
                listener.block_disconnected(&block.header, h);
                "ok".to_string()
            }
        }
    }));
    match res {
        Ok(s) => s,
        Err(_) => format!("abort {}", LAST_PANIC.with(|p| p.borrow().clone())),
    }
}

pub struct RunResult {
    pub outcome: Option<String>,
    pub stuck: Option<Stuck>,
    pub choices: Vec<usize>,
    /// alternatives at each decision point: (enabled set, chosen, previously running)
    pub points: Vec<(Vec<usize>, usize)>,
    pub edges: BTreeSet<(String, String)>,
}

/// one concurrent run following `prefix`, then the non-preemptive default policy
fn run_schedule(sc: &Scenario, boot: &BootChain, prefix: &[usize]) -> RunResult {
    let (mut sys, _rep) = build(sc, boot);
    let mut h = sys.height();
    let mut prev = sys.chain.last().map(|b| b.1.block_hash()).unwrap_or_else(genesis_hash);
    let jobs: Vec<Job> = sc.conc.iter().map(|op| prepare(&mut sys, op, &mut h, &mut prev)).collect();
    let n = jobs.len();
    let sched = Sched::new(n);
    teos::vsync::set_observer(Some(sched.clone()));
    let mut handles = vec![];
    for (tid, job) in jobs.into_iter().enumerate() {
        let (api, gk, w, r) = (sys.api.clone(), sys.gatekeeper.clone(), sys.watcher.clone(), sys.responder.clone());
        let s2 = sched.clone();
        handles.push(std::thread::spawn(move || {
            install_panic_hook_thread();
            s2.thread_start(tid);
            let out = run_job(job, api, gk, w, r);
            s2.thread_end(tid);
            out
        }));
    }
    let mut choices = vec![];
    let mut points = vec![];
    let mut last: Option<usize> = None;
    let mut stuck = None;
    loop {
        match sched.settle() {
            Ok(enabled) => {
                let step = choices.len();
                let pick = if step < prefix.len() && enabled.contains(&prefix[step]) {
                    prefix[step]
                } else if let Some(l) = last.filter(|l| enabled.contains(l)) {
                    l
                } else {
                    enabled[0]
                };
                points.push((enabled.clone(), pick));
                choices.push(pick);
                last = Some(pick);
                sched.grant(pick);
            }
            Err(None) => break,
            Err(Some(s)) => {
                stuck = Some(s);
                break;
            }
        }
    }
    let edges = sched.st.lock().unwrap().edges.clone();
    if stuck.is_some() {
        // the parked threads can never finish: leak them and the tower they reference
        teos::vsync::set_observer(None);
        sched.abandon();
        std::mem::forget(handles);
        std::mem::forget(sys);
        return RunResult { outcome: None, stuck, choices, points, edges };
    }
    let replies: Vec<String> = handles.into_iter().map(|h| h.join().unwrap_or_else(|_| "abort thread".into())).collect();
    teos::vsync::set_observer(None);
    run_after(sc, &mut sys, &replies);
    let outcome = outcome_of(&mut sys, &replies);
    RunResult { outcome: Some(outcome), stuck: None, choices, points, edges }
}

fn install_panic_hook_thread() {}

/// the scenario's epilogue: operations run one after the other on the state the concurrent part left
fn run_after(sc: &Scenario, sys: &mut TowerSys, replies: &[String]) {
    if sc.after.is_empty() || replies.iter().any(|r| r.starts_with("abort")) {
        return;
    }
    // (preparing the concurrent chain operations already moved the harness's chain)
    let mut h = sys.height();
    let mut prev = sys.chain.last().map(|b| b.1.block_hash()).unwrap_or_else(genesis_hash);
    for op in sc.after.iter() {
        let job = prepare(sys, op, &mut h, &mut prev);
        let _ = run_job(job, sys.api.clone(), sys.gatekeeper.clone(), sys.watcher.clone(), sys.responder.clone());
    }
}

/// outcomes of every sequential order of the concurrent operations
fn sequential_outcomes(sc: &Scenario, boot: &BootChain) -> BTreeMap<String, Vec<usize>> {
    // (the two requests of a `SubThenAdd` are two steps of a sequential explanation, in that order)
    let atoms: Vec<(usize, usize)> = sc.conc.iter().enumerate().flat_map(|(i, o)| if matches!(o, COp::SubThenAdd { .. }) { vec![(i, 0), (i, 1)] } else { vec![(i, 0)] }).collect();
    let nops = sc.conc.len();
    let n = atoms.len();
    let mut perms: Vec<Vec<usize>> = vec![];
    fn rec(cur: &mut Vec<usize>, n: usize, out: &mut Vec<Vec<usize>>) {
        if cur.len() == n {
            out.push(cur.clone());
            return;
        }
        for i in 0..n {
            if !cur.contains(&i) {
                cur.push(i);
                rec(cur, n, out);
                cur.pop();
            }
        }
    }
    rec(&mut vec![], n, &mut perms);
    let mut outs = BTreeMap::new();
    for p in perms {
        let (mut sys, _rep) = build(sc, boot);
        let mut h = sys.height();
        let mut prev = sys.chain.last().map(|b| b.1.block_hash()).unwrap_or_else(genesis_hash);
        // chain operations keep their relative order in every permutation (the chain monitor is one thread)
        let prepared: Vec<Job> = sc.conc.iter().map(|op| prepare(&mut sys, op, &mut h, &mut prev)).collect();
        let mut jobs: Vec<Option<Job>> = vec![];
        for j in prepared {
            match j {
                Job::SubThenAdd(a, b) => {
                    jobs.push(Some(Job::Sub(a)));
                    jobs.push(Some(Job::Add(b)));
                }
                j => jobs.push(Some(j)),
            }
        }
        let pos = |a: usize| p.iter().position(|x| *x == a);
        let chain_idx: Vec<usize> = atoms.iter().enumerate().filter(|(_, (i, _))| matches!(sc.conc[*i], COp::Conn(_) | COp::Disc)).map(|(a, _)| a).collect();
        let pairs: Vec<(usize, usize)> = (0..n).filter(|a| atoms[*a].1 == 1).map(|a| (a - 1, a)).collect();
        let order_ok = chain_idx.windows(2).all(|w| pos(w[0]) < pos(w[1])) && pairs.iter().all(|(a, b)| pos(*a) < pos(*b));
        if !order_ok {
            continue;
        }
        let mut replies = vec![String::new(); nops];
        for a in p.iter() {
            let job = jobs[*a].take().unwrap();
            let r = run_job(job, sys.api.clone(), sys.gatekeeper.clone(), sys.watcher.clone(), sys.responder.clone());
            let i = atoms[*a].0;
            replies[i] = if atoms[*a].1 == 1 { format!("{} then {r}", replies[i]) } else { r };
        }
        run_after(sc, &mut sys, &replies);
        outs.insert(outcome_of(&mut sys, &replies), p);
    }
    outs
}

pub fn scenarios(thorough: bool) -> Vec<Scenario> {
    let node_ok = (BTreeMap::new(), BTreeMap::new());
    let enc = |loc: u32, class: u32| BlobSpec::Enc { dispute: loc, penalty: 1000 + loc * 10 + class, len: [260, 330, 2049][class as usize] };
    let mut v = vec![
        Scenario { name: "add-vs-block-with-dispute", cfg: (3, 50, 2), height: 100, setup: vec![COp::Reg(1)], send: node_ok.0.clone(), get: node_ok.1.clone(),
                   conc: vec![COp::Add { user: 1, loc: 1, blob: enc(1, 0), tsd: 10 }, COp::Conn(vec![1])], after: vec![] },
        Scenario { name: "same-appointment-twice", cfg: (3, 50, 2), height: 100, setup: vec![COp::Reg(1)], send: node_ok.0.clone(), get: node_ok.1.clone(),
                   conc: vec![COp::Add { user: 1, loc: 1, blob: enc(1, 0), tsd: 10 }, COp::Add { user: 1, loc: 1, blob: enc(1, 0), tsd: 10 }], after: vec![] },
        Scenario { name: "register-vs-add", cfg: (1, 50, 2), height: 100, setup: vec![COp::Reg(1)], send: node_ok.0.clone(), get: node_ok.1.clone(),
                   conc: vec![COp::Reg(1), COp::Add { user: 1, loc: 1, blob: enc(1, 0), tsd: 10 }], after: vec![] },
        Scenario { name: "add-vs-completing-block", cfg: (3, 400, 2), height: 100,
                   setup: {
                       let mut s = vec![COp::Reg(1), COp::Add { user: 1, loc: 1, blob: enc(1, 0), tsd: 10 }, COp::Conn(vec![1]), COp::Conn(vec![1010])];
                       for _ in 0..99 { s.push(COp::Conn(vec![])); }
                       s
                   },
                   send: node_ok.0.clone(), get: node_ok.1.clone(),
                   conc: vec![COp::Add { user: 1, loc: 2, blob: enc(2, 0), tsd: 10 }, COp::Conn(vec![])], after: vec![] },
        Scenario { name: "late-add-vs-rebroadcasting-block", cfg: (3, 400, 2), height: 100,
                   setup: {
                       let mut s = vec![COp::Reg(1), COp::Add { user: 1, loc: 1, blob: enc(1, 0), tsd: 10 }, COp::Conn(vec![1]), COp::Conn(vec![2])];
                       for _ in 0..4 { s.push(COp::Conn(vec![])); }
                       s
                   },
                   send: node_ok.0.clone(), get: node_ok.1.clone(),
                   conc: vec![COp::Add { user: 1, loc: 2, blob: enc(2, 0), tsd: 10 }, COp::Conn(vec![])], after: vec![] },
        Scenario { name: "add-vs-purging-block", cfg: (3, 1, 0), height: 100, setup: vec![COp::Reg(1)], send: node_ok.0.clone(), get: node_ok.1.clone(),
                   conc: vec![COp::Add { user: 1, loc: 1, blob: enc(1, 0), tsd: 10 }, COp::Conn(vec![])], after: vec![] },
        // a renewal racing with the block that purges the user: whichever comes first, the user exists afterwards
        // (renewed and kept, or purged and registered anew)
        Scenario { name: "register-vs-purging-block", cfg: (3, 1, 0), height: 100, setup: vec![COp::Reg(1)], send: node_ok.0.clone(), get: node_ok.1.clone(),
                   conc: vec![COp::Reg(1), COp::Conn(vec![])], after: vec![] },
        Scenario { name: "get-vs-block-with-dispute", cfg: (3, 50, 2), height: 100,
                   setup: vec![COp::Reg(1), COp::Add { user: 1, loc: 1, blob: enc(1, 0), tsd: 10 }], send: node_ok.0.clone(), get: node_ok.1.clone(),
                   conc: vec![COp::Get { user: 1, loc: 1 }, COp::Conn(vec![1])], after: vec![] },
        Scenario { name: "update-vs-block-with-dispute", cfg: (5, 50, 2), height: 100,
                   setup: vec![COp::Reg(1), COp::Add { user: 1, loc: 1, blob: enc(1, 0), tsd: 10 }], send: node_ok.0.clone(), get: node_ok.1.clone(),
                   conc: vec![COp::Add { user: 1, loc: 1, blob: enc(1, 2), tsd: 11 }, COp::Conn(vec![1])], after: vec![] },
        Scenario { name: "late-add-vs-disconnect", cfg: (3, 50, 2), height: 100,
                   setup: vec![COp::Reg(1), COp::Conn(vec![1])], send: node_ok.0.clone(), get: node_ok.1.clone(),
                   conc: vec![COp::Add { user: 1, loc: 1, blob: enc(1, 0), tsd: 10 }, COp::Disc], after: vec![] },
        // the penalty of the late appointment is confirmed in the very block being disconnected: whichever comes first,
        // the next block must find the tracker unconfirmed or flagged as reorged (the epilogue connects that block)
        Scenario { name: "late-add-confirmed-in-tip-vs-disconnect", cfg: (3, 50, 2), height: 100,
                   setup: vec![COp::Reg(1), COp::Conn(vec![1]), COp::Conn(vec![1010])], send: node_ok.0.clone(), get: node_ok.1.clone(),
                   conc: vec![COp::Add { user: 1, loc: 1, blob: enc(1, 0), tsd: 10 }, COp::Disc], after: vec![COp::Conn(vec![])] },
        // two versions of the same late appointment (its dispute is in the cache) at once: exactly one is taken, the
        // other finds it already triggered
        Scenario { name: "two-versions-of-a-late-appointment", cfg: (3, 50, 2), height: 100,
                   setup: vec![COp::Reg(1), COp::Conn(vec![1])], send: node_ok.0.clone(), get: node_ok.1.clone(),
                   conc: vec![COp::Add { user: 1, loc: 1, blob: enc(1, 0), tsd: 10 }, COp::Add { user: 1, loc: 1, blob: enc(1, 1), tsd: 11 }], after: vec![] },
        Scenario { name: "subscription-info-vs-register", cfg: (3, 50, 2), height: 100, setup: vec![COp::Reg(1), COp::Add { user: 1, loc: 1, blob: enc(1, 0), tsd: 10 }], send: node_ok.0.clone(), get: node_ok.1.clone(),
                   conc: vec![COp::Sub { user: 1 }, COp::Reg(1)], after: vec![] },
        Scenario { name: "subscription-info-vs-completing-block", cfg: (3, 400, 2), height: 100,
                   setup: {
                       let mut s = vec![COp::Reg(1), COp::Add { user: 1, loc: 1, blob: enc(1, 0), tsd: 10 }, COp::Conn(vec![1]), COp::Conn(vec![1010])];
                       for _ in 0..99 { s.push(COp::Conn(vec![])); }
                       s
                   },
                   send: node_ok.0.clone(), get: node_ok.1.clone(),
                   conc: vec![COp::Sub { user: 1 }, COp::Conn(vec![])], after: vec![] },
        // a renewal racing with the block that completes one of the user's trackers (refund): neither update may be lost
        Scenario { name: "register-vs-completing-block", cfg: (3, 400, 2), height: 100,
                   setup: {
                       let mut s = vec![COp::Reg(1), COp::Add { user: 1, loc: 1, blob: enc(1, 0), tsd: 10 }, COp::Conn(vec![1]), COp::Conn(vec![1010])];
                       for _ in 0..99 { s.push(COp::Conn(vec![])); }
                       s
                   },
                   send: node_ok.0.clone(), get: node_ok.1.clone(),
                   conc: vec![COp::Reg(1), COp::Conn(vec![])], after: vec![] },
        // the block at which a subscription runs out is being connected (the gatekeeper has it, the watcher is still at
        // work) while the user asks for the subscription and then sends an appointment: once told "expired", the user
        // is not served any more
        Scenario { name: "expiring-subscription-vs-its-last-block", cfg: (3, 1, 2), height: 100, setup: vec![COp::Reg(1)],
                   send: node_ok.0.clone(), get: node_ok.1.clone(),
                   conc: vec![COp::SubThenAdd { user: 1, loc: 1, blob: enc(1, 0), tsd: 10 }, COp::Conn(vec![])], after: vec![] },
        Scenario { name: "two-users-same-locator", cfg: (3, 50, 2), height: 100, setup: vec![COp::Reg(1), COp::Reg(2)], send: node_ok.0.clone(), get: node_ok.1.clone(),
                   conc: vec![COp::Add { user: 1, loc: 1, blob: enc(1, 0), tsd: 10 }, COp::Add { user: 2, loc: 1, blob: enc(1, 0), tsd: 10 }], after: vec![] },
    ];
    if thorough {
        v.push(Scenario { name: "triple-add-add-block", cfg: (3, 50, 2), height: 100, setup: vec![COp::Reg(1), COp::Reg(2)], send: node_ok.0.clone(), get: node_ok.1.clone(),
                          conc: vec![COp::Add { user: 1, loc: 1, blob: enc(1, 0), tsd: 10 }, COp::Add { user: 2, loc: 1, blob: enc(1, 1), tsd: 10 }, COp::Conn(vec![1])], after: vec![] });
        v.push(Scenario { name: "triple-reg-add-completing", cfg: (3, 400, 2), height: 100,
                          setup: {
                              let mut s = vec![COp::Reg(1), COp::Add { user: 1, loc: 1, blob: enc(1, 0), tsd: 10 }, COp::Conn(vec![1]), COp::Conn(vec![1010])];
                              for _ in 0..99 { s.push(COp::Conn(vec![])); }
                              s
                          },
                          send: node_ok.0.clone(), get: node_ok.1.clone(),
                          conc: vec![COp::Reg(1), COp::Add { user: 1, loc: 2, blob: enc(2, 0), tsd: 10 }, COp::Conn(vec![])], after: vec![] });
    }
    v
}

/// the acquire/release sequence of one operation run alone (trace correspondence with Model/Locks.lean)
fn single_trace(sc: &Scenario, boot: &BootChain, idx: usize) -> String {
    let mut one = sc.clone();
    one.conc = vec![sc.conc[idx].clone()];
    let (mut sys, _rep) = build(&one, boot);
    let mut h = sys.height();
    let mut prev = sys.chain.last().map(|b| b.1.block_hash()).unwrap_or_else(genesis_hash);
    let job = prepare(&mut sys, &one.conc[0], &mut h, &mut prev);
    let sched = Sched::new(1);
    teos::vsync::set_observer(Some(sched.clone()));
    let (api, gk, w, r) = (sys.api.clone(), sys.gatekeeper.clone(), sys.watcher.clone(), sys.responder.clone());
    let s2 = sched.clone();
    let hd = std::thread::spawn(move || {
        s2.thread_start(0);
        let out = run_job(job, api, gk, w, r);
        s2.thread_end(0);
        out
    });
    while let Ok(en) = sched.settle() {
        sched.grant(en[0]);
    }
    let _ = hd.join();
    teos::vsync::set_observer(None);
    let st = sched.st.lock().unwrap();
    let toks: Vec<String> = st
        .trace
        .iter()
        .filter_map(|e| match e {
            crate::sync::Event::Acquire(_, n) => Some(format!("a:{}", crate::sync::short_name(n))),
            crate::sync::Event::Release(_, n) => Some(format!("r:{}", crate::sync::short_name(n))),
            _ => None,
        })
        .collect();
    toks.join(" ")
}

pub fn run(_seed: u64, thorough: bool, rep: &mut Report) {
    install_panic_hook();
    let boot = BootChain::new();
    let mut all_edges: BTreeSet<(String, String)> = BTreeSet::new();
    for sc in scenarios(thorough) {
        rep.begin_case(sc.name);
        for i in 0..sc.conc.len() {
            let t = single_trace(&sc, &boot, i);
            rep.line(&format!("cc trace {}#{} {}", sc.name, i, t), "ok");
        }
        let seq = sequential_outcomes(&sc, &boot);
        let budget = if thorough { 3 } else { 2 };
        let max_runs = if thorough { 20000 } else { 1500 };
        // work list of prefixes: (choices, pre-emptions used)
        let mut work: Vec<(Vec<usize>, usize)> = vec![(vec![], 0)];
        let mut seen: BTreeSet<Vec<usize>> = BTreeSet::new();
        let mut runs = 0u64;
        let mut outcomes: BTreeSet<String> = BTreeSet::new();
        let mut stopped = false;
        while let Some((prefix, used)) = work.pop() {
            if runs >= max_runs {
                break;
            }
            let r = run_schedule(&sc, &boot, &prefix);
            if !seen.insert(r.choices.clone()) {
                continue;
            }
            runs += 1;
            all_edges.extend(r.edges.iter().cloned());
            let desc = || {
                format!("scenario {} [{}] schedule {:?}", sc.name, sc.conc.iter().map(|o| o.name()).collect::<Vec<_>>().join(" || "), r.choices)
            };
            if let Some(st) = &r.stuck {
                match st {
                    Stuck::Deadlock(ws) => {
                        let mut locks: Vec<String> = ws.iter().map(|(_, want, held)| format!("{}<-[{}]", want, held.join("+"))).collect();
                        locks.sort();
                        rep.fail("C11", &format!("deadlock:{}", locks.join("|")), &format!("circular wait: {ws:?}; {}", desc()));
                    }
                    Stuck::WaitForever(ws) => {
                        rep.fail("C11", "wait-forever", &format!("threads wait on a condition variable nobody can signal: {ws:?}; {}", desc()));
                    }
                }
                stopped = true;
                break;
            }
            let out = r.outcome.clone().unwrap();
            if out.contains("abort ") {
                let site = panic_site(out.split("abort ").nth(1).unwrap_or("").split(" ; ").next().unwrap_or(""));
                rep.fail("C11", &format!("panic@{site}"), &format!("{out}; {}", desc()));
                rep.fail("C10", &format!("abort-under-concurrency@{site}"), &format!("{out}; {}", desc()));
            } else if !seq.contains_key(&out) {
                let first_diff = sc.conc.iter().map(|o| o.name()).collect::<Vec<_>>().join("||");
                rep.fail("C10", &format!("not-serialisable:{}", sc.name), &format!("outcome equals no sequential order of {first_diff}: {out} ; sequential outcomes: {:?} ; {}", seq.keys().collect::<Vec<_>>(), desc()));
                if sc.name.starts_with("expiring-") {
                    // C06: in no order of events is this user's request one of a subscribed user
                    rep.fail("C06", &format!("served_in_no_order_of_events:{}", sc.name), &format!("the answers this user got have no sequential explanation (told expired, then served; or served past the expiry): {out} ; sequential outcomes: {:?} ; {}", seq.keys().collect::<Vec<_>>(), desc()));
                }
            }
            outcomes.insert(out);
            // children: at every decision point after the prefix, pick another enabled thread
            for (i, (enabled, pick)) in r.points.iter().enumerate().skip(prefix.len()) {
                for alt in enabled {
                    if alt != pick {
                        // a switch away from a thread that could continue is a pre-emption
                        let prev_running = if i == 0 { None } else { Some(r.points[i - 1].1) };
                        let is_preempt = prev_running.map_or(false, |p| enabled.contains(&p) && *alt != p);
                        let cost = used + if is_preempt { 1 } else { 0 };
                        if cost <= budget {
                            let mut np: Vec<usize> = r.choices[..i].to_vec();
                            np.push(*alt);
                            work.push((np, cost));
                        }
                    }
                }
            }
        }
        rep.count_n(&format!("schedules:{}", sc.name), runs);
        rep.count_n("schedules", runs);
        rep.extra.insert(format!("outcomes:{}", sc.name), serde_json::json!({"concurrent": outcomes.len(), "sequential": seq.len(), "stopped_at_deadlock": stopped}));
        rep.line(&format!("cc scenario {}", sc.name), "ok");
        rep.end_case(Some(sc.name.to_string()));
    }
    // lock-order graph over everything executed under the scheduler
    let cycles = crate::sync::find_cycles(&all_edges);
    for c in &cycles {
        rep.fail("C11", &format!("lock-order-cycle:{}", c.join(">")), &format!("locks are acquired in both orders: {c:?}"));
    }
    let edges: Vec<String> = all_edges.iter().map(|(a, b)| format!("{a}>{b}")).collect();
    rep.extra.insert("lock_edges".into(), serde_json::json!(edges));
    rep.line(&format!("cc edges {}", edges.join(" ")), "ok");
    cleanup_db_dir();
}
