//! History generator for the tower + direct property monitors evaluated on the implementation.
//! Serves C01, C02, C04, C06, C07, C08, C09, C11 (sequential part).

use std::collections::{BTreeMap, BTreeSet};

use crate::report::Report;
use crate::rng::Rng;
use crate::simnode::{GetR, SendR};
use crate::tower::*;

pub struct World {
    pub mempool: BTreeSet<u32>,
    /// tx number -> block number, for the active chain
    pub confirmed: BTreeMap<u32, u32>,
    pub policy: BTreeMap<u32, SendR>,
    pub known_txs: BTreeSet<u32>,
    pub next_unrelated: u32,
    pub next_junk: u32,
    /// accepted submissions: (user, loc) -> blob spec last accepted
    pub accepted: BTreeMap<(u32, u32), BlobSpec>,
    /// per user: slots granted by registrations since the user (re)appeared
    pub granted: BTreeMap<u32, u64>,
    pub shape: String,
}

impl World {
    pub fn new() -> Self {
        World {
            mempool: BTreeSet::new(),
            confirmed: BTreeMap::new(),
            policy: BTreeMap::new(),
            known_txs: BTreeSet::new(),
            next_unrelated: 5000,
            next_junk: 1,
            accepted: BTreeMap::new(),
            granted: BTreeMap::new(),
            shape: String::new(),
        }
    }

    pub fn policy_for(&mut self, n: u32, rng: &mut Rng) -> SendR {
        if let Some(p) = self.policy.get(&n) {
            return *p;
        }
        let p = match rng.weighted(&[82, 6, 3, 2, 3, 4]) {
            0 => SendR::Ok,
            1 => SendR::Rpc(-26),
            2 => SendR::Rpc(-25),
            3 => SendR::Rpc(-22),
            4 => SendR::Rpc(-1),
            _ => SendR::Other,
        };
        self.policy.insert(n, p);
        p
    }

    /// the reply tables of the node for the next tower operation
    pub fn tables(&mut self, rng: &mut Rng) -> (BTreeMap<u32, SendR>, BTreeMap<u32, GetR>) {
        let mut send = BTreeMap::new();
        let mut get = BTreeMap::new();
        let txs: Vec<u32> = self.known_txs.iter().cloned().collect();
        for n in txs {
            if self.confirmed.contains_key(&n) {
                send.insert(n, SendR::Rpc(-27));
                // without txindex bitcoind does not find confirmed transactions
                if rng.chance(1, 3) {
                    get.insert(n, GetR::Confirmed);
                }
            } else if self.mempool.contains(&n) {
                // a node may also claim "already in chain" for something the tower never saw confirmed
                send.insert(n, if rng.chance(1, 30) { SendR::Rpc(-27) } else { SendR::Ok });
                get.insert(n, GetR::Mempool);
            } else {
                let p = self.policy_for(n, rng);
                if p != SendR::Ok {
                    send.insert(n, p);
                }
                if rng.chance(1, 40) {
                    get.insert(n, if rng.chance(1, 2) { GetR::Other } else { GetR::Rpc(-1) });
                }
            }
        }
        (send, get)
    }

    pub fn apply_rpcs(&mut self, log: &[(String, u32)], send: &BTreeMap<u32, SendR>) {
        for (m, n) in log {
            if m == "send" && send.get(n).cloned().unwrap_or(SendR::Ok) == SendR::Ok {
                self.mempool.insert(*n);
            }
        }
    }
}

/// what each worker is executing right now: (case, operation, operations of the case so far, since when); read by the
/// dispatcher, which reports an operation that never returns instead of waiting for it forever
pub type InFlight = std::sync::Arc<std::sync::Mutex<BTreeMap<usize, (String, String, Vec<String>, std::time::Instant)>>>;
thread_local! {
    pub static WATCH: std::cell::RefCell<Option<(InFlight, usize)>> = std::cell::RefCell::new(None);
}
fn watch_begin(case_ops: Vec<String>, op: &str) {
    WATCH.with(|w| {
        if let Some((m, id)) = &*w.borrow() {
            let case = case_ops.first().cloned().unwrap_or_default();
            m.lock().unwrap().insert(*id, (case, op.to_string(), case_ops, std::time::Instant::now()));
        }
    });
}
fn watch_end() {
    WATCH.with(|w| {
        if let Some((m, id)) = &*w.borrow() {
            m.lock().unwrap().remove(id);
        }
    });
}

/// number of hand-written histories run before the random ones
pub const N_DIRECTED: usize = 11;

pub fn penalty_num(loc: u32, class: u32) -> u32 {
    1000 + loc * 10 + class
}

const SIZE_CLASSES: [usize; 7] = [260, 330, 2048, 2049, 3000, 4097, 6200];

pub struct Gen<'a> {
    pub rng: Rng,
    pub sys: TowerSys,
    pub world: World,
    pub rep: &'a mut Report,
    pub nlocs: u32,
    pub nusers: u32,
    pub monitors: bool,
    pub mon: crate::monitors::MonState,
    /// largest blob the generator asks for (requests through the HTTP API must fit its body limit)
    pub max_blob: usize,
}

impl<'a> Gen<'a> {
    fn sig_kind(&mut self, user: u32) -> SigKind {
        match self.rng.weighted(&[80, 5, 4, 3, 3, 3, 2]) {
            0 => SigKind::Valid,
            1 => SigKind::By(1 + (user % self.nusers)),
            2 => SigKind::WrongMsg,
            3 => SigKind::Truncated,
            4 => SigKind::Flipped,
            5 => SigKind::Garbage,
            // an empty signature never gets past the HTTP API (it is one of the bad requests there)
            _ if self.sys.http.is_some() => SigKind::Garbage,
            _ => SigKind::Empty,
        }
    }

    fn pick_user(&mut self) -> u32 {
        // users 1..=nusers are the ones that register; nusers+1 never registers
        if self.rng.chance(1, 14) {
            self.nusers + 1
        } else if !self.sys.users_seen.is_empty() && self.rng.chance(5, 6) {
            let v: Vec<u32> = self.sys.users_seen.iter().cloned().collect();
            *self.rng.pick(&v)
        } else {
            self.rng.range(1, self.nusers as u64) as u32
        }
    }

    pub fn run_op(&mut self, op: HOp) -> Outcome {
        // requests see a fresh node table as well
        let (send, get) = match &op {
            HOp::Add { .. } => {
                let (s, g) = self.world.tables(&mut self.rng);
                self.sys.set_tables(&s, &g);
                (s, g)
            }
            HOp::Conn { send, get, .. } => (send.clone(), get.clone()),
            _ => (BTreeMap::new(), BTreeMap::new()),
        };
        watch_begin(self.rep.case_ops(), &format!("{op:?}"));
        let (out, log) = self.sys.exec(&op, self.rep);
        watch_end();
        if self.sys.http.is_some() && matches!(op, HOp::Reg { .. } | HOp::Add { .. } | HOp::Get { .. } | HOp::Sub { .. }) {
            if let Some((st, code)) = self.sys.last_http.take() {
                self.rep.line("ht last", &format!("status={st} code={code}"));
                crate::httpc::check_documented(self.rep, st, code, true, "valid request");
            }
        }
        if let Some(what) = self.sys.client_parse_failure.take() {
            self.rep.fail("C16", "client_cannot_use_tower_reply", &format!("the client's request/response code could not use a reply the tower sent ({what}) to `{}`", op_name(&op)));
        }
        self.world.apply_rpcs(&log, &send);
        self.rep.count(&format!("op:{}", op_name(&op)));
        for (m, _) in log.iter() {
            self.rep.count(&format!("rpc:{m}"));
        }
        self.world.shape.push(op_letter(&op, &out));
        if let (HOp::Add { user, loc, blob, .. }, Outcome::Accepted { .. }) = (&op, &out) {
            self.world.accepted.insert((*user, *loc), blob.clone());
        }
        if self.sys.dead {
            if self.monitors {
                crate::monitors::after_op(self, &op, &out, &log, &send, &get, DbRow::default());
            }
            return out;
        }
        let cur = self.sys.read_db();
        if !matches!(op, HOp::Dump | HOp::Get { .. } | HOp::Sub { .. }) {
            let d = self.sys.dump_from(&cur);
            self.rep.line("tw dump", &d);
            // the admin's view of the same state, through the private API
            let a = self.sys.admin();
            self.rep.line("tw admin", &a);
        }
        if self.monitors {
            crate::monitors::after_op(self, &op, &out, &log, &send, &get, cur);
        }
        out
    }

    fn gen_add(&mut self) -> HOp {
        let user = self.pick_user();
        let loc = self.rng.range(1, self.nlocs as u64) as u32;
        let class = match self.rng.weighted(&[45, 15, 8, 8, 10, 7, 7]) {
            c => c as u32,
        };
        let len = SIZE_CLASSES[class as usize].min(self.max_blob);
        let blob = match self.rng.weighted(&[74, 10, 16]) {
            0 => BlobSpec::Enc { dispute: loc, penalty: penalty_num(loc, class), len },
            1 => {
                // encrypted under another channel's dispute: never decrypts with this locator's dispute
                let other = 1 + (loc % self.nlocs);
                BlobSpec::Enc { dispute: if other == loc { loc + 50 } else { other }, penalty: penalty_num(loc, class) + 500, len }
            }
            _ => {
                self.world.next_junk += 1;
                BlobSpec::Junk { tag: self.world.next_junk, len: len.max(1) }
            }
        };
        if let BlobSpec::Enc { dispute, penalty, .. } = &blob {
            self.world.known_txs.insert(*dispute);
            self.world.known_txs.insert(*penalty);
        }
        self.world.known_txs.insert(loc);
        let sig = self.sig_kind(user);
        HOp::Add { user, loc, blob, tsd: self.rng.range(0, 1000) as u32, sig }
    }

    fn gen_conn(&mut self, reorg_replacement: bool) -> HOp {
        let mut txs = vec![];
        // disputes of channels somebody submitted an appointment for
        let locs: BTreeSet<u32> = self.world.accepted.keys().map(|k| k.1).collect();
        for l in 1..=self.nlocs {
            if self.world.confirmed.contains_key(&l) {
                continue;
            }
            let p = if locs.contains(&l) { 22 } else { 5 };
            if self.rng.chance(p + if reorg_replacement { 25 } else { 0 }, 100) {
                txs.push(l);
            }
        }
        // penalties the node has in its mempool get mined
        let mem: Vec<u32> = self.world.mempool.iter().cloned().collect();
        for n in mem {
            if self.rng.chance(35, 100) {
                txs.push(n);
            }
        }
        // a penalty in the same block as its dispute, or one nobody sent
        for l in txs.clone() {
            if l <= self.nlocs && self.rng.chance(12, 100) {
                let p = penalty_num(l, 0);
                if !self.world.confirmed.contains_key(&p) && !txs.contains(&p) {
                    self.world.known_txs.insert(p);
                    txs.push(p);
                }
            }
        }
        // somebody else mines a penalty the tower is not (yet) tracking
        for l in 1..=self.nlocs {
            if self.rng.chance(4, 100) {
                let p = penalty_num(l, 0);
                if !self.world.confirmed.contains_key(&p) && !txs.contains(&p) {
                    self.world.known_txs.insert(p);
                    txs.push(p);
                }
            }
        }
        if self.rng.chance(30, 100) {
            self.world.next_unrelated += 1;
            txs.push(self.world.next_unrelated);
        }
        txs.sort();
        txs.dedup();
        for n in &txs {
            self.world.known_txs.insert(*n);
        }
        // the node has already accepted this block when the tower hears about it
        let bn = self.sys.next_block;
        for n in &txs {
            self.world.confirmed.insert(*n, bn);
            self.world.mempool.remove(n);
        }
        let (send, get) = self.world.tables(&mut self.rng);
        HOp::Conn { txs, send, get }
    }

    fn do_disc(&mut self) {
        if let Some((num, _, _, txs)) = self.sys.chain.last().cloned() {
            for n in txs {
                if self.world.confirmed.get(&n) == Some(&num) {
                    self.world.confirmed.remove(&n);
                    // a disconnected transaction returns to the node's mempool, or conflicts
                    if self.rng.chance(80, 100) {
                        self.world.mempool.insert(n);
                    } else if self.rng.chance(1, 2) {
                        self.world.policy.insert(n, SendR::Rpc(-26));
                    }
                }
            }
            self.run_op(HOp::Disc);
        }
    }

    /// hand-written histories for coincidences that random generation hits too rarely
    pub fn directed(&mut self, which: usize) {
        let enc = |l: u32, len: usize| BlobSpec::Enc { dispute: l, penalty: penalty_num(l, 0), len };
        let empty = || HOp::Conn { txs: vec![], send: BTreeMap::new(), get: BTreeMap::new() };
        let conn = |txs: Vec<u32>| HOp::Conn { txs, send: BTreeMap::new(), get: BTreeMap::new() };
        let mut ops: Vec<HOp> = vec![HOp::Reg { user: 1 }, HOp::Reg { user: 2 }];
        // one tracker reaches 100 confirmations in the very block in which another one's re-broadcast is rejected: the
        // first is refunded, the second is not (three spacings, so that one of them makes the two coincide)
        if which == 100 {
            // (run through the client's own request and reply code) a subscription with so many appointments that the
            // tower's answer to `get_subscription_info` is far larger than one read of the HTTP stack
            for i in 0..260u32 {
                ops.push(HOp::Add { user: 1, loc: 20 + i, blob: BlobSpec::Junk { tag: 100 + i, len: 40 }, tsd: 10, sig: SigKind::Valid });
            }
            ops.push(HOp::Sub { user: 1, sig: SigKind::Valid });
            ops.push(empty());
            ops.push(HOp::Sub { user: 1, sig: SigKind::Valid });
            ops.push(HOp::Get { user: 1, loc: 21, sig: SigKind::Valid });
        } else if which == 9 {
            // a penalty confirmed and buried, three blocks disconnected, one replacement connected (the responder's index
            // holds fewer blocks than its size), then the appointment arrives: the recorded confirmation height must be
            // the penalty's height on the active chain
            ops.push(conn(vec![1]));
            ops.push(conn(vec![penalty_num(1, 0)]));
            for _ in 0..3 {
                ops.push(empty());
            }
            ops.push(HOp::Disc);
            ops.push(HOp::Disc);
            ops.push(empty());
            ops.push(HOp::Add { user: 1, loc: 1, blob: enc(1, 260), tsd: 10, sig: SigKind::Valid });
            ops.push(HOp::Get { user: 1, loc: 1, sig: SigKind::Valid });
            ops.push(empty());
            ops.push(empty());
        } else if which == 10 {
            // the tower is started again two blocks after a dispute was mined: the look-up it builds from the blocks it is
            // handed at start-up must cover the six most recent ones, so the appointment that arrives next is answered
            ops.push(conn(vec![1]));
            ops.push(empty());
            ops.push(HOp::Restart);
            ops.push(HOp::Add { user: 1, loc: 1, blob: enc(1, 260), tsd: 10, sig: SigKind::Valid });
            ops.push(HOp::Get { user: 1, loc: 1, sig: SigKind::Valid });
            ops.push(empty());
        } else if which == 8 {
            // dispute and penalty mined together by somebody else, that block reorged out (the tower has no tracker in it),
            // the replacement confirms the dispute only; then the appointment arrives: the penalty is not in the chain
            // any more and must be handed to the node
            ops.push(conn(vec![1, penalty_num(1, 0)]));
            ops.push(HOp::Disc);
            ops.push(conn(vec![1]));
            ops.push(HOp::Add { user: 1, loc: 1, blob: enc(1, 260), tsd: 10, sig: SigKind::Valid });
            ops.push(HOp::Get { user: 1, loc: 1, sig: SigKind::Valid });
            ops.push(empty());
        } else if which == 7 {
            // the node is ahead of the tower across a reorg: for the node the dispute is back in the mempool, the tower still
            // has it in its 6-block cache; a late appointment for that locator must still get its own penalty to the node
            ops.push(conn(vec![1]));
            ops.push(HOp::Dump);
            self.world.known_txs.insert(penalty_num(1, 0));
            ops.push(HOp::Add { user: 2, loc: 1, blob: enc(1, 260), tsd: 10, sig: SigKind::Valid });
            ops.push(HOp::Get { user: 2, loc: 1, sig: SigKind::Valid });
            ops.push(empty());
        } else if which == 6 {
            // a late appointment whose penalty the node refuses, a block, then the same appointment again with the node
            // accepting: the first refusal must not be remembered across the block
            let mut refuse = BTreeMap::new();
            refuse.insert(penalty_num(2, 0), SendR::Rpc(-26));
            ops.push(conn(vec![2]));
            ops.push(HOp::Conn { txs: vec![], send: refuse.clone(), get: BTreeMap::new() });
            self.world.known_txs.insert(penalty_num(2, 0));
            self.world.policy.insert(penalty_num(2, 0), SendR::Rpc(-26));
            ops.push(HOp::Add { user: 1, loc: 2, blob: enc(2, 260), tsd: 10, sig: SigKind::Valid });
            ops.push(HOp::Sub { user: 1, sig: SigKind::Valid });
            ops.push(empty());
            ops.push(HOp::Dump);
            ops.push(HOp::Add { user: 2, loc: 2, blob: enc(2, 260), tsd: 10, sig: SigKind::Valid });
            ops.push(HOp::Get { user: 2, loc: 2, sig: SigKind::Valid });
            ops.push(empty());
        } else if which == 5 {
            // two trackers of one user reach their 100th confirmation in the same block (and one of another user):
            // every refund must reach the users table, not only the first of each user
            ops.push(HOp::Add { user: 1, loc: 1, blob: enc(1, 260), tsd: 10, sig: SigKind::Valid });
            ops.push(HOp::Add { user: 1, loc: 2, blob: enc(2, 2049), tsd: 10, sig: SigKind::Valid });
            ops.push(HOp::Add { user: 2, loc: 3, blob: enc(3, 260), tsd: 10, sig: SigKind::Valid });
            ops.push(conn(vec![1, 2, 3]));
            ops.push(conn(vec![penalty_num(1, 0), penalty_num(2, 0), penalty_num(3, 0)]));
            for _ in 0..100 {
                ops.push(empty());
            }
            ops.push(HOp::Sub { user: 1, sig: SigKind::Valid });
            ops.push(HOp::Restart);
            ops.push(HOp::Sub { user: 1, sig: SigKind::Valid });
            ops.push(HOp::Sub { user: 2, sig: SigKind::Valid });
            ops.push(empty());
        } else if which == 4 {
            // (run with a subscription duration above 2^31 blocks) a renewal whose new expiry runs into the u32 cap: the
            // receipt, the gatekeeper's memory and the users row must carry the same (capped) number, also after a restart
            ops.push(HOp::Reg { user: 1 });
            ops.push(HOp::Sub { user: 1, sig: SigKind::Valid });
            ops.push(HOp::Add { user: 1, loc: 1, blob: enc(1, 260), tsd: 10, sig: SigKind::Valid });
            ops.push(HOp::Restart);
            ops.push(HOp::Sub { user: 1, sig: SigKind::Valid });
            ops.push(HOp::Reg { user: 2 });
            ops.push(empty());
        } else if which == 3 {
            // the node reports the penalty as already in the chain (mined together with the dispute): no tracker, the
            // appointment stays; a smaller, undecryptable replacement for it follows while the locator is in the cache
            ops.push(HOp::Add { user: 1, loc: 3, blob: enc(3, 4097), tsd: 10, sig: SigKind::Valid });
            let mut send = BTreeMap::new();
            send.insert(penalty_num(3, 0), SendR::Rpc(-27));
            ops.push(HOp::Conn { txs: vec![3], send: send.clone(), get: BTreeMap::new() });
            ops.push(HOp::Sub { user: 1, sig: SigKind::Valid });
            ops.push(HOp::Add { user: 1, loc: 3, blob: BlobSpec::Junk { tag: 7, len: 100 }, tsd: 10, sig: SigKind::Valid });
            ops.push(HOp::Sub { user: 1, sig: SigKind::Valid });
            ops.push(HOp::Add { user: 1, loc: 3, blob: BlobSpec::Junk { tag: 8, len: 100 }, tsd: 10, sig: SigKind::Valid });
            ops.push(HOp::Sub { user: 1, sig: SigKind::Valid });
            ops.push(empty());
        } else {
            ops.push(HOp::Add { user: 1, loc: 1, blob: enc(1, 260), tsd: 10, sig: SigKind::Valid });
            ops.push(HOp::Add { user: 2, loc: 2, blob: enc(2, if which == 1 { 4097 } else { 260 }), tsd: 10, sig: SigKind::Valid });
            ops.push(conn(vec![1]));
            ops.push(conn(vec![penalty_num(1, 0)]));
            for _ in 0..(93 + which) {
                ops.push(empty());
            }
            ops.push(conn(vec![2]));
            let mut send = BTreeMap::new();
            send.insert(penalty_num(2, 0), SendR::Rpc(-26));
            for _ in 0..8 {
                ops.push(HOp::Conn { txs: vec![], send: send.clone(), get: BTreeMap::new() });
            }
            ops.push(HOp::Sub { user: 1, sig: SigKind::Valid });
            ops.push(HOp::Sub { user: 2, sig: SigKind::Valid });
            ops.push(empty());
        }
        for op in ops {
            if self.sys.dead {
                break;
            }
            if let HOp::Conn { txs, .. } = &op {
                for t in txs {
                    self.world.known_txs.insert(*t);
                }
            }
            if which == 7 && matches!(op, HOp::Dump) {
                self.world.confirmed.remove(&1);
                self.world.mempool.insert(1);
            }
            if which == 6 && matches!(op, HOp::Dump) {
                // from here on the node accepts the penalty it refused before
                self.world.policy.insert(penalty_num(2, 0), SendR::Ok);
            }
            self.run_op(op);
        }
    }

    pub fn history(&mut self, nops: usize, thorough: bool) {
        let mut i = 0;
        // most histories start with one or two registrations
        for _ in 0..self.rng.below(3) {
            let u = self.rng.range(1, self.nusers as u64) as u32;
            self.run_op(HOp::Reg { user: u });
        }
        while i < nops && !self.sys.dead {
            i += 1;
            if self.sys.http.is_some() && !self.sys.use_plugin_client && self.rng.chance(1, 4) {
                crate::httpc::extras(self);
                continue;
            }
            match self.rng.weighted(&[10, 34, 8, 4, 26, 8, 3, if thorough { 2 } else { 1 }, if self.sys.http.is_some() { 0 } else { 3 }]) {
                0 => {
                    let u = self.rng.range(1, self.nusers as u64) as u32;
                    self.run_op(HOp::Reg { user: u });
                }
                1 => {
                    let op = self.gen_add();
                    self.run_op(op);
                }
                2 => {
                    let user = self.pick_user();
                    let loc = self.rng.range(1, self.nlocs as u64) as u32;
                    let sig = self.sig_kind(user);
                    self.run_op(HOp::Get { user, loc, sig });
                }
                3 => {
                    let user = self.pick_user();
                    let sig = self.sig_kind(user);
                    self.run_op(HOp::Sub { user, sig });
                }
                4 => {
                    let op = self.gen_conn(false);
                    self.run_op(op);
                }
                5 => {
                    // reorg: d disconnections, then at least d connections
                    let maxd = if self.rng.chance(1, 10) { 12 } else { 4 };
                    let avail = self.sys.chain.len().saturating_sub(BOOT_BLOCKS);
                    let d = self.rng.range(1, maxd).min(avail.max(1) as u64) as usize;
                    if avail == 0 {
                        continue;
                    }
                    for _ in 0..d {
                        self.do_disc();
                    }
                    // requests served while the height is lower than it has been: a subscription created or
                    // renewed now expires at a height the tower has already seen once
                    for _ in 0..self.rng.below(3) {
                        if self.sys.dead {
                            break;
                        }
                        if self.rng.chance(2, 3) {
                            let u = self.rng.range(1, self.nusers as u64) as u32;
                            self.run_op(HOp::Reg { user: u });
                        } else {
                            let op = self.gen_add();
                            self.run_op(op);
                        }
                    }
                    let extra = self.rng.below(3) as usize;
                    for _ in 0..(d + extra) {
                        if self.sys.dead {
                            break;
                        }
                        let op = self.gen_conn(true);
                        self.run_op(op);
                    }
                }
                8 => {
                    // a clean stop and start on the same data directory (every component rebuilt from the file and
                    // the last 100 blocks); never in the middle of a reorg: the real tower restarts from its last
                    // known block, i.e. from before the disconnections
                    self.run_op(HOp::Restart);
                }
                6 => {
                    // walk: several (mostly empty) blocks
                    let n = self.rng.range(1, 9);
                    for _ in 0..n {
                        if self.sys.dead {
                            break;
                        }
                        let (send, get) = self.world.tables(&mut self.rng);
                        self.run_op(HOp::Conn { txs: vec![], send, get });
                    }
                }
                _ => {
                    // long walk: reach and pass 100 confirmations
                    let n = self.rng.range(90, 108);
                    for _ in 0..n {
                        if self.sys.dead {
                            break;
                        }
                        let (send, get) = self.world.tables(&mut self.rng);
                        self.run_op(HOp::Conn { txs: vec![], send, get });
                    }
                }
            }
        }
    }
}

pub fn op_name(op: &HOp) -> &'static str {
    match op {
        HOp::Reg { .. } => "reg",
        HOp::Add { .. } => "add",
        HOp::Get { .. } => "get",
        HOp::Sub { .. } => "sub",
        HOp::Conn { .. } => "conn",
        HOp::Disc => "disc",
        HOp::Restart => "restart",
        HOp::Dump => "dump",
    }
}

fn op_letter(op: &HOp, out: &Outcome) -> char {
    let ok = !matches!(out, Outcome::Error { .. } | Outcome::MaxSlots | Outcome::Panicked(_));
    match op {
        HOp::Reg { .. } => if ok { 'R' } else { 'r' },
        HOp::Add { .. } => if ok { 'A' } else { 'a' },
        HOp::Get { .. } => if ok { 'G' } else { 'g' },
        HOp::Sub { .. } => if ok { 'S' } else { 's' },
        HOp::Conn { txs, .. } => if txs.is_empty() { 'c' } else { 'C' },
        HOp::Disc => 'd',
        HOp::Restart => 'R',
        HOp::Dump => '.',
    }
}

pub fn run(seed: u64, thorough: bool, rep: &mut Report) {
    run_mode(seed, thorough, rep, false)
}

pub fn run_mode(seed: u64, thorough: bool, rep: &mut Report, http: bool) {
    run_mode2(seed, thorough, rep, http, false)
}

pub fn run_mode2(seed: u64, thorough: bool, rep: &mut Report, http: bool, plugin_client: bool) {
    install_panic_hook();
    // lock-order graph over everything the histories execute (hook H5, passive observer)
    let recorder = std::sync::Arc::new(crate::sync::Recorder::default());
    teos::vsync::set_observer(Some(recorder.clone()));
    let boot = BootChain::new();
    let mut master = Rng::new(seed);
    let ncases = if plugin_client { if thorough { 300 } else { 25 } } else if http { if thorough { 600 } else { 60 } } else if thorough { 4000 } else { 160 };
    // the cases are independent: they run on worker threads, each into its own report, merged in case order
    let rngs: Vec<Rng> = (0..ncases).map(|_| master.fork()).collect();
    let boot = std::sync::Arc::new(boot);
    let next = std::sync::Arc::new(std::sync::atomic::AtomicUsize::new(0));
    let results: std::sync::Arc<std::sync::Mutex<BTreeMap<usize, Report>>> = Default::default();
    let rngs = std::sync::Arc::new(std::sync::Mutex::new(rngs.into_iter().map(Some).collect::<Vec<_>>()));
    let workers = std::env::var("VERIF_WORKERS").ok().and_then(|x| x.parse().ok()).unwrap_or(if thorough { 12usize } else { 6 });
    let mut handles = vec![];
    let inflight: InFlight = Default::default();
    for wid in 0..workers.max(1) {
        let (boot, next, results, rngs) = (boot.clone(), next.clone(), results.clone(), rngs.clone());
        let inflight = inflight.clone();
        handles.push(std::thread::spawn(move || loop {
            WATCH.with(|w| *w.borrow_mut() = Some((inflight.clone(), wid)));
            let c = next.fetch_add(1, std::sync::atomic::Ordering::SeqCst);
            if c >= ncases {
                break;
            }
            let mut rng = rngs.lock().unwrap()[c].take().unwrap();
            let mut rep = Report::detached();
            let directed = if c < N_DIRECTED && !http { Some(c) } else if plugin_client && c == 0 { Some(100) } else { None };
            let cfg = if directed == Some(100) { (300u32, 400u32, 6u32) } else if directed == Some(4) { (5u32, 2_200_000_000u32, 0u32) } else if directed.is_some() { (5u32, 400u32, 6u32) } else { (
                // (a subscription size for which a second registration overflows u32: the refused-renewal path)
                *rng.pick(&[1u32, 2, 3, 5, 8, 1, 2, 3, 5, 8, 2_200_000_000]),
                // (a duration for which a renewal runs into the u32 cap of the expiry)
                [0u32, 1, 4, 10, 25, 150, 400, 2_200_000_000][rng.weighted(&[3, 4, 8, 15, 25, 30, 15, 4])],
                *rng.pick(&[0u32, 1, 2, 6]),
            ) };
            // (expiry + grace is an unchecked u32 addition in the gatekeeper: with an expiry at the cap only a zero grace
            // period stays inside the stated precondition of C09)
            let cfg = if cfg.1 > 2_000_000_000 { (cfg.0, cfg.1, 0) } else { cfg };
            let height = 100 + rng.below(40) as u32;
            rep.begin_case(&format!("hist-{seed}-{c}"));
            let mut sys = TowerSys::boot(cfg, height, &boot, &mut rep);
            if http {
                sys.http = Some(std::sync::Arc::new(crate::httpfront::HttpFront::start(sys.api.clone())));
                sys.use_plugin_client = plugin_client;
            }
            let nops = rng.range(15, if thorough { 140 } else { 70 }) as usize;
            let mut g = Gen { rng, sys, world: World::new(), rep: &mut rep, nlocs: 4, nusers: 3, monitors: true, mon: Default::default(), max_blob: if http { 800 } else { usize::MAX } };
            // a panic that escapes the per-operation guard (a restart that cannot load its own database, say) must not
            // make the case vanish from the report
            let ran = std::panic::catch_unwind(std::panic::AssertUnwindSafe(|| match directed {
                Some(d) => g.directed(d),
                None => g.history(nops, thorough),
            }));
            if let Err(e) = ran {
                let what = e.downcast_ref::<String>().cloned().or_else(|| e.downcast_ref::<&str>().map(|x| x.to_string())).unwrap_or_default();
                g.rep.fail("C11", "panic@outside-request-handlers", &format!("the tower panicked outside a request or block handler: {what}"));
                g.rep.fail("C03", "restart_failed", &format!("the tower could not be started again on its own data directory: {what}"));
            }
            let shape = g.world.shape.clone();
            let nontrivial = shape.contains('A') && shape.contains('C');
            drop(g);
            rep.end_case(if nontrivial { Some(shape) } else { None });
            results.lock().unwrap().insert(c, rep);
        }));
    }
    // wait for the workers; an operation that has not returned after a long while (a request handler or block handler
    // that waits for a lock its own thread holds, say) is reported with the history that led to it, and its worker is
    // given up on
    let limit = std::time::Duration::from_secs(std::env::var("VERIF_OP_TIMEOUT").ok().and_then(|x| x.parse().ok()).unwrap_or(90));
    let mut given_up: BTreeSet<usize> = BTreeSet::new();
    loop {
        if handles.iter().enumerate().all(|(i, h)| h.is_finished() || given_up.contains(&i)) {
            break;
        }
        std::thread::sleep(std::time::Duration::from_millis(200));
        let stuck: Vec<(usize, (String, String, Vec<String>, std::time::Instant))> =
            inflight.lock().unwrap().iter().filter(|(i, v)| !given_up.contains(i) && v.3.elapsed() > limit).map(|(i, v)| (*i, v.clone())).collect();
        for (i, (case, op, ops, _)) in stuck {
            given_up.insert(i);
            rep.begin_case(case.trim_start_matches("case "));
            for l in ops.iter().skip(1) {
                rep.line(&format!("tx {l}"), "-");
            }
            rep.fail("C11", "operation_never_returns", &format!("`{op}` had not returned after {} s: the tower is stuck (every later request or block touching the same locks waits forever)", limit.as_secs()));
            rep.end_case(None);
        }
    }
    let results = std::mem::take(&mut *results.lock().unwrap());
    for (_, r) in results {
        rep.absorb(r);
    }
    teos::vsync::set_observer(None);
    let edges = recorder.edges.lock().unwrap().clone();
    for c in crate::sync::find_cycles(&edges) {
        rep.begin_case("lock-order-graph");
        rep.fail("C11", &format!("lock-order-cycle:{}", c.join(">")), &format!("over all histories, locks are acquired in both orders: {c:?}"));
    }
    let es: Vec<String> = edges.iter().map(|(a, b)| format!("{a}>{b}")).collect();
    rep.extra.insert("lock_edges".into(), serde_json::json!(es));
    rep.extra.insert("lock_acquisitions".into(), serde_json::json!(*recorder.acquisitions.lock().unwrap()));
    rep.line(&format!("cc edges {}", es.join(" ")), "ok");
    cleanup_db_dir();
}
