//! C12: bitcoind outages against the real Carrier / ChainMonitor / InternalAPI, under the
//! deterministic scheduler (hook H5). A scenario is a sequence of acts (node down/up, a block is
//! mined, an API thread submits an appointment whose dispute is cached, the chain thread polls, the
//! API is probed); after each act the observable state is printed and compared with the Lean model
//! `Model/Outage.lean` running the same acts. "Blocked forever" is decided structurally (nobody is
//! left to signal the condition variable), not by a time-out.

use std::collections::BTreeMap;
use std::sync::Arc;

use tonic::Request;

use teos::protos::public_tower_services_server::PublicTowerServices;
use teos_common::protos as common_msgs;
use teos_common::UserId;

use crate::live::{Live, Monitor};
use crate::report::Report;
use crate::sync::{Sched, TState};
use crate::tower::*;

#[derive(Clone, Debug, PartialEq)]
pub enum Act {
    NodeDown,
    NodeUp,
    /// outage of the RPC interface only, starting at the i-th next RPC
    RpcDownAfter(usize),
    /// the node mines a block (with the dispute of locator 2's appointment or empty)
    Mine(bool),
    /// the download of the i-th undelivered block fails until the node is "up" again
    FailBlock(usize),
    /// an API thread submits an appointment for locator 1 (dispute already in the cache)
    ApiStart,
    /// let the API thread run until it finishes or cannot continue
    ApiRun,
    /// the chain thread polls (or continues the poll it is stuck in)
    Poll,
    Probe,
    /// the node answers again, but its best block is the parent of the tower's tip (it lost its last block, or sits on
    /// an equal-work sibling): the next poll finds a worse tip
    NodeBehind,
    /// the chain thread starts a poll and runs until it has asked the node for its best block; the rest of the poll
    /// (delivering, raising the flag, waking the waiters) is left for the next `Poll`
    PollUntilNodeAsked,
}

impl Act {
    fn token(&self) -> String {
        match self {
            Act::NodeDown => "nodedown".into(),
            Act::NodeUp => "nodeup".into(),
            Act::RpcDownAfter(i) => format!("rpcdown {i}"),
            Act::Mine(d) => format!("mine {}", if *d { 1 } else { 0 }),
            Act::FailBlock(i) => format!("failblock {i}"),
            Act::ApiStart => "apistart".into(),
            Act::ApiRun => "apirun".into(),
            Act::Poll => "poll".into(),
            Act::Probe => "probe".into(),
            Act::NodeBehind => "nodebehind".into(),
            Act::PollUntilNodeAsked => "polluntilnodeasked".into(),
        }
    }
}

struct Run {
    live: Option<Live>,
    sched: Arc<Sched>,
    api: Option<std::thread::JoinHandle<String>>,
    api_tid: usize,
    chain: Option<std::thread::JoinHandle<Monitor>>,
    chain_tid: Option<usize>,
    next_tid: usize,
    monitor: Option<Monitor>,
    api_result: Option<String>,
    /// length of the harness chain when the scenario started (everything before is delivered)
    delivered_upto: usize,
}

fn thread_state(s: &Sched, tid: Option<usize>, finished_ok: bool) -> &'static str {
    match tid {
        None => "idle",
        Some(t) => {
            let st = s.st.lock().unwrap();
            match &st.threads[t] {
                TState::Finished => if finished_ok { "done" } else { "idle" },
                TState::Waiting(_) => "wait",
                TState::WantLock(m, _) => if st.owner.contains_key(m) { "blocked" } else { "run" },
                _ => "run",
            }
        }
    }
}

impl Run {
    fn sys(&mut self) -> &mut TowerSys {
        &mut self.live.as_mut().unwrap().sys
    }

    /// grant `tid` until it finishes or is not enabled any more
    fn drive(&mut self, tid: usize) {
        loop {
            match self.sched.settle() {
                Ok(enabled) => {
                    if enabled.contains(&tid) {
                        self.sched.grant(tid);
                    } else {
                        break;
                    }
                }
                Err(_) => break,
            }
        }
    }

    fn observe(&mut self) -> String {
        let _ = self.sched.settle();
        let flag = *self.live.as_ref().unwrap().sys.reachable.0.lock().unwrap();
        let api = if self.api_result.is_some() { "done" } else if self.api.is_some() { thread_state(&self.sched, Some(self.api_tid), true) } else { "idle" };
        let chain = thread_state(&self.sched, self.chain_tid, false);
        if std::env::var("VERIF_DEBUG").is_ok() {
            eprintln!("   observe: chain_tid={:?} states={:?}", self.chain_tid, self.sched.st.lock().unwrap().threads);
        }
        let node = self.live.as_ref().unwrap().sys.node.clone();
        let sends = node.0.lock().unwrap().log.iter().filter(|(m, _)| m == "send").count();
        let db = self.sys().read_db();
        format!("flag={} api={api} chain={chain} sends={sends} trackers={}", if flag { 1 } else { 0 }, db.trackers.len())
    }
}

pub fn scenarios() -> Vec<(&'static str, Vec<Act>)> {
    use Act::*;
    vec![
        ("request-path-recovers", vec![NodeDown, ApiStart, ApiRun, Probe, Poll, Probe, NodeUp, Poll, ApiRun, Probe]),
        ("request-path-outage-at-second-rpc", vec![RpcDownAfter(1), ApiStart, ApiRun, Probe, NodeUp, Poll, ApiRun, Probe]),
        ("request-path-long-outage", vec![NodeDown, ApiStart, ApiRun, Poll, Poll, Poll, NodeUp, Poll, ApiRun, Probe]),
        ("request-path-block-mined-meanwhile", vec![NodeDown, ApiStart, ApiRun, Mine(false), NodeUp, Poll, ApiRun, Probe]),
        ("block-path-outage", vec![Mine(true), RpcDownAfter(0), Poll, Probe, NodeUp, Poll, Probe]),
        ("no-outage", vec![ApiStart, ApiRun, Mine(true), Poll, Probe]),
        ("multi-block-poll-with-failed-download", vec![Mine(true), Mine(false), Mine(false), FailBlock(1), Poll, Probe, NodeUp, Poll, Probe]),
        // a download fails in the middle of a multi-block poll (the part that got through is kept and the tip recorded),
        // then the node goes away altogether (noticed by the next poll); when it is back, the poll that delivers the
        // rest of the blocks finds the very tip it has already recorded — it is the one that must end the outage
        ("outage-after-an-interrupted-multi-block-poll", vec![Mine(true), Mine(false), Mine(false), FailBlock(1), Poll, Probe, NodeDown, Poll, Probe, NodeUp, Poll, Probe]),
        ("outage-after-an-interrupted-multi-block-poll-longer", vec![Mine(false), Mine(true), Mine(false), Mine(false), FailBlock(2), Poll, NodeDown, Poll, Poll, Probe, NodeUp, Poll, Probe, Poll, Probe]),
        ("outage-noticed-by-poll", vec![NodeDown, Poll, Probe, NodeUp, Poll, Probe, Mine(true), Poll, Probe]),
        // the node flaps: the poll succeeds (flag restored, waiters woken) but the RPC interface is gone again when the
        // carrier retries; the carrier must go on waiting, not give the penalty up
        ("request-path-node-flaps", vec![NodeDown, ApiStart, ApiRun, Probe, NodeUp, RpcDownAfter(0), Poll, ApiRun, Probe, NodeUp, Poll, ApiRun, Probe]),
        // the node comes back one block behind the tower (or on an equal-work sibling): the first successful poll finds a
        // worse tip; it is still a successful poll: the outage is over, the waiting submission goes through
        ("node-back-one-block-behind", vec![NodeDown, Poll, Probe, NodeBehind, NodeUp, Poll, Probe]),
        ("request-path-node-back-one-block-behind", vec![NodeDown, ApiStart, ApiRun, Probe, NodeBehind, NodeUp, Poll, ApiRun, Probe]),
        // the carrier notices the outage while a poll is in flight (the poll has already asked the node, which was up
        // then): when that poll completes it raises the flag — and must wake the carrier it finds waiting
        ("outage-noticed-by-the-carrier-while-a-poll-is-in-flight", vec![ApiStart, PollUntilNodeAsked, RpcDownAfter(0), ApiRun, Probe, NodeUp, Poll, ApiRun, Probe]),
        ("request-path-node-flaps-twice", vec![NodeDown, ApiStart, ApiRun, NodeUp, RpcDownAfter(0), Poll, ApiRun, NodeUp, RpcDownAfter(0), Poll, ApiRun, Probe, NodeUp, Poll, ApiRun, Probe]),
    ]
}

pub fn run(_seed: u64, _thorough: bool, rep: &mut Report) {
    install_panic_hook();
    let boot = BootChain::new();
    for (name, acts) in scenarios() {
        rep.begin_case(name);
        // (the protocol model has polls as one step: a scenario that stops a poll half-way is checked by the monitors only)
        if acts.iter().any(|a| *a == Act::PollUntilNodeAsked) {
            rep.uncompared = true;
        }
        // set-up (unmanaged): two users' appointments; dispute of locator 1 in the cache, appointment of
        // locator 2 stored (its dispute comes in a later block)
        let mut sys = TowerSys::boot((5, 400, 6), 100, &boot, rep);
        sys.set_tables(&BTreeMap::new(), &BTreeMap::new());
        let enc = |l: u32| BlobSpec::Enc { dispute: l, penalty: 1000 + l * 10, len: 260 };
        sys.exec(&HOp::Reg { user: 1 }, rep);
        sys.exec(&HOp::Add { user: 1, loc: 2, blob: enc(2), tsd: 1, sig: SigKind::Valid }, rep);
        sys.exec(&HOp::Conn { txs: vec![1], send: BTreeMap::new(), get: BTreeMap::new() }, rep);
        sys.node.take_log();
        let live = Live::new(sys);
        let sched = Sched::new(acts.len() + 2);
        // thread slots are filled as threads are spawned
        for t in sched.st.lock().unwrap().threads.iter_mut() {
            *t = TState::Finished;
        }
        let mut run = Run { live: Some(live), sched: sched.clone(), api: None, api_tid: 0, chain: None, chain_tid: None, next_tid: 1, monitor: None, api_result: None, delivered_upto: 0 };
        run.delivered_upto = run.live.as_ref().unwrap().sys.chain.len();
        // take the monitor out so that it can move into the chain thread
        {
            let live = run.live.as_mut().unwrap();
            let m = std::mem::replace(&mut live.monitor, Live::monitor_for(&live.sys, &live.source));
            run.monitor = Some(m);
        }
        teos::vsync::set_observer(Some(sched.clone()));
        let mut stuck_reported = false;
        for act in acts.iter() {
            if std::env::var("VERIF_DEBUG").is_ok() {
                eprintln!("[{name}] act {}", act.token());
            }
            match act {
                Act::NodeDown => {
                    let l = run.live.as_ref().unwrap();
                    l.sys.node.0.lock().unwrap().down = true;
                    l.source.set_down(true);
                }
                Act::NodeUp => {
                    let l = run.live.as_ref().unwrap();
                    let mut n = l.sys.node.0.lock().unwrap();
                    n.down = false;
                    n.down_after = None;
                    drop(n);
                    l.source.set_down(false);
                    l.source.0.lock().unwrap().fail_blocks.clear();
                }
                Act::RpcDownAfter(i) => {
                    run.live.as_ref().unwrap().sys.node.0.lock().unwrap().down_after = Some(*i);
                }
                Act::Mine(with_dispute) => {
                    let txs = if *with_dispute { vec![2] } else { vec![] };
                    run.live.as_mut().unwrap().mine(txs);
                }
                Act::FailBlock(i) => {
                    let l = run.live.as_ref().unwrap();
                    // undelivered blocks = the last blocks of the harness chain the monitor has not seen
                    let undelivered = l.sys.chain.len() - run.delivered_upto;
                    if *i < undelivered {
                        let h = l.sys.chain[run.delivered_upto + *i].1.block_hash();
                        l.source.0.lock().unwrap().fail_blocks.insert(h);
                    }
                }
                Act::ApiStart => {
                    let sys = run.sys();
                    let locator = sys.locator(1);
                    let (bytes, _) = sys.build_blob(&enc(1));
                    let appt = teos_common::appointment::Appointment::new(locator, bytes.clone(), 7);
                    let sig = teos_common::cryptography::sign(&appt.to_vec(), &user_key(1).sk);
                    let req = common_msgs::AddAppointmentRequest {
                        appointment: Some(common_msgs::Appointment { locator: locator.to_vec(), encrypted_blob: bytes, to_self_delay: 7 }),
                        signature: sig,
                    };
                    let api = sys.api.clone();
                    let s2 = sched.clone();
                    run.api_tid = 0;
                    sched.st.lock().unwrap().threads[0] = TState::NotStarted;
                    run.api = Some(std::thread::spawn(move || {
                        s2.thread_start(0);
                        let rt = tokio::runtime::Builder::new_current_thread().enable_all().build().unwrap();
                        let out = match rt.block_on(api.add_appointment(Request::new(req))) {
                            Ok(_) => "ok".to_string(),
                            Err(s) => format!("err {:?}", s.code()),
                        };
                        s2.thread_end(0);
                        out
                    }));
                }
                Act::ApiRun => {
                    if run.api.is_some() && run.api_result.is_none() {
                        run.drive(0);
                        let done = sched.st.lock().unwrap().threads[0] == TState::Finished;
                        if done {
                            run.api_result = Some(run.api.take().unwrap().join().unwrap());
                        }
                    }
                }
                Act::Poll => {
                    let busy = run.chain_tid.map_or(false, |t| sched.st.lock().unwrap().threads[t] != TState::Finished);
                    if !busy {
                        // collect the monitor from the previous poll thread, start a new poll
                        if let Some(h) = run.chain.take() {
                            run.monitor = Some(h.join().unwrap());
                        }
                        let tid = run.next_tid;
                        run.next_tid += 1;
                        run.chain_tid = Some(tid);
                        sched.st.lock().unwrap().threads[tid] = TState::NotStarted;
                        let mut mon = run.monitor.take().unwrap();
                        let s2 = sched.clone();
                        run.chain = Some(std::thread::spawn(move || {
                            s2.thread_start(tid);
                            let rt = tokio::runtime::Builder::new_current_thread().enable_all().build().unwrap();
                            rt.block_on(mon.poll_best_tip());
                            s2.thread_end(tid);
                            mon
                        }));
                    }
                    let tid = run.chain_tid.unwrap();
                    run.drive(tid);
                    if std::env::var("VERIF_DEBUG").is_ok() {
                        let calls = std::mem::take(&mut run.live.as_ref().unwrap().source.0.lock().unwrap().calls);
                        eprintln!("   source calls: {calls:?}");
                    }
                }
                Act::Probe => {}
                Act::PollUntilNodeAsked => {
                    let busy = run.chain_tid.map_or(false, |t| sched.st.lock().unwrap().threads[t] != TState::Finished);
                    if !busy {
                        if let Some(h) = run.chain.take() {
                            run.monitor = Some(h.join().unwrap());
                        }
                        let tid = run.next_tid;
                        run.next_tid += 1;
                        run.chain_tid = Some(tid);
                        sched.st.lock().unwrap().threads[tid] = TState::NotStarted;
                        let mut mon = run.monitor.take().unwrap();
                        let s2 = sched.clone();
                        run.live.as_ref().unwrap().source.0.lock().unwrap().calls.clear();
                        run.chain = Some(std::thread::spawn(move || {
                            s2.thread_start(tid);
                            let rt = tokio::runtime::Builder::new_current_thread().enable_all().build().unwrap();
                            rt.block_on(mon.poll_best_tip());
                            s2.thread_end(tid);
                            mon
                        }));
                        // grant the chain thread until the block source has been asked (or it cannot go on)
                        for _ in 0..200 {
                            // (settle first: only then has the thread reached its next scheduling point)
                            let enabled = match sched.settle() {
                                Ok(e) => e,
                                Err(_) => break,
                            };
                            let asked = !run.live.as_ref().unwrap().source.0.lock().unwrap().calls.is_empty();
                            if asked || !enabled.contains(&tid) {
                                break;
                            }
                            sched.grant(tid);
                        }
                    }
                }
                Act::NodeBehind => {
                    let l = run.live.as_ref().unwrap();
                    let n = l.sys.chain.len();
                    let parent = l.sys.chain[n - 2].1.block_hash();
                    l.source.0.lock().unwrap().best = Some(parent);
                }
            }
            let mut out = run.observe();
            if *act == Act::Probe {
                // the public API from an (unmanaged) client thread
                let api = run.sys().api.clone();
                let req = common_msgs::RegisterRequest { user_id: UserId(user_key(2).pk).to_vec() };
                let r = run.sys().rt.block_on(api.register(Request::new(req)));
                let code = match r {
                    Ok(_) => "200".to_string(),
                    Err(s) if s.code() == tonic::Code::Unavailable => "503".to_string(),
                    Err(s) => format!("{:?}", s.code()),
                };
                let flag = out.starts_with("flag=1");
                if (code == "503") == flag {
                    rep.fail("C12", "api_status_vs_flag", &format!("API answered {code} while the reachable flag is {flag}"));
                }
                out = format!("{out} probe={code}");
            }
            // a thread parked in the carrier's wait means the tower has noticed the outage: from that moment the API must
            // answer `service unavailable`, i.e. the flag is down
            if out.starts_with("flag=1") && (out.contains("api=wait") || out.contains("chain=wait")) {
                rep.fail("C12", "outage_noticed_but_not_flagged", &format!("scenario {name}: a thread waits for the node to come back ({out}) but the tower is still flagged reachable: the public API keeps taking new work"));
            }
            if *act == Act::Poll {
                // the property itself: a poll that ran to completion against a reachable node must leave
                // the tower flagged reachable (it is the only thing that ever wakes the waiters)
                let n = run.live.as_ref().unwrap().sys.node.0.lock().unwrap();
                let node_up = !n.down && n.down_after.is_none();
                drop(n);
                if node_up && out.starts_with("flag=0") && out.contains("chain=idle") {
                    rep.fail("C12", "flag_not_restored_by_successful_poll", &format!("scenario {name}: the node is reachable and poll_best_tip returned, but the tower is still flagged unreachable ({out}): waiters are never woken, the API answers 503"));
                }
            }
            rep.line(&format!("ou {}", act.token()), &out);
            rep.count(&format!("act:{}", act.token().split(' ').next().unwrap()));
        }
        // final verdict of the scenario: who is stuck for ever?
        let (api_state, chain_state) = {
            let api = if run.api_result.is_some() { "done" } else if run.api.is_some() { thread_state(&sched, Some(0), true) } else { "idle" };
            (api.to_string(), thread_state(&sched, run.chain_tid, false).to_string())
        };
        let node_up = !run.live.as_ref().unwrap().sys.node.0.lock().unwrap().down;
        if node_up && (api_state == "wait" || api_state == "blocked" || chain_state == "wait" || chain_state == "blocked") && !stuck_reported {
            // decided structurally: with the node reachable again, is anybody able to make progress?
            let enabled = match sched.settle() {
                Ok(e) => e,
                Err(_) => vec![],
            };
            let polls_possible = chain_state == "idle";
            if enabled.is_empty() && !polls_possible || (chain_state == "wait") {
                stuck_reported = true;
                let held: Vec<String> = {
                    let st = sched.st.lock().unwrap();
                    st.held.iter().enumerate().filter(|(_, h)| !h.is_empty()).map(|(i, h)| format!("t{i}:{}", h.iter().map(|(_, n)| crate::sync::short_name(n)).collect::<Vec<_>>().join("+"))).collect()
                };
                let fp = if chain_state == "wait" { "chain-thread-waits-for-its-own-signal" } else { "api-thread-waits-holding-cache-lock-needed-by-next-block" };
                rep.fail("C12", fp, &format!("scenario {name}: node reachable again but api={api_state} chain={chain_state}; locks held: {held:?}; nobody can set the reachable flag"));
            }
        }
        let _ = stuck_reported;
        // "resume without losing or wrongly rejecting work": a submission whose dispute was already confirmed and that
        // the API thread finished after the node came back must have its penalty tracked — an outage is not a verdict
        if node_up && acts.contains(&Act::ApiStart) && api_state == "done" {
            let db = run.live.as_mut().unwrap().sys.read_db();
            let accepted = run.api_result.as_deref().map_or(false, |r| r.starts_with("ok"));
            if accepted && db.trackers.is_empty() {
                rep.fail("C12", "penalty_given_up_during_outage", &format!("scenario {name}: the submission was answered `{}` after the node came back, but no tracker exists: the penalty was dropped because of the outage", run.api_result.clone().unwrap_or_default()));
            }
        }
        if std::env::var("VERIF_DEBUG").is_ok() {
            let st = sched.st.lock().unwrap();
            let tr: Vec<String> = st.trace.iter().rev().take(14).map(|e| format!("{e:?}")).collect();
            eprintln!("   last events (newest first): {tr:?}\n   states: {:?}", st.threads);
        }
        rep.line("ou end", &format!("api={api_state} chain={chain_state}"));
        // teardown: release every parked thread; leak what cannot finish
        teos::vsync::set_observer(None);
        sched.abandon();
        if let Some(l) = run.live.take() {
            if api_state == "done" || api_state == "idle" {
                if chain_state == "idle" || chain_state == "done" {
                    drop(l);
                } else {
                    std::mem::forget(l);
                }
            } else {
                std::mem::forget(l);
            }
        }
        std::mem::forget(run);
        rep.end_case(Some(name.to_string()));
    }
    cleanup_db_dir();
}
