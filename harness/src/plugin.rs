//! Driving the real `watchtower-client` binary over its stdin/stdout plugin protocol (no lightningd)
//! against scripted fake towers (plain TCP HTTP/1.1 servers living in this process).

use std::collections::BTreeMap;
use std::io::{BufRead, BufReader, Read, Write};
use std::net::{TcpListener, TcpStream};
use std::path::PathBuf;
use std::process::{Child, ChildStdin, Command, Stdio};
use std::sync::atomic::{AtomicBool, Ordering};
use std::sync::mpsc::{channel, Receiver, RecvTimeoutError};
use std::sync::{Arc, Mutex};
use std::time::{Duration, Instant};

use serde_json::{json, Value};

use teos_common::cryptography;
use teos_common::protos as msgs;
use teos_common::receipts::{AppointmentReceipt, RegistrationReceipt};
use teos_common::UserId;

use crate::client::tower_key;

// ------------------------------------------------------------------------------------------ fake tower

#[derive(Clone, Debug, PartialEq, Eq)]
pub enum AddMode {
    Accept,
    /// INVALID_SIGNATURE_OR_SUBSCRIPTION_ERROR
    SubErr,
    /// any other API error
    Reject,
    /// not a JSON document
    NonJson,
    /// JSON of the wrong shape
    WrongShape,
    /// empty body
    Empty,
    /// well-formed reply signed by another key
    BadSig,
    /// well-formed reply whose signature is not a decodable signature
    MalformedSig,
    /// keep the request until released
    Hold,
    /// a well-formed error object with that error code (anything but the subscription error) and the HTTP status
    /// the real tower uses for it
    ApiErr(u8),
    /// a subscription error until the client has registered again, a receipt from then on (a real tower
    /// whose subscription has run out)
    SubErrUntilReg,
}

#[derive(Clone, Debug, PartialEq, Eq)]
pub enum RegMode {
    /// receipt extending the previous one
    Accept,
    /// receipt identical to the previous one (does not extend)
    Same,
    /// receipt with more slots but the same expiry
    SameExpiry,
    BadSig,
    /// a receipt (extending) that the tower really signed, but for somebody else: the reply names that other user
    OtherUser,
    /// a properly signed receipt with more slots and an expiry BELOW the one handed out before
    LowerExpiry,
    NonJson,
    ApiError,
}

#[derive(Clone, Debug)]
pub struct ReqLog {
    pub at: Instant,
    pub endpoint: String,
    pub locator: Option<String>,
    pub mode: String,
}

pub struct TState {
    pub add: AddMode,
    /// answers for the next add_appointment requests, used up one per request, before `add` applies again
    pub once: Vec<AddMode>,
    pub reg: RegMode,
    pub down: bool,
    pub log: Vec<ReqLog>,
    pub held: Vec<(TcpStream, Value)>,
    pub slots: u32,
    pub start: u32,
    pub expiry: u32,
    pub accepted: Vec<String>,
    /// a `register` request has been answered with a receipt since `add` was last set
    pub renewed: bool,
}

pub struct FakeTower {
    pub idx: u32,
    pub port: u16,
    pub st: Arc<Mutex<TState>>,
    stop: Arc<AtomicBool>,
    thread: Option<std::thread::JoinHandle<()>>,
}

fn http_reply(stream: &mut TcpStream, code: u32, body: &[u8]) {
    let head = format!("HTTP/1.1 {code} X\r\nContent-Type: application/json\r\nContent-Length: {}\r\nConnection: close\r\n\r\n", body.len());
    let _ = stream.write_all(head.as_bytes());
    let _ = stream.write_all(body);
    let _ = stream.flush();
    let _ = stream.shutdown(std::net::Shutdown::Both);
}

fn read_request(stream: &mut TcpStream) -> Option<(String, Vec<u8>)> {
    stream.set_read_timeout(Some(Duration::from_secs(5))).ok()?;
    let mut buf = Vec::new();
    let mut tmp = [0u8; 4096];
    let header_end;
    loop {
        let n = stream.read(&mut tmp).ok()?;
        if n == 0 {
            return None;
        }
        buf.extend_from_slice(&tmp[..n]);
        if let Some(p) = buf.windows(4).position(|w| w == b"\r\n\r\n") {
            header_end = p + 4;
            break;
        }
    }
    let head = String::from_utf8_lossy(&buf[..header_end]).to_string();
    let path = head.split_whitespace().nth(1).unwrap_or("").to_string();
    let clen: usize = head.lines().find_map(|l| {
        let l = l.to_ascii_lowercase();
        l.strip_prefix("content-length:").map(|v| v.trim().parse().unwrap_or(0))
    }).unwrap_or(0);
    while buf.len() < header_end + clen {
        let n = stream.read(&mut tmp).ok()?;
        if n == 0 {
            break;
        }
        buf.extend_from_slice(&tmp[..n]);
    }
    Some((path, buf[header_end..].to_vec()))
}

pub fn add_reply(idx: u32, st: &mut TState, mode: &AddMode, req: &Value) -> (u32, Vec<u8>) {
    let (sk, _) = tower_key(idx);
    let locator = req["appointment"]["locator"].as_str().unwrap_or("").to_string();
    let user_sig = req["signature"].as_str().unwrap_or("").to_string();
    let signed = |key_idx: u32, st: &mut TState| {
        if !st.accepted.contains(&locator) {
            st.accepted.push(locator.clone());
            st.slots = st.slots.saturating_sub(1);
        }
        let mut r = AppointmentReceipt::new(user_sig.clone(), st.start + 1);
        r.sign(&tower_key(key_idx).0);
        let resp = msgs::AddAppointmentResponse {
            locator: hex::decode(&locator).unwrap_or_default(),
            start_block: st.start + 1,
            signature: r.signature().unwrap(),
            available_slots: st.slots,
            subscription_expiry: st.expiry,
        };
        serde_json::to_vec(&resp).unwrap()
    };
    let _ = sk;
    match mode {
        AddMode::Accept | AddMode::Hold => (200, signed(idx, st)),
        AddMode::SubErrUntilReg if st.renewed => (200, signed(idx, st)),
        AddMode::SubErrUntilReg => (401, serde_json::to_vec(&json!({"error": "subscription expired", "error_code": teos_common::errors::INVALID_SIGNATURE_OR_SUBSCRIPTION_ERROR})).unwrap()),
        AddMode::BadSig => (200, signed(6, st)),
        AddMode::MalformedSig => {
            let mut v: Value = serde_json::from_slice(&signed(idx, st)).unwrap();
            v["signature"] = json!("this is not a signature");
            (200, serde_json::to_vec(&v).unwrap())
        }
        AddMode::SubErr => (401, serde_json::to_vec(&json!({"error": "subscription error", "error_code": teos_common::errors::INVALID_SIGNATURE_OR_SUBSCRIPTION_ERROR})).unwrap()),
        AddMode::ApiErr(code) => {
            let status = match *code {
                c if c == teos_common::errors::SERVICE_UNAVAILABLE => 503,
                c if c == teos_common::errors::APPOINTMENT_NOT_FOUND => 404,
                c if c == teos_common::errors::INVALID_SIGNATURE_OR_SUBSCRIPTION_ERROR => 401,
                _ => 400,
            };
            (status, serde_json::to_vec(&json!({"error": "some documented error", "error_code": code})).unwrap())
        }
        AddMode::Reject => (400, serde_json::to_vec(&json!({"error": "appointment already triggered", "error_code": teos_common::errors::APPOINTMENT_ALREADY_TRIGGERED})).unwrap()),
        AddMode::NonJson => (502, b"<html><body>502 Bad Gateway</body></html>".to_vec()),
        AddMode::WrongShape => (200, b"{\"unexpected\": [1, 2, 3]}".to_vec()),
        AddMode::Empty => (200, Vec::new()),
    }
}

fn reg_reply(idx: u32, st: &mut TState, req: &Value) -> (u32, Vec<u8>) {
    let user_id = req["user_id"].as_str().unwrap_or("").to_string();
    let uid: Option<UserId> = user_id.parse().ok();
    let mk = |key_idx: u32, st: &TState| {
        let Some(uid) = uid else { return b"{\"error\":\"bad user id\",\"error_code\":5}".to_vec() };
        let mut r = RegistrationReceipt::new(uid, st.slots, st.start, st.expiry);
        r.sign(&tower_key(key_idx).0);
        let resp = msgs::RegisterResponse {
            user_id: uid.to_vec(),
            available_slots: st.slots,
            subscription_start: st.start,
            subscription_expiry: st.expiry,
            subscription_signature: r.signature().unwrap(),
        };
        serde_json::to_vec(&resp).unwrap()
    };
    if !matches!(st.reg, RegMode::NonJson | RegMode::ApiError) {
        st.renewed = true;
    }
    match st.reg.clone() {
        RegMode::Accept => {
            st.slots += 100;
            st.expiry += 10;
            (200, mk(idx, st))
        }
        RegMode::Same => (200, mk(idx, st)),
        RegMode::SameExpiry => {
            st.slots += 100;
            (200, mk(idx, st))
        }
        RegMode::BadSig => {
            st.slots += 100;
            st.expiry += 10;
            (200, mk(6, st))
        }
        RegMode::OtherUser => {
            st.slots += 100;
            st.expiry += 10;
            let other = UserId(tower_key(7).1);
            let mut r = RegistrationReceipt::new(other, st.slots, st.start, st.expiry);
            r.sign(&tower_key(idx).0);
            let resp = msgs::RegisterResponse {
                user_id: other.to_vec(),
                available_slots: st.slots,
                subscription_start: st.start,
                subscription_expiry: st.expiry,
                subscription_signature: r.signature().unwrap(),
            };
            (200, serde_json::to_vec(&resp).unwrap())
        }
        RegMode::LowerExpiry => {
            st.slots += 100;
            let Some(uid) = uid else { return (200, b"{\"error\":\"bad user id\",\"error_code\":5}".to_vec()) };
            let expiry = st.expiry.saturating_sub(5).max(st.start + 1);
            let mut r = RegistrationReceipt::new(uid, st.slots, st.start, expiry);
            r.sign(&tower_key(idx).0);
            let resp = msgs::RegisterResponse {
                user_id: uid.to_vec(),
                available_slots: st.slots,
                subscription_start: st.start,
                subscription_expiry: expiry,
                subscription_signature: r.signature().unwrap(),
            };
            (200, serde_json::to_vec(&resp).unwrap())
        }
        RegMode::NonJson => (200, b"registration is closed".to_vec()),
        RegMode::ApiError => (400, serde_json::to_vec(&json!({"error": "resource exhausted", "error_code": teos_common::errors::REGISTRATION_RESOURCE_EXHAUSTED})).unwrap()),
    }
}

impl FakeTower {
    pub fn start(idx: u32, port_base: u16) -> FakeTower {
        let mut port = port_base;
        let listener = loop {
            match TcpListener::bind(("127.0.0.1", port)) {
                Ok(l) => break l,
                Err(_) => port += 1,
            }
        };
        listener.set_nonblocking(true).unwrap();
        let st = Arc::new(Mutex::new(TState { add: AddMode::Accept, once: vec![], reg: RegMode::Accept, down: false, log: vec![], held: vec![], slots: 0, start: 100, expiry: 200, accepted: vec![], renewed: false }));
        let stop = Arc::new(AtomicBool::new(false));
        let (st2, stop2) = (st.clone(), stop.clone());
        let thread = std::thread::spawn(move || {
            let mut listener = Some(listener);
            while !stop2.load(Ordering::SeqCst) {
                let down = st2.lock().unwrap().down;
                if down {
                    listener = None;
                    std::thread::sleep(Duration::from_millis(5));
                    continue;
                }
                if listener.is_none() {
                    match TcpListener::bind(("127.0.0.1", port)) {
                        Ok(l) => {
                            l.set_nonblocking(true).unwrap();
                            listener = Some(l);
                        }
                        Err(_) => {
                            std::thread::sleep(Duration::from_millis(5));
                            continue;
                        }
                    }
                }
                match listener.as_ref().unwrap().accept() {
                    Ok((mut stream, _)) => {
                        stream.set_nonblocking(false).unwrap();
                        let Some((path, body)) = read_request(&mut stream) else { continue };
                        let req: Value = serde_json::from_slice(&body).unwrap_or(Value::Null);
                        let mut s = st2.lock().unwrap();
                        let endpoint = path.trim_start_matches('/').to_string();
                        let locator = req["appointment"]["locator"].as_str().map(|x| x.to_string());
                        let mode = if endpoint == "register" { format!("{:?}", s.reg) } else { format!("{:?}", s.add) };
                        s.log.push(ReqLog { at: Instant::now(), endpoint: endpoint.clone(), locator, mode });
                        match endpoint.as_str() {
                            "register" => {
                                let (code, body) = reg_reply(idx, &mut s, &req);
                                drop(s);
                                http_reply(&mut stream, code, &body);
                            }
                            "add_appointment" => {
                                if s.add == AddMode::Hold && s.once.is_empty() {
                                    s.held.push((stream, req));
                                } else {
                                    let mode = if s.once.is_empty() { s.add.clone() } else { s.once.remove(0) };
                                    let (code, body) = add_reply(idx, &mut s, &mode, &req);
                                    drop(s);
                                    http_reply(&mut stream, code, &body);
                                }
                            }
                            _ => {
                                drop(s);
                                http_reply(&mut stream, 200, b"{}");
                            }
                        }
                    }
                    Err(_) => std::thread::sleep(Duration::from_millis(3)),
                }
            }
        });
        FakeTower { idx, port, st, stop, thread: Some(thread) }
    }

    pub fn id_hex(&self) -> String {
        crate::client::tower_id(self.idx).to_string()
    }

    /// answer the held requests as `mode` would
    pub fn release(&self, mode: AddMode) -> usize {
        let mut s = self.st.lock().unwrap();
        let held = std::mem::take(&mut s.held);
        let n = held.len();
        for (mut stream, req) in held {
            let (code, body) = add_reply(self.idx, &mut s, &mode, &req);
            http_reply(&mut stream, code, &body);
        }
        n
    }
    /// drop the held connections without an answer
    pub fn drop_held(&self) -> usize {
        let mut s = self.st.lock().unwrap();
        let held = std::mem::take(&mut s.held);
        held.len()
    }
    pub fn requests(&self, endpoint: &str) -> usize {
        self.st.lock().unwrap().log.iter().filter(|r| r.endpoint == endpoint).count()
    }
}

impl Drop for FakeTower {
    fn drop(&mut self) {
        self.stop.store(true, Ordering::SeqCst);
        if let Some(t) = self.thread.take() {
            let _ = t.join();
        }
    }
}

// ------------------------------------------------------------------------------------------ plugin process

pub fn plugin_binary() -> PathBuf {
    PathBuf::from(std::env::var("TEOS_PLUGIN_BIN").unwrap_or_else(|_| "/verif/harness/target-plugin/debug/watchtower-client".into()))
}

#[derive(Debug)]
pub enum CallErr {
    Timeout,
    Died,
    Rpc(String),
}

pub struct PluginProc {
    child: Child,
    stdin: Option<ChildStdin>,
    rx: Receiver<Value>,
    next_id: u64,
    pub dir: PathBuf,
    pub logs: Arc<Mutex<Vec<String>>>,
    pub opts: (u32, u32, u32),
}

impl PluginProc {
    /// opts = (max retry time, auto retry delay, max retry interval), seconds
    pub fn start(dir: &PathBuf, opts: (u32, u32, u32)) -> PluginProc {
        std::fs::create_dir_all(dir).unwrap();
        let mut child = Command::new(plugin_binary())
            .env("TOWERS_DATA_DIR", dir)
            .env("RUST_BACKTRACE", "0")
            .stdin(Stdio::piped())
            .stdout(Stdio::piped())
            .stderr(Stdio::null())
            .spawn()
            .expect("cannot start the plugin binary");
        let stdout = child.stdout.take().unwrap();
        let (tx, rx) = channel();
        let logs = Arc::new(Mutex::new(Vec::new()));
        let logs2 = logs.clone();
        std::thread::spawn(move || {
            let mut rd = BufReader::new(stdout);
            let mut acc = String::new();
            loop {
                let mut line = String::new();
                match rd.read_line(&mut line) {
                    Ok(0) | Err(_) => break,
                    Ok(_) => {}
                }
                if line.trim().is_empty() {
                    if !acc.trim().is_empty() {
                        if let Ok(v) = serde_json::from_str::<Value>(&acc) {
                            if v.get("id").is_some() && v.get("method").is_none() {
                                let _ = tx.send(v);
                            } else if v["method"] == "log" {
                                logs2.lock().unwrap().push(v["params"]["message"].as_str().unwrap_or("").to_string());
                            }
                        }
                    }
                    acc.clear();
                } else {
                    acc.push_str(&line);
                }
            }
        });
        let stdin = child.stdin.take();
        let mut p = PluginProc { child, stdin, rx, next_id: 1, dir: dir.clone(), logs, opts };
        p.call("getmanifest", json!({"allow-deprecated-apis": false}), 20).expect("getmanifest");
        p.call(
            "init",
            json!({"options": {"watchtower-port": 9814, "watchtower-max-retry-time": opts.0, "watchtower-auto-retry-delay": opts.1, "dev-watchtower-max-retry-interval": opts.2},
                   "configuration": {"lightning-dir": "/x", "rpc-file": "lightning-rpc", "startup": true, "network": "regtest",
                                     "feature_set": {"init": "", "node": "", "channel": "", "invoice": ""}}}),
            20,
        )
        .expect("init");
        p
    }

    pub fn send(&mut self, method: &str, params: Value) -> u64 {
        let id = self.next_id;
        self.next_id += 1;
        let msg = json!({"jsonrpc": "2.0", "id": id, "method": method, "params": params});
        if let Some(s) = self.stdin.as_mut() {
            let _ = s.write_all(format!("{msg}\n\n").as_bytes());
            let _ = s.flush();
        }
        id
    }

    pub fn wait(&mut self, id: u64, timeout_s: u64) -> Result<Value, CallErr> {
        let deadline = Instant::now() + Duration::from_secs(timeout_s);
        loop {
            let left = deadline.saturating_duration_since(Instant::now());
            match self.rx.recv_timeout(left) {
                Ok(v) => {
                    if v["id"].as_u64() == Some(id) {
                        if let Some(e) = v.get("error") {
                            return Err(CallErr::Rpc(e["message"].as_str().unwrap_or("").to_string()));
                        }
                        return Ok(v["result"].clone());
                    }
                }
                Err(RecvTimeoutError::Timeout) => return Err(CallErr::Timeout),
                Err(RecvTimeoutError::Disconnected) => return Err(CallErr::Died),
            }
        }
    }

    pub fn call(&mut self, method: &str, params: Value, timeout_s: u64) -> Result<Value, CallErr> {
        let id = self.send(method, params);
        self.wait(id, timeout_s)
    }

    pub fn alive(&mut self) -> bool {
        matches!(self.child.try_wait(), Ok(None))
    }

    /// SIGKILL
    pub fn kill(&mut self) {
        let _ = self.child.kill();
        let _ = self.child.wait();
        self.stdin = None;
    }

    pub fn list_towers(&mut self) -> Result<BTreeMap<u32, Value>, CallErr> {
        let v = self.call("listtowers", json!([]), 10)?;
        let mut out = BTreeMap::new();
        if let Some(m) = v.as_object() {
            for (k, s) in m {
                let idx = (0..8).find(|i| crate::client::tower_id(*i).to_string() == *k).unwrap_or(99);
                out.insert(idx, s.clone());
            }
        }
        Ok(out)
    }
}

impl Drop for PluginProc {
    fn drop(&mut self) {
        self.kill();
    }
}
