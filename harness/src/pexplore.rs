//! exploratory runs of the plugin binary (not a registered check): prints what the real client does
use std::time::Duration;

use crate::plugin::{AddMode, RegMode};
use crate::pworld::PWorld;

fn show(w: &mut PWorld, what: &str) {
    let v = w.settle(Duration::from_millis(300), Duration::from_millis(1500), Duration::from_secs(25));
    let reqs: Vec<String> = w.towers.iter().map(|t| format!("t{}: reg={} add={}", t.idx, t.requests("register"), t.requests("add_appointment"))).collect();
    println!("[{:6.2}s] {what:40} -> {}   ({})", w.started.elapsed().as_secs_f32(), v.map(|x| x.line()).unwrap_or("NOT SETTLED".into()), reqs.join(" "));
}

pub fn run(which: &str) {
    let mut w = PWorld::new("explore", 2, 21000, (2, 1000, 1));
    println!("register t0: {:?}", w.register(0).map(|v| v["available_slots"].clone()));
    println!("register t1: {:?}", w.register(1).map(|v| v["available_slots"].clone()));
    show(&mut w, "registered");
    match which {
        "basic" => {
            println!("notify 0: {:?}", w.notify(0, 10));
            show(&mut w, "notify 0 (accept)");
            w.set_down(0, true);
            println!("notify 1: {:?}", w.notify(1, 10));
            show(&mut w, "notify 1 (t0 down)");
            println!("notify 2: {:?}", w.notify(2, 10));
            show(&mut w, "notify 2 (t0 down, unreachable)");
            w.set_down(0, false);
            println!("retry t0: {:?}", w.retry(0));
            show(&mut w, "t0 up + manual retry");
            println!("notify 1 again: {:?}", w.notify(1, 10));
            show(&mut w, "duplicate notify 1");
            w.restart();
            show(&mut w, "restart");
        }
        "garbage" => {
            w.set_add(0, AddMode::NonJson);
            println!("notify 0: {:?}", w.notify(0, 10));
            show(&mut w, "notify 0 (t0 non-json)");
            w.set_add(0, AddMode::Accept);
            w.set_down(1, true);
            println!("notify 1: {:?}", w.notify(1, 10));
            show(&mut w, "notify 1 (t1 down)");
            w.set_down(1, false);
            w.set_add(1, AddMode::WrongShape);
            println!("retry t1: {:?}", w.retry(1));
            show(&mut w, "t1 up but answers wrong-shape; manual retry");
            let n0 = w.towers[1].requests("add_appointment");
            std::thread::sleep(Duration::from_secs(2));
            println!("requests to t1 in 2 s: {}", w.towers[1].requests("add_appointment") - n0);
        }
        "badsig" => {
            w.set_add(0, AddMode::MalformedSig);
            println!("notify 0: {:?}", w.notify(0, 6));
            show(&mut w, "notify 0 (t0 malformed sig)");
            println!("alive: {}", w.plugin.alive());
            w.set_add(1, AddMode::BadSig);
            println!("notify 1: {:?}", w.notify(1, 6));
            show(&mut w, "notify 1 (t1 bad sig)");
            println!("notify 2: {:?}", w.notify(2, 6));
            show(&mut w, "notify 2");
        }
        "suberr" => {
            w.set_add(0, AddMode::SubErr);
            println!("notify 0: {:?}", w.notify(0, 10));
            show(&mut w, "notify 0 (t0 sub err, reg accept)");
            w.set_add(0, AddMode::Accept);
            println!("retry t0: {:?}", w.retry(0));
            show(&mut w, "t0 accepts; manual retry");
            w.set_add(1, AddMode::SubErr);
            w.set_reg(1, RegMode::Same);
            println!("notify 1: {:?}", w.notify(1, 10));
            show(&mut w, "notify 1 (t1 sub err, reg same)");
            println!("retry t1: {:?}", w.retry(1));
            show(&mut w, "manual retry t1");
        }
        _ => {}
    }
    let logs = w.plugin.logs.lock().unwrap().clone();
    for l in logs.iter().rev().take(12).rev() {
        println!("   log: {l}");
    }
}
