//! Deterministic PRNG (SplitMix64). Every random choice of every check derives from one seed.

#[derive(Clone, Debug)]
pub struct Rng(pub u64);

impl Rng {
    pub fn new(seed: u64) -> Self {
        Rng(seed ^ 0x9E37_79B9_7F4A_7C15)
    }
    pub fn next(&mut self) -> u64 {
        self.0 = self.0.wrapping_add(0x9E37_79B9_7F4A_7C15);
        let mut z = self.0;
        z = (z ^ (z >> 30)).wrapping_mul(0xBF58_476D_1CE4_E5B9);
        z = (z ^ (z >> 27)).wrapping_mul(0x94D0_49BB_1331_11EB);
        z ^ (z >> 31)
    }
    /// uniform in 0..n (n > 0)
    pub fn below(&mut self, n: u64) -> u64 {
        self.next() % n
    }
    pub fn range(&mut self, lo: u64, hi_incl: u64) -> u64 {
        lo + self.below(hi_incl - lo + 1)
    }
    pub fn chance(&mut self, num: u64, den: u64) -> bool {
        self.below(den) < num
    }
    pub fn pick<'a, T>(&mut self, xs: &'a [T]) -> &'a T {
        &xs[self.below(xs.len() as u64) as usize]
    }
    /// weighted choice: returns the index
    pub fn weighted(&mut self, ws: &[u64]) -> usize {
        let total: u64 = ws.iter().sum();
        let mut x = self.below(total);
        for (i, w) in ws.iter().enumerate() {
            if x < *w {
                return i;
            }
            x -= *w;
        }
        ws.len() - 1
    }
    pub fn bytes(&mut self, n: usize) -> Vec<u8> {
        (0..n).map(|_| self.next() as u8).collect()
    }
    pub fn fork(&mut self) -> Rng {
        Rng::new(self.next())
    }
}
