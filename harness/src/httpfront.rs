//! The tower's real public interface: the tonic server with `PublicTowerServices` and the warp
//! router of `teos::api::http`, both on loopback ports, plus a raw HTTP/1.1 client.

use std::io::{Read, Write};
use std::net::{SocketAddr, TcpListener, TcpStream};
use std::sync::Arc;
use std::time::Duration;

use teos::api::internal::InternalAPI;
use teos::protos::public_tower_services_server::PublicTowerServicesServer;

pub struct HttpFront {
    pub http_port: u16,
    pub grpc_port: u16,
    shutdown: triggered::Trigger,
    _rt: tokio::runtime::Runtime,
}

/// ports from a range of this process' own (other harness processes and plugin scenarios run at the same time)
fn free_port() -> u16 {
    use std::sync::atomic::{AtomicU16, Ordering};
    static NEXT: AtomicU16 = AtomicU16::new(0);
    loop {
        let k = NEXT.fetch_add(1, Ordering::SeqCst);
        let port = 30000 + ((std::process::id() % 150) as u16) * 200 + (k % 200);
        if TcpListener::bind(("127.0.0.1", port)).is_ok() {
            return port;
        }
    }
}

#[derive(Clone, Debug)]
pub struct RawReply {
    pub status: u16,
    pub body: Vec<u8>,
}

impl HttpFront {
    pub fn start(api: Arc<InternalAPI>) -> HttpFront {
        // a port can be taken between the probe and the servers' own bind: try again with other ports
        for _ in 0..8 {
            if let Some(f) = Self::try_start(api.clone()) {
                return f;
            }
        }
        panic!("cannot start the HTTP front");
    }

    fn try_start(api: Arc<InternalAPI>) -> Option<HttpFront> {
        let rt = tokio::runtime::Builder::new_multi_thread().worker_threads(2).enable_all().build().unwrap();
        let (grpc_port, http_port) = (free_port(), free_port());
        let grpc_addr: SocketAddr = format!("127.0.0.1:{grpc_port}").parse().unwrap();
        let http_addr: SocketAddr = format!("127.0.0.1:{http_port}").parse().unwrap();
        let (shutdown, signal) = triggered::trigger();
        let s1 = signal.clone();
        rt.spawn(async move {
            let _ = tonic::transport::Server::builder()
                .add_service(PublicTowerServicesServer::new(api))
                .serve_with_shutdown(grpc_addr, s1)
                .await;
        });
        let (ready, ready_signal) = triggered::trigger();
        rt.spawn(teos::api::http::serve(http_addr, grpc_addr, ready, signal));
        let ok = rt.block_on(async { tokio::time::timeout(Duration::from_secs(6), ready_signal).await.is_ok() });
        if !ok {
            shutdown.trigger();
            rt.shutdown_background();
            return None;
        }
        Some(HttpFront { http_port, grpc_port, shutdown, _rt: rt })
    }

    /// one request on a fresh connection; None = no (complete) answer within the time-out
    pub fn raw(&self, request: &[u8], timeout: Duration) -> Option<RawReply> {
        let mut s = TcpStream::connect(("127.0.0.1", self.http_port)).ok()?;
        s.set_read_timeout(Some(timeout)).ok()?;
        s.set_write_timeout(Some(timeout)).ok()?;
        // the server may answer (and close) before a large body is fully written
        let _ = s.write_all(request);
        let _ = s.flush();
        let mut buf = Vec::new();
        let mut tmp = [0u8; 8192];
        loop {
            match s.read(&mut tmp) {
                Ok(0) => break,
                Ok(n) => {
                    buf.extend_from_slice(&tmp[..n]);
                    if let Some(r) = parse_reply(&buf) {
                        return Some(r);
                    }
                }
                Err(_) => break,
            }
        }
        parse_reply(&buf)
    }

    pub fn post(&self, path: &str, body: &[u8]) -> Option<RawReply> {
        let head = format!("POST {path} HTTP/1.1\r\nHost: 127.0.0.1\r\nContent-Type: application/json\r\nContent-Length: {}\r\nConnection: close\r\n\r\n", body.len());
        let mut req = head.into_bytes();
        req.extend_from_slice(body);
        self.raw(&req, Duration::from_secs(10))
    }
}

fn parse_reply(buf: &[u8]) -> Option<RawReply> {
    let p = buf.windows(4).position(|w| w == b"\r\n\r\n")?;
    let head = String::from_utf8_lossy(&buf[..p]).to_string();
    let status: u16 = head.split_whitespace().nth(1)?.parse().ok()?;
    let lower = head.to_ascii_lowercase();
    let clen = lower.lines().find_map(|l| l.strip_prefix("content-length:").map(|v| v.trim().parse::<usize>().unwrap_or(0)));
    let body = &buf[p + 4..];
    match clen {
        Some(n) if body.len() >= n => Some(RawReply { status, body: body[..n].to_vec() }),
        Some(_) => None,
        None => {
            if lower.contains("transfer-encoding: chunked") {
                // de-chunk when complete
                let mut out = Vec::new();
                let mut rest = body;
                loop {
                    let q = rest.windows(2).position(|w| w == b"\r\n")?;
                    let n = usize::from_str_radix(std::str::from_utf8(&rest[..q]).ok()?.trim(), 16).ok()?;
                    rest = &rest[q + 2..];
                    if n == 0 {
                        return Some(RawReply { status, body: out });
                    }
                    if rest.len() < n + 2 {
                        return None;
                    }
                    out.extend_from_slice(&rest[..n]);
                    rest = &rest[n + 2..];
                }
            } else {
                Some(RawReply { status, body: body.to_vec() })
            }
        }
    }
}

impl Drop for HttpFront {
    fn drop(&mut self) {
        self.shutdown.trigger();
    }
}
