//! C18: the plugin's `WTClient` + `DBM` driven in-process with operation sequences over a few
//! towers that share locators. After every operation the memory summaries, the raw sqlite rows
//! and what a second `DBM` opened on the same file would load are dumped / checked.

use std::collections::{BTreeMap, BTreeSet};
use std::panic::{catch_unwind, AssertUnwindSafe};
use std::path::PathBuf;

use bitcoin::secp256k1::{PublicKey, Secp256k1, SecretKey};
use rusqlite::Connection;
use tokio::sync::mpsc::unbounded_channel;

use teos_common::appointment::{Appointment, Locator};
use teos_common::receipts::{AppointmentReceipt, RegistrationReceipt};
use teos_common::{TowerId, UserId};
use watchtower_plugin::dbm::DBM;
use watchtower_plugin::wt_client::WTClient;
use watchtower_plugin::{MisbehaviorProof, TowerStatus};

use crate::report::Report;
use crate::rng::Rng;

pub fn tower_key(i: u32) -> (SecretKey, PublicKey) {
    let sk = SecretKey::from_slice(&[0x11 + i as u8; 32]).unwrap();
    (sk, PublicKey::from_secret_key(&Secp256k1::new(), &sk))
}
pub fn tower_id(i: u32) -> TowerId {
    UserId(tower_key(i).1)
}
pub fn locator(l: u32) -> Locator {
    Locator::from_slice(&[0x40 + l as u8; 16]).unwrap()
}
fn loc_index(l: &Locator) -> u32 {
    (l.to_vec()[0] - 0x40) as u32
}
fn tower_index(raw: &[u8]) -> u32 {
    (0..8).find(|i| tower_id(*i).to_vec() == raw).expect("unknown tower id in the database")
}
fn addr(a: u32) -> String {
    format!("http://tower{a}:9814")
}
fn addr_index(s: &str) -> u32 {
    if LENIENT.with(|l| l.get()) {
        return 0;
    }
    s.trim_start_matches("http://tower").trim_end_matches(":9814").parse().unwrap()
}
thread_local! {
    /// binary-level scenarios store real addresses and signatures: only the keys of the rows are compared there
    static LENIENT: std::cell::Cell<bool> = std::cell::Cell::new(false);
}
fn sig(n: u32) -> String {
    format!("s{n}")
}
fn sig_index(s: &str) -> u32 {
    if LENIENT.with(|l| l.get()) {
        return 0;
    }
    s[1..].parse().unwrap()
}
fn body(l: u32, blob: u32, tsd: u32) -> Appointment {
    Appointment::new(locator(l), vec![blob as u8; 4], tsd)
}

#[derive(Clone, Debug)]
pub enum COp {
    Reg { t: u32, addr: u32, slots: u32, start: u32, expiry: u32, sig: u32 },
    Rcpt { t: u32, l: u32, slots: u32, start: u32, usig: u32, tsig: u32 },
    Pend { t: u32, l: u32, blob: u32, tsd: u32 },
    Unpend { t: u32, l: u32 },
    Inval { t: u32, l: u32, blob: u32, tsd: u32 },
    Misb { t: u32, l: u32, start: u32, usig: u32, tsig: u32, rec: u32 },
    Abandon { t: u32 },
    Status { t: u32, s: &'static str },
    Reload,
}

impl COp {
    pub fn line(&self) -> String {
        match self {
            COp::Reg { t, addr, slots, start, expiry, sig } => format!("cl reg {t} {addr} {slots} {start} {expiry} {sig}"),
            COp::Rcpt { t, l, slots, start, usig, tsig } => format!("cl rcpt {t} {l} {slots} {start} {usig} {tsig}"),
            COp::Pend { t, l, blob, tsd } => format!("cl pend {t} {l} {blob} {tsd}"),
            COp::Unpend { t, l } => format!("cl unpend {t} {l}"),
            COp::Inval { t, l, blob, tsd } => format!("cl inval {t} {l} {blob} {tsd}"),
            COp::Misb { t, l, start, usig, tsig, rec } => format!("cl misb {t} {l} {start} {usig} {tsig} {rec}"),
            COp::Abandon { t } => format!("cl abandon {t}"),
            COp::Status { t, s } => format!("cl status {t} {s}"),
            COp::Reload => "cl reload".into(),
        }
    }
    fn tower(&self) -> Option<u32> {
        match self {
            COp::Reg { t, .. } | COp::Rcpt { t, .. } | COp::Pend { t, .. } | COp::Unpend { t, .. } | COp::Inval { t, .. }
            | COp::Misb { t, .. } | COp::Abandon { t } | COp::Status { t, .. } => Some(*t),
            COp::Reload => None,
        }
    }
    fn kind(&self) -> &'static str {
        match self {
            COp::Reg { .. } => "reg",
            COp::Rcpt { .. } => "rcpt",
            COp::Pend { .. } => "pend",
            COp::Unpend { .. } => "unpend",
            COp::Inval { .. } => "inval",
            COp::Misb { .. } => "misb",
            COp::Abandon { .. } => "abandon",
            COp::Status { .. } => "status",
            COp::Reload => "reload",
        }
    }
}

fn status_token(s: TowerStatus) -> &'static str {
    match s {
        TowerStatus::Reachable => "r",
        TowerStatus::TemporaryUnreachable => "tu",
        TowerStatus::Unreachable => "u",
        TowerStatus::SubscriptionError => "se",
        TowerStatus::Misbehaving => "m",
    }
}
fn status_of(tok: &str) -> TowerStatus {
    match tok {
        "r" => TowerStatus::Reachable,
        "tu" => TowerStatus::TemporaryUnreachable,
        "u" => TowerStatus::Unreachable,
        "se" => TowerStatus::SubscriptionError,
        _ => TowerStatus::Misbehaving,
    }
}

/// raw rows of the client's sqlite file, per table, canonical
#[derive(Clone, Default, PartialEq, Eq, Debug)]
pub struct Rows {
    pub towers: BTreeMap<u32, (u32, u32)>,
    pub regs: BTreeSet<(u32, u32, u32, u32, u32)>, // tower, expiry, slots, start, sig
    pub rcpts: BTreeMap<(u32, u32), (u32, u32, u32)>,
    pub pend: BTreeSet<(u32, u32)>,
    pub inval: BTreeSet<(u32, u32)>,
    pub bodies: BTreeMap<u32, (u32, u32)>,
    pub proofs: BTreeMap<u32, (u32, u32)>,
}

impl Rows {
    pub fn read_lenient(path: &PathBuf) -> Rows {
        LENIENT.with(|l| l.set(true));
        let r = Rows::read(path);
        LENIENT.with(|l| l.set(false));
        r
    }
    pub fn read(path: &PathBuf) -> Rows {
        let c = Connection::open(path).unwrap();
        let mut r = Rows::default();
        let mut q = c.prepare("SELECT tower_id, net_addr, available_slots FROM towers").unwrap();
        let mut rows = q.query([]).unwrap();
        while let Some(row) = rows.next().unwrap() {
            let t = tower_index(&row.get::<_, Vec<u8>>(0).unwrap());
            r.towers.insert(t, (addr_index(&row.get::<_, String>(1).unwrap()), row.get(2).unwrap()));
        }
        let mut q = c.prepare("SELECT tower_id, available_slots, subscription_start, subscription_expiry, signature FROM registration_receipts").unwrap();
        let mut rows = q.query([]).unwrap();
        while let Some(row) = rows.next().unwrap() {
            let t = tower_index(&row.get::<_, Vec<u8>>(0).unwrap());
            r.regs.insert((t, row.get(3).unwrap(), row.get(1).unwrap(), row.get(2).unwrap(), sig_index(&row.get::<_, String>(4).unwrap())));
        }
        let mut q = c.prepare("SELECT tower_id, locator, start_block, user_signature, tower_signature FROM appointment_receipts").unwrap();
        let mut rows = q.query([]).unwrap();
        while let Some(row) = rows.next().unwrap() {
            let t = tower_index(&row.get::<_, Vec<u8>>(0).unwrap());
            let l = loc_index(&Locator::from_slice(&row.get::<_, Vec<u8>>(1).unwrap()).unwrap());
            r.rcpts.insert((t, l), (row.get(2).unwrap(), sig_index(&row.get::<_, String>(3).unwrap()), sig_index(&row.get::<_, String>(4).unwrap())));
        }
        for (table, set) in [("pending_appointments", &mut r.pend), ("invalid_appointments", &mut r.inval)] {
            let mut q = c.prepare(&format!("SELECT tower_id, locator FROM {table}")).unwrap();
            let mut rows = q.query([]).unwrap();
            while let Some(row) = rows.next().unwrap() {
                let t = tower_index(&row.get::<_, Vec<u8>>(0).unwrap());
                let l = loc_index(&Locator::from_slice(&row.get::<_, Vec<u8>>(1).unwrap()).unwrap());
                set.insert((t, l));
            }
        }
        let mut q = c.prepare("SELECT locator, encrypted_blob, to_self_delay FROM appointments").unwrap();
        let mut rows = q.query([]).unwrap();
        while let Some(row) = rows.next().unwrap() {
            let l = loc_index(&Locator::from_slice(&row.get::<_, Vec<u8>>(0).unwrap()).unwrap());
            r.bodies.insert(l, (row.get::<_, Vec<u8>>(1).unwrap()[0] as u32, row.get(2).unwrap()));
        }
        let mut q = c.prepare("SELECT tower_id, locator, recovered_id FROM misbehaving_proofs").unwrap();
        let mut rows = q.query([]).unwrap();
        while let Some(row) = rows.next().unwrap() {
            let t = tower_index(&row.get::<_, Vec<u8>>(0).unwrap());
            let l = loc_index(&Locator::from_slice(&row.get::<_, Vec<u8>>(1).unwrap()).unwrap());
            r.proofs.insert(t, (l, tower_index(&row.get::<_, Vec<u8>>(2).unwrap())));
        }
        r
    }

    /// everything that names tower `t`
    pub fn of_tower(&self, t: u32) -> Rows {
        Rows {
            towers: self.towers.iter().filter(|(k, _)| **k == t).map(|(k, v)| (*k, *v)).collect(),
            regs: self.regs.iter().filter(|r| r.0 == t).cloned().collect(),
            rcpts: self.rcpts.iter().filter(|(k, _)| k.0 == t).map(|(k, v)| (*k, *v)).collect(),
            pend: self.pend.iter().filter(|r| r.0 == t).cloned().collect(),
            inval: self.inval.iter().filter(|r| r.0 == t).cloned().collect(),
            bodies: BTreeMap::new(),
            proofs: self.proofs.iter().filter(|(k, _)| **k == t).map(|(k, v)| (*k, *v)).collect(),
        }
    }

    pub fn dump(&self) -> String {
        let j = |v: Vec<String>| v.join(",");
        format!(
            "towers=[{}] regs=[{}] rcpts=[{}] pend=[{}] inval=[{}] bodies=[{}] proofs=[{}]",
            j(self.towers.iter().map(|(t, (a, s))| format!("{t}:{a}:{s}")).collect()),
            j(self.regs.iter().map(|(t, e, s, st, sg)| format!("{t}:{s}:{st}:{e}:{sg}")).collect()),
            j(self.rcpts.iter().map(|((t, l), (s, u, ts))| format!("{t}/{l}:{s}:{u}:{ts}")).collect()),
            j(self.pend.iter().map(|(t, l)| format!("{t}/{l}")).collect()),
            j(self.inval.iter().map(|(t, l)| format!("{t}/{l}")).collect()),
            j(self.bodies.iter().map(|(l, (b, d))| format!("{l}:{b}:{d}")).collect()),
            j(self.proofs.iter().map(|(t, (l, r))| format!("{t}:{l}:{r}")).collect()),
        )
    }
}

pub struct CSys {
    pub dir: PathBuf,
    pub client: Option<WTClient>,
    pub rt: tokio::runtime::Runtime,
    pub dead: bool,
}

fn summary_line(t: u32, s: &watchtower_plugin::TowerSummary) -> String {
    let v = serde_json::to_value(s).unwrap();
    let locs = |k: &str| {
        let mut ls: Vec<u32> = v[k].as_array().unwrap().iter().map(|x| loc_index(&Locator::from_slice(&hex::decode(x.as_str().unwrap()).unwrap()).unwrap())).collect();
        ls.sort();
        ls.iter().map(|l| l.to_string()).collect::<Vec<_>>().join(",")
    };
    format!(
        "{t}:{}:{}:{}:{}:{}:p={}:i={}",
        addr_index(v["net_addr"].as_str().unwrap()),
        v["available_slots"],
        v["subscription_start"],
        v["subscription_expiry"],
        status_token(s.status),
        locs("pending_appointments"),
        locs("invalid_appointments")
    )
}

impl CSys {
    pub fn new(tag: &str) -> CSys {
        let dir = std::env::temp_dir().join(format!("teos-harness-client-{}-{tag}", std::process::id()));
        let _ = std::fs::remove_dir_all(&dir);
        let rt = tokio::runtime::Builder::new_current_thread().enable_all().build().unwrap();
        let mut s = CSys { dir, client: None, rt, dead: false };
        s.open();
        s
    }
    pub fn db_path(&self) -> PathBuf {
        self.dir.join("watchtowers_db.sql3")
    }
    fn open(&mut self) {
        self.client = None;
        let (tx, rx) = unbounded_channel();
        std::mem::forget(rx); // with_proxy sends the stale pending data to the retry manager
        self.client = Some(self.rt.block_on(WTClient::new(self.dir.clone(), tx)));
        self.dead = false;
    }
    pub fn mem_dump(&self) -> String {
        let c = self.client.as_ref().unwrap();
        let mut ts: Vec<(u32, String)> = c.towers.iter().map(|(id, s)| {
            let t = tower_index(&id.to_vec());
            (t, summary_line(t, s))
        }).collect();
        ts.sort();
        ts.into_iter().map(|x| x.1).collect::<Vec<_>>().join(";")
    }
    pub fn dump(&self) -> String {
        format!("mem=[{}] {}", self.mem_dump(), Rows::read(&self.db_path()).dump())
    }
    /// what a restart would load, without disturbing the running client
    pub fn would_load(&self) -> String {
        let dbm = DBM::new(&self.db_path()).unwrap();
        let mut ts: Vec<(u32, String)> = dbm.load_towers().iter().map(|(id, s)| {
            let t = tower_index(&id.to_vec());
            (t, summary_line(t, s))
        }).collect();
        ts.sort();
        ts.into_iter().map(|x| x.1).collect::<Vec<_>>().join(";")
    }

    pub fn exec(&mut self, op: &COp) -> String {
        if let COp::Reload = op {
            self.open();
            return "ok".into();
        }
        if self.dead {
            return "dead".into();
        }
        let c = self.client.as_mut().unwrap();
        let r = catch_unwind(AssertUnwindSafe(|| match op {
            COp::Reg { t, addr: a, slots, start, expiry, sig: sg } => {
                let r = RegistrationReceipt::with_signature(c.user_id, *slots, *start, *expiry, sig(*sg));
                match c.add_update_tower(tower_id(*t), &addr(*a), &r) {
                    Ok(()) => "ok".to_string(),
                    Err(e) => if e.is_expiry() { "err-expiry".into() } else { "err-slots".into() },
                }
            }
            COp::Rcpt { t, l, slots, start, usig, tsig } => {
                let known = c.towers.contains_key(&tower_id(*t));
                c.add_appointment_receipt(tower_id(*t), locator(*l), *slots, &AppointmentReceipt::with_signature(sig(*usig), *start, sig(*tsig)));
                if known { "ok".into() } else { "unknown-tower".into() }
            }
            COp::Pend { t, l, blob, tsd } => {
                let known = c.towers.contains_key(&tower_id(*t));
                c.add_pending_appointment(tower_id(*t), &body(*l, *blob, *tsd));
                if known { "ok".into() } else { "unknown-tower".into() }
            }
            COp::Unpend { t, l } => {
                let known = c.towers.contains_key(&tower_id(*t));
                c.remove_pending_appointment(tower_id(*t), locator(*l));
                if known { "ok".into() } else { "unknown-tower".into() }
            }
            COp::Inval { t, l, blob, tsd } => {
                let known = c.towers.contains_key(&tower_id(*t));
                c.add_invalid_appointment(tower_id(*t), &body(*l, *blob, *tsd));
                if known { "ok".into() } else { "unknown-tower".into() }
            }
            COp::Misb { t, l, start, usig, tsig, rec } => {
                let known = c.towers.contains_key(&tower_id(*t));
                let proof = MisbehaviorProof::new(locator(*l), AppointmentReceipt::with_signature(sig(*usig), *start, sig(*tsig)), tower_id(*rec));
                c.flag_misbehaving_tower(tower_id(*t), proof);
                if known { "ok".into() } else { "unknown-tower".into() }
            }
            COp::Abandon { t } => match c.remove_tower(tower_id(*t)) {
                Ok(()) => "ok".into(),
                Err(_) => "notfound".into(),
            },
            COp::Status { t, s } => {
                c.set_tower_status(tower_id(*t), status_of(s));
                "ok".into()
            }
            COp::Reload => unreachable!(),
        }));
        match r {
            Ok(s) => s,
            Err(_) => {
                self.dead = true;
                "abort".into()
            }
        }
    }
}

impl Drop for CSys {
    fn drop(&mut self) {
        self.client = None;
        let _ = std::fs::remove_dir_all(&self.dir);
    }
}

/// reconstruction rule the property names: a stored proof implies misbehaving, pending data implies
/// temporarily unreachable
fn strip_status(mem: &str) -> Vec<(String, String, bool)> {
    // per tower: (line without the status field, status, has pending)
    mem.split(';').filter(|s| !s.is_empty()).map(|t| {
        let f: Vec<&str> = t.split(':').collect();
        let rest = format!("{}:{}:{}:{}:{}:{}:{}", f[0], f[1], f[2], f[3], f[4], f[6], f[7]);
        (rest, f[5].to_string(), f[6] != "p=")
    }).collect()
}

/// property monitors, independent of the Lean model
fn monitors(sys: &CSys, op: &COp, before: &Rows, after: &Rows, out: &str, stray: bool, status_forced: bool, rep: &mut Report) {
    let pre = if stray { "stray-release:" } else { "" };
    if out == "abort" {
        rep.fail("C18", &format!("{pre}panic:{}", crate::tower::last_panic_site()), &format!("`{}` panicked inside WTClient (in the plugin this happens with the state mutex held: every later handler dies on the poisoned lock); memory and disk may now differ", op.line()));
        return;
    }
    if sys.dead {
        return;
    }
    // 1. what the client reports = what is persisted = what a restart loads
    let mem = strip_status(&sys.mem_dump());
    let disk = strip_status(&sys.would_load());
    let m: Vec<&String> = mem.iter().map(|x| &x.0).collect();
    let d: Vec<&String> = disk.iter().map(|x| &x.0).collect();
    if m != d {
        rep.fail("C18", &format!("{pre}mem_ne_disk"), &format!("after `{}`: summaries in memory {m:?} differ from what a reload produces {d:?}", op.line()));
    }
    for (line, status, has_pending) in disk.iter() {
        let t: u32 = line.split(':').next().unwrap().parse().unwrap();
        let want = if after.proofs.contains_key(&t) { "m" } else if *has_pending { "tu" } else { "r" };
        if status != want {
            rep.fail("C18", &format!("{pre}reload_status"), &format!("tower {t} reloads as `{status}`, expected `{want}`"));
        }
    }
    for (line, status, _) in mem.iter() {
        let t: u32 = line.split(':').next().unwrap().parse().unwrap();
        if after.proofs.contains_key(&t) != (status == "m") && !status_forced {
            rep.fail("C18", &format!("{pre}proof_vs_misbehaving"), &format!("tower {t}: proof stored = {}, status in memory `{status}`", after.proofs.contains_key(&t)));
        }
    }
    // 2. an operation on one tower leaves every other tower's records alone
    if let Some(t) = op.tower() {
        for other in 0..6u32 {
            if other != t && before.of_tower(other) != after.of_tower(other) {
                rep.fail("C18", &format!("{pre}other_tower_rows_changed:{}", op.kind()), &format!("`{}` changed the records of tower {other}: before {} after {}", op.line(), before.of_tower(other).dump(), after.of_tower(other).dump()));
            }
        }
    }
    // 3. abandon: all and only that tower's records
    if let COp::Abandon { t } = op {
        if out == "ok" {
            if after.of_tower(*t) != Rows::default() {
                rep.fail("C18", &format!("{pre}abandon_left_rows"), &format!("records of tower {t} survive abandon: {}", after.of_tower(*t).dump()));
            }
            if before.bodies != after.bodies {
                rep.fail("C18", &format!("{pre}abandon_deleted_bodies"), &format!("abandon changed appointment bodies: {:?} -> {:?}", before.bodies, after.bodies));
            }
            let orphans = after.bodies.keys().filter(|l| !after.pend.iter().any(|r| r.1 == **l) && !after.inval.iter().any(|r| r.1 == **l)).count();
            if orphans > 0 {
                rep.count("note:orphan-bodies-after-abandon");
            }
        }
    }
    // 5. (C14) what is persisted when a tower is flagged is the evidence given: the proof names the locator and the
    // recovered id, and the receipt stored for that locator is the one that did not verify (not one held from before)
    if let COp::Misb { t, l, start, usig, tsig, rec } = op {
        if out == "ok" && !before.proofs.contains_key(t) && after.proofs.contains_key(t) {
            let stored = after.rcpts.get(&(*t, *l)).map(|r| (r.0, r.1, r.2));
            if after.proofs.get(t) != Some(&(*l, *rec)) || stored != Some((*start, *usig, *tsig)) {
                rep.fail("C14", &format!("{pre}persisted_proof_is_not_the_evidence"), &format!("`{}` flagged tower {t}; stored proof {:?} (locator, recovered id), stored receipt for that locator {:?} (start, user sig, tower sig); receipt held before: {:?}", op.line(), after.proofs.get(t), stored, before.rcpts.get(&(*t, *l))));
            }
        }
    }
    // 4. a shared body stays while anybody references it; a released one with no reference left goes
    for (t, l) in after.pend.iter().chain(after.inval.iter()) {
        if !after.bodies.contains_key(l) {
            rep.fail("C18", &format!("{pre}reference_without_body"), &format!("tower {t} references locator {l} but the body is gone"));
        }
    }
    if let COp::Unpend { t, l } = op {
        let held = before.pend.contains(&(*t, *l));
        let others = before.pend.iter().chain(before.inval.iter()).filter(|r| r.1 == *l && !(r.0 == *t && before.pend.contains(r) && !before.inval.contains(r))).count();
        let _ = others;
        let refs_after = after.pend.iter().chain(after.inval.iter()).filter(|r| r.1 == *l).count();
        if held && refs_after == 0 && after.bodies.contains_key(l) {
            rep.fail("C18", &format!("{pre}unreferenced_body_kept"), &format!("locator {l}: last reference released by tower {t} but the body stays"));
        }
    }
}

struct Gen {
    rng: Rng,
    /// also emit releases of rows the tower does not hold (outside the property's vocabulary)
    stray: bool,
    next_sig: u32,
    expiry: BTreeMap<u32, u32>,
    slots: BTreeMap<u32, u32>,
}

impl Gen {
    fn sig(&mut self) -> u32 {
        self.next_sig += 1;
        self.next_sig
    }
    /// mostly-valid operations (what the plugin does) plus a malformed stream (duplicates, unknown towers,
    /// releases of rows the tower does not hold)
    fn op(&mut self, rows: &Rows, towers: u32, locs: u32) -> Vec<COp> {
        let t = self.rng.below(towers as u64) as u32;
        let l = self.rng.below(locs as u64) as u32;
        let blob = 1 + l; // the body is a function of the locator (same revocation => same blob)
        let unregistered: Vec<u32> = (0..towers).filter(|t| !rows.towers.contains_key(t)).collect();
        let mut pick = self.rng.weighted(&[10, 10, 16, 12, 10, 8, 3, 4, 6, if self.stray { 5 } else { 0 }, 6]);
        let t = if !unregistered.is_empty() && self.rng.chance(3, 4) {
            pick = 0;
            unregistered[0]
        } else {
            t
        };
        let known = rows.towers.contains_key(&t);
        match pick {
            0 => {
                // register / renew: usually strictly extending, sometimes not
                let e0 = *self.expiry.get(&t).unwrap_or(&100);
                let s0 = *self.slots.get(&t).unwrap_or(&10);
                let (expiry, slots) = match self.rng.below(8) {
                    0 => (e0, s0 + 5),
                    1 => (e0 + 10, rows.towers.get(&t).map(|x| x.1).unwrap_or(s0)),
                    2 if e0 > 5 => (e0 - 5, s0 + 5),
                    _ => (e0 + 10 + self.rng.below(5) as u32, rows.towers.get(&t).map(|x| x.1).unwrap_or(s0) + 1 + self.rng.below(20) as u32),
                };
                let sg = self.sig();
                let accepted = !known || (expiry > e0 && slots > rows.towers.get(&t).map(|x| x.1).unwrap_or(0));
                if accepted {
                    self.expiry.insert(t, expiry);
                    self.slots.insert(t, slots);
                }
                vec![COp::Reg { t, addr: self.rng.below(3) as u32, slots, start: expiry.saturating_sub(90), expiry, sig: sg }]
            }
            1 => {
                // accepted at once
                let (u, s) = (self.sig(), self.sig());
                let slots = rows.towers.get(&t).map(|x| x.1.saturating_sub(1)).unwrap_or(3);
                vec![COp::Rcpt { t, l, slots, start: 50 + self.rng.below(5) as u32, usig: u, tsig: s }]
            }
            2 => vec![COp::Pend { t, l, blob, tsd: 42 }],
            3 => {
                // pending -> accepted (what the retrier does: new record first, then release)
                let (u, s) = (self.sig(), self.sig());
                let slots = rows.towers.get(&t).map(|x| x.1.saturating_sub(1)).unwrap_or(3);
                // usually on a row the tower really has pending
                let Some((t, l)) = self.pick_row(&rows.pend, t, l) else { return vec![COp::Pend { t, l, blob, tsd: 42 }] };
                vec![COp::Rcpt { t, l, slots, start: 60, usig: u, tsig: s }, COp::Unpend { t, l }]
            }
            4 => {
                // pending -> invalid
                let Some((t, l)) = self.pick_row(&rows.pend, t, l) else { return vec![COp::Pend { t, l, blob, tsd: 42 }] };
                vec![COp::Inval { t, l, blob: 1 + l, tsd: 42 }, COp::Unpend { t, l }]
            }
            5 => vec![COp::Inval { t, l, blob, tsd: 42 }],
            6 => {
                let (u, s) = (self.sig(), self.sig());
                vec![COp::Misb { t, l, start: 70, usig: u, tsig: s, rec: 6 + self.rng.below(2) as u32 }]
            }
            7 => {
                self.expiry.remove(&t);
                self.slots.remove(&t);
                vec![COp::Abandon { t }]
            }
            8 => vec![COp::Status { t, s: ["r", "tu", "u", "se"][self.rng.below(4) as usize] }],
            9 => vec![COp::Unpend { t, l }],
            _ => vec![COp::Reload],
        }
    }
    fn pick_row(&mut self, set: &BTreeSet<(u32, u32)>, t: u32, l: u32) -> Option<(u32, u32)> {
        if !set.is_empty() && (!self.stray || self.rng.chance(5, 6)) {
            Some(*set.iter().nth(self.rng.below(set.len() as u64) as usize).unwrap())
        } else if self.stray {
            Some((t, l))
        } else {
            None
        }
    }
}

pub fn run_case(name: &str, stray: bool, ops_of: &mut dyn FnMut(&Rows) -> Option<Vec<COp>>, rep: &mut Report) {
    rep.begin_case(name);
    let mut sys = CSys::new(&name.replace(' ', "-"));
    rep.line("cl new", "ok");
    let mut shape = String::new();
    let mut any_shared = false;
    let mut status_forced = false;
    loop {
        let before = Rows::read(&sys.db_path());
        let Some(ops) = ops_of(&before) else { break };
        for op in ops {
            let before = Rows::read(&sys.db_path());
            let out = sys.exec(&op);
            let after = Rows::read(&sys.db_path());
            rep.line(&op.line(), &out);
            rep.count(&format!("op:{}", op.kind()));
            rep.count(&format!("out:{}:{}", op.kind(), out));
            if matches!(op, COp::Status { .. }) {
                status_forced = true;
            }
            if matches!(op, COp::Reload) {
                status_forced = false;
            }
            monitors(&sys, &op, &before, &after, &out, stray, status_forced, rep);
            shape.push_str(op.kind());
            shape.push(':');
            shape.push_str(&out);
            shape.push(' ');
            for l in 0..6u32 {
                let n = after.pend.iter().chain(after.inval.iter()).filter(|r| r.1 == l).map(|r| r.0).collect::<BTreeSet<_>>().len();
                if n > 1 {
                    any_shared = true;
                }
            }
            let d = if sys.dead { "dead".to_string() } else { sys.dump() };
            rep.line("cl dump", &d);
        }
    }
    if any_shared {
        rep.count("cases-with-shared-locators");
    }
    rep.end_case(if any_shared { Some(shape) } else { None });
}

pub fn run(seed: u64, thorough: bool, rep: &mut Report) {
    crate::tower::install_panic_hook();
    // corpus: minimal sequences of past disagreements and of the findings, run first
    let corpus: Vec<(&str, Vec<COp>)> = vec![
        ("corpus-two-towers-share-then-release", vec![
            COp::Reg { t: 0, addr: 0, slots: 10, start: 1, expiry: 100, sig: 1 },
            COp::Reg { t: 1, addr: 1, slots: 10, start: 1, expiry: 100, sig: 2 },
            COp::Pend { t: 0, l: 0, blob: 1, tsd: 42 },
            COp::Pend { t: 1, l: 0, blob: 1, tsd: 42 },
            COp::Rcpt { t: 0, l: 0, slots: 9, start: 60, usig: 3, tsig: 4 },
            COp::Unpend { t: 0, l: 0 },
            COp::Inval { t: 1, l: 0, blob: 1, tsd: 42 },
            COp::Unpend { t: 1, l: 0 },
            COp::Abandon { t: 1 },
            COp::Reload,
        ]),
        ("corpus-renew-and-misbehave", vec![
            COp::Reg { t: 0, addr: 0, slots: 10, start: 1, expiry: 100, sig: 1 },
            COp::Reg { t: 0, addr: 2, slots: 20, start: 1, expiry: 110, sig: 2 },
            COp::Reg { t: 0, addr: 2, slots: 30, start: 1, expiry: 110, sig: 3 },
            COp::Reg { t: 0, addr: 2, slots: 20, start: 1, expiry: 120, sig: 4 },
            COp::Misb { t: 0, l: 1, start: 70, usig: 5, tsig: 6, rec: 7 },
            COp::Reload,
            COp::Abandon { t: 0 },
        ]),
    ];
    for (name, ops) in corpus {
        let mut it = ops.into_iter();
        run_case(name, false, &mut |_| it.next().map(|o| vec![o]), rep);
    }
    let cases = if thorough { 3000 } else { 250 };
    let mut root = Rng::new(seed ^ 0xc18);
    for i in 0..cases {
        let mut g = Gen { rng: root.fork(), stray: i % 4 == 3, next_sig: 0, expiry: BTreeMap::new(), slots: BTreeMap::new() };
        rep.count(if g.stray { "cases:with-stray-releases" } else { "cases:property-vocabulary" });
        let towers = 2 + g.rng.below(2) as u32;
        let locs = 1 + g.rng.below(3) as u32;
        let len = 4 + g.rng.below(if thorough { 28 } else { 20 });
        let mut n = 0;
        let stray = g.stray;
        run_case(&format!("{}-{i}", if stray { "stray" } else { "hist" }), stray, &mut |rows| {
            n += 1;
            if n > len { None } else { Some(g.op(rows, towers, locs)) }
        }, rep);
    }
}
