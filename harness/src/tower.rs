//! The real tower (Gatekeeper + Watcher + Responder + Carrier + DBM + InternalAPI) assembled as in
//! `teos/src/main.rs`, driven operation by operation against the simulated bitcoind.
//! Emits the `tw …` op stream for the Lean model and the implementation's canonical answers.

use std::collections::{BTreeMap, BTreeSet, HashMap};
use std::panic::{catch_unwind, AssertUnwindSafe};
use std::path::PathBuf;
use std::sync::Arc;
use teos::vsync::{Condvar, Mutex};

use bitcoin::block::Block;
use bitcoin::hashes::{ripemd160, Hash};
use bitcoin::secp256k1::{PublicKey, Secp256k1, SecretKey};
use bitcoin::{Transaction, Txid};
use lightning::chain::Listen;
use tonic::Request;

use teos::api::internal::InternalAPI;
use teos::carrier::Carrier;
use teos::dbm::DBM;
use teos::gatekeeper::Gatekeeper;
use teos::protos as msgs;
use teos::protos::private_tower_services_server::PrivateTowerServices;
use teos::protos::public_tower_services_server::PublicTowerServices;
use teos::responder::Responder;
use teos::watcher::Watcher;
use teos_common::appointment::Locator;
use teos_common::cryptography;
use teos_common::protos as common_msgs;
use teos_common::receipts::{AppointmentReceipt, RegistrationReceipt};
use teos_common::{TowerId, UserId};

use crate::chain::{genesis_hash, mk_block, mk_tx, validated};
use crate::report::Report;
use crate::simnode::{GetR, SendR, SimNode};

pub const BOOT_BLOCKS: usize = 100;

/// The blocks `main.rs` hands to `Watcher::new`, as the extractor read them from the source (`Gen.Calls.watcherBoot`,
/// passed on by `./check`): the harness cannot run `main`, so it reproduces that one argument. `list` is newest first.
pub fn watcher_boot_slice<T>(list: &[T]) -> &[T] {
    let arg = std::env::var("VERIF_WATCHER_BOOT_ARG").unwrap_or_else(|_| "&last_n_blocks[0..6]".into());
    let range = arg.find('[').and_then(|i| {
        let inner = arg[i + 1..].trim_end_matches(']');
        let mut it = inner.split("..");
        let a = it.next()?.trim();
        let b = it.next()?.trim().trim_start_matches('=');
        let a: usize = if a.is_empty() { 0 } else { a.parse().ok()? };
        let b: usize = if b.is_empty() { list.len() } else { b.parse().ok()? };
        Some((a.min(list.len()), b.min(list.len())))
    });
    match range {
        Some((a, b)) if a <= b => &list[a..b],
        _ if !arg.contains('[') => list,
        _ => &list[0..6.min(list.len())],
    }
}

#[derive(Clone, Debug, PartialEq, Eq)]
pub enum BlobSpec {
    /// encrypt(penalty tx number, dispute tx number) with the given total blob length
    Enc { dispute: u32, penalty: u32, len: usize },
    Junk { tag: u32, len: usize },
}

impl BlobSpec {
    pub fn token(&self) -> String {
        match self {
            BlobSpec::Enc { dispute, penalty, len } => format!("enc:{}:{}:{}", dispute * 16, penalty * 16, len),
            BlobSpec::Junk { tag, len } => format!("junk:{tag}:{len}"),
        }
    }
    pub fn len(&self) -> usize {
        match self {
            BlobSpec::Enc { len, .. } => *len,
            BlobSpec::Junk { len, .. } => *len,
        }
    }
}

#[derive(Clone, Debug, PartialEq, Eq)]
pub enum SigKind {
    Valid,
    /// another user's key over the right message
    By(u32),
    /// the requester's key over the message of a different request
    WrongMsg,
    Truncated,
    Flipped,
    Garbage,
    Empty,
}

impl SigKind {
    pub fn token(&self) -> String {
        match self {
            SigKind::Valid => "sig=valid".into(),
            SigKind::By(k) => format!("sig=by:{k}"),
            SigKind::WrongMsg => "sig=wrongmsg".into(),
            SigKind::Truncated => "sig=trunc".into(),
            SigKind::Flipped => "sig=flip".into(),
            SigKind::Garbage => "sig=garbage".into(),
            SigKind::Empty => "sig=empty".into(),
        }
    }
    pub fn parse(s: &str) -> Option<SigKind> {
        let v = s.strip_prefix("sig=")?;
        Some(match v {
            "valid" => SigKind::Valid,
            "wrongmsg" => SigKind::WrongMsg,
            "trunc" => SigKind::Truncated,
            "flip" => SigKind::Flipped,
            "garbage" => SigKind::Garbage,
            "empty" => SigKind::Empty,
            _ => SigKind::By(v.strip_prefix("by:")?.parse().ok()?),
        })
    }
}

#[derive(Clone, Debug)]
pub enum HOp {
    Reg { user: u32 },
    Add { user: u32, loc: u32, blob: BlobSpec, tsd: u32, sig: SigKind },
    Get { user: u32, loc: u32, sig: SigKind },
    Sub { user: u32, sig: SigKind },
    Conn { txs: Vec<u32>, send: BTreeMap<u32, SendR>, get: BTreeMap<u32, GetR> },
    Disc,
    Dump,
    /// clean stop + start on the same data directory
    Restart,
}

/// What an operation returned, for the monitors.
#[derive(Clone, Debug)]
pub enum Outcome {
    Registered { slots: u32, start: u32, expiry: u32, receipt_ok: bool },
    MaxSlots,
    Accepted { start: u32, available: u32, expiry: u32, receipt_ok: bool },
    Error { grpc_code: i32, msg: String },
    Appt { blob: Vec<u8>, tsd: u32 },
    Tracker { dispute: u32, penalty: u32 },
    Subscription { slots: u32, expiry: u32, locs: Vec<u32> },
    Done,
    Panicked(String),
}

pub struct Keys {
    pub sk: SecretKey,
    pub pk: PublicKey,
}

pub fn user_key(i: u32) -> Keys {
    let mut b = [0x42u8; 32];
    b[0] = 1;
    b[28..].copy_from_slice(&(i + 1).to_be_bytes());
    let mut sk = SecretKey::from_slice(&b).unwrap();
    if i == 3 {
        // user 3 holds the negation of user 1's key: the two public keys share their x coordinate and differ only in
        // the parity byte, so anything keyed by less than the whole 33 bytes confuses the two users
        sk = user_key(1).sk.negate();
    }
    Keys { sk, pk: PublicKey::from_secret_key(&Secp256k1::new(), &sk) }
}

pub fn tower_key() -> Keys {
    let sk = SecretKey::from_slice(&[0xabu8; 32]).unwrap(); // (an all-digit hex key would be stored as a number by sqlite: INT affinity)
    Keys { sk, pk: PublicKey::from_secret_key(&Secp256k1::new(), &sk) }
}

/// the transaction with model id `16 * n`
pub fn tx_of(n: u32, pad: usize) -> Transaction {
    mk_tx(0x7E05_0000_0000 + n as u64, pad)
}

#[derive(Clone, Default)]
pub struct DbRow {
    pub users: BTreeMap<u32, (u32, u32, u32)>,
    /// (loc, user) -> (blob, tsd, sig index, start)
    pub appts: BTreeMap<(u32, u32), (Vec<u8>, u32, String, u32)>,
    /// (loc, user) -> (dispute n, penalty n, confirmed, height)
    pub trackers: BTreeMap<(u32, u32), (u32, u32, bool, u32)>,
}

pub struct TowerSys {
    pub rt: tokio::runtime::Runtime,
    pub node: SimNode,
    pub db_path: PathBuf,
    pub dbm: Arc<Mutex<DBM>>,
    pub gatekeeper: Arc<Gatekeeper>,
    pub watcher: Arc<Watcher>,
    pub responder: Arc<Responder>,
    pub api: Arc<InternalAPI>,
    pub reachable: Arc<(Mutex<bool>, Condvar)>,
    pub cfg: (u32, u32, u32),
    /// active chain, oldest first: (block number, block, height, tx numbers)
    pub chain: Vec<(u32, Block, u32, Vec<u32>)>,
    pub next_block: u32,
    /// tx number -> (transaction, pad)
    pub txs: HashMap<u32, Transaction>,
    pub txnum: HashMap<Txid, u32>,
    pub locnum: HashMap<Vec<u8>, u32>,
    pub sigs: Vec<String>,
    pub blobs: HashMap<Vec<u8>, BlobSpec>,
    pub uuid_of: HashMap<Vec<u8>, (u32, u32)>,
    pub users_seen: BTreeSet<u32>,
    /// values found in the database that do not fit the type the tower reads them back into
    pub db_anomalies: Vec<String>,
    pub dead: bool,
    /// when set, requests travel through the real HTTP API (JSON over TCP -> warp -> gRPC -> InternalAPI)
    pub http: Option<std::sync::Arc<crate::httpfront::HttpFront>>,
    /// (HTTP status, error code) of the last request sent through the HTTP API
    pub last_http: Option<(u16, u32)>,
    /// with an HTTP front attached: send and parse with the client plugin's own code (reqwest + ApiResponse<T>)
    pub use_plugin_client: bool,
    /// the client's own code could not make sense of a reply of the (real) tower
    pub client_parse_failure: Option<String>,
}

fn db_dir() -> PathBuf {
    let base = if std::path::Path::new("/dev/shm").is_dir() { "/dev/shm" } else { "/tmp" };
    let d = PathBuf::from(format!("{base}/teos-verif-{}", std::process::id()));
    std::fs::create_dir_all(&d).unwrap();
    d
}

pub fn cleanup_db_dir() {
    let _ = std::fs::remove_dir_all(db_dir());
}

thread_local! {
    pub static LAST_PANIC: std::cell::RefCell<String> = std::cell::RefCell::new(String::new());
}

pub fn last_panic_site() -> String {
    let w = LAST_PANIC.with(|p| p.borrow().clone());
    panic_site(&w)
}

/// stable name of a panic site: `file.rs:enclosing_fn:kind` (line numbers move with every edit)
pub fn panic_site(what: &str) -> String {
    // what = "/repo/teos/src/x.rs:LINE: message"
    let mut it = what.splitn(3, ':');
    let file = it.next().unwrap_or("?").to_string();
    let line: usize = it.next().and_then(|l| l.trim().parse().ok()).unwrap_or(0);
    let msg = it.next().unwrap_or("").trim().to_string();
    let short = file.rsplit('/').next().unwrap_or(&file).to_string();
    let mut func = "?".to_string();
    if let Ok(src) = std::fs::read_to_string(&file) {
        let lines: Vec<&str> = src.lines().collect();
        let mut i = line.min(lines.len());
        while i > 0 {
            i -= 1;
            let l = lines[i].trim_start();
            if let Some(p) = l.find("fn ") {
                if l.starts_with("fn ") || l.starts_with("pub") || l.starts_with("async fn") {
                    let rest = &l[p + 3..];
                    func = rest.chars().take_while(|c| c.is_alphanumeric() || *c == '_').collect();
                    break;
                }
            }
        }
    }
    let kind = if msg.contains("`None`") {
        "unwrap-none".to_string()
    } else if msg.contains("PoisonError") {
        "poisoned".to_string()
    } else if let Some(p) = msg.find("`Err` value: ") {
        msg[p + 13..].chars().take_while(|c| c.is_alphanumeric() || *c == '_').collect()
    } else if msg.contains("overflow") {
        "overflow".to_string()
    } else {
        msg.chars().filter(|c| c.is_alphanumeric()).take(24).collect()
    };
    format!("{short}:{func}:{kind}")
}

pub fn install_panic_hook() {
    std::panic::set_hook(Box::new(|info| {
        let loc = info.location().map(|l| format!("{}:{}", l.file(), l.line())).unwrap_or_default();
        let msg = if let Some(s) = info.payload().downcast_ref::<&str>() {
            s.to_string()
        } else if let Some(s) = info.payload().downcast_ref::<String>() {
            s.clone()
        } else {
            "?".into()
        };
        let short: String = msg.chars().take(160).collect();
        if std::env::var("VERIF_DEBUG").is_ok() {
            eprintln!("panic at {loc}: {short}");
        }
        LAST_PANIC.with(|p| *p.borrow_mut() = format!("{loc}: {short}"));
    }));
}

/// the bootstrap chain is the same for every case: build it once
pub struct BootChain {
    pub blocks: Vec<Block>,
}

impl BootChain {
    pub fn new() -> Self {
        let mut blocks = vec![];
        let mut prev = genesis_hash();
        for i in 0..BOOT_BLOCKS {
            let b = mk_block(prev, i as u32, vec![]);
            prev = b.block_hash();
            blocks.push(b);
        }
        BootChain { blocks }
    }
}

static CASE_COUNTER: std::sync::atomic::AtomicU64 = std::sync::atomic::AtomicU64::new(0);

impl TowerSys {
    /// `main.rs` bootstrap on a fresh data directory
    pub fn boot(cfg: (u32, u32, u32), height: u32, boot: &BootChain, rep: &mut Report) -> TowerSys {
        let n = CASE_COUNTER.fetch_add(1, std::sync::atomic::Ordering::SeqCst);
        let db_path = db_dir().join(format!("tower-{n}.sql3"));
        let _ = std::fs::remove_file(&db_path);
        let chain: Vec<(u32, Block, u32, Vec<u32>)> = boot
            .blocks
            .iter()
            .enumerate()
            .map(|(i, b)| (1 + i as u32, b.clone(), height + 1 + i as u32 - BOOT_BLOCKS as u32, vec![]))
            .collect();
        rep.line(&format!("tw cfg {} {} {}", cfg.0, cfg.1, cfg.2), "ok");
        let names: Vec<String> = chain.iter().map(|b| format!("b{}", b.0)).collect();
        rep.line(&format!("tw boot {height} {}", names.join(" ")), "ok");
        Self::assemble(cfg, height, chain, db_path, BOOT_BLOCKS as u32 + 1)
    }

    pub fn assemble(
        cfg: (u32, u32, u32),
        height: u32,
        chain: Vec<(u32, Block, u32, Vec<u32>)>,
        db_path: PathBuf,
        next_block: u32,
    ) -> TowerSys {
        let rt = tokio::runtime::Builder::new_current_thread().enable_all().build().unwrap();
        let node = SimNode::new();
        let dbm = Arc::new(Mutex::new(DBM::new(db_path.clone()).unwrap()));
        let tk = tower_key();
        {
            let d = dbm.lock().unwrap();
            if d.load_tower_key().is_none() {
                d.store_tower_key(&tk.sk).unwrap();
            }
        }
        let reachable = Arc::new((Mutex::new(true), Condvar::new()));
        let gatekeeper = Arc::new(Gatekeeper::new(height, cfg.0, cfg.1, cfg.2, dbm.clone()));
        // newest first, as get_last_n_blocks returns them
        let last_n: Vec<_> = chain.iter().rev().take(BOOT_BLOCKS).map(|b| validated(&b.1)).collect();
        let carrier = Carrier::new(Arc::new(node.client()), reachable.clone(), height);
        let responder = Arc::new(Responder::new(&last_n, height, carrier, gatekeeper.clone(), dbm.clone()));
        let watcher = Arc::new(Watcher::new(
            gatekeeper.clone(),
            responder.clone(),
            watcher_boot_slice(&last_n),
            height,
            tk.sk,
            TowerId(tk.pk),
            dbm.clone(),
        ));
        let (trigger, _listener) = triggered::trigger();
        let api = Arc::new(InternalAPI::new(
            watcher.clone(),
            vec![msgs::NetworkAddress::from_ipv4("127.0.0.1".to_string(), 9814)],
            reachable.clone(),
            trigger,
        ));
        TowerSys {
            rt,
            node,
            db_path,
            dbm,
            gatekeeper,
            watcher,
            responder,
            api,
            reachable,
            cfg,
            chain,
            next_block,
            txs: HashMap::new(),
            txnum: HashMap::new(),
            locnum: HashMap::new(),
            sigs: vec![],
            blobs: HashMap::new(),
            uuid_of: HashMap::new(),
            users_seen: BTreeSet::new(),
            db_anomalies: vec![],
            dead: false,
            http: None,
            last_http: None,
            use_plugin_client: false,
            client_parse_failure: None,
        }
    }

    pub fn height(&self) -> u32 {
        self.chain.last().map(|b| b.2).unwrap_or(0)
    }

    /// a clean stop and start on the same data directory: every component is rebuilt from the database and the
    /// last 100 blocks, as `main.rs` does; returns the line for the model
    pub fn restart_clean(&mut self) -> String {
        let db_path = self.db_path.clone();
        let chain = self.chain.clone();
        let height = self.height();
        let txs = std::mem::take(&mut self.txs);
        let txnum = std::mem::take(&mut self.txnum);
        let locnum = std::mem::take(&mut self.locnum);
        let sigs = std::mem::take(&mut self.sigs);
        let blobs = std::mem::take(&mut self.blobs);
        let uuid_of = std::mem::take(&mut self.uuid_of);
        let users_seen = std::mem::take(&mut self.users_seen);
        // the old process's handles are closed first (a clean stop), the file stays
        KEEP_DB.lock().unwrap().push(db_path.clone());
        let placeholder = TowerSys::assemble(self.cfg, height, chain.clone(), db_path.clone(), self.next_block);
        let old = std::mem::replace(self, placeholder);
        drop(old);
        KEEP_DB.lock().unwrap().retain(|p| p != &db_path);
        {
            let mut n = self.node.0.lock().unwrap();
            for t in txs.values() {
                n.txs.insert(t.compute_txid(), t.clone());
            }
        }
        self.txs = txs;
        self.txnum = txnum;
        self.locnum = locnum;
        self.sigs = sigs;
        self.blobs = blobs;
        self.uuid_of = uuid_of;
        self.users_seen = users_seen;
        let names: Vec<String> = self.chain.iter().rev().take(BOOT_BLOCKS).rev().map(|b| if b.3.is_empty() { format!("b{}", b.0) } else { format!("b{}:{}", b.0, b.3.iter().map(|t| format!("t{}", t * 16)).collect::<Vec<_>>().join(",")) }).collect();
        format!("tw reboot {height} {}", names.join(" "))
    }

    pub fn tx(&mut self, n: u32) -> Transaction {
        if let Some(t) = self.txs.get(&n) {
            return t.clone();
        }
        self.register_tx(n, tx_of(n, 0))
    }

    fn register_tx(&mut self, n: u32, t: Transaction) -> Transaction {
        self.txnum.insert(t.compute_txid(), n);
        self.locnum.insert(Locator::new(t.compute_txid()).to_vec(), n);
        self.node.0.lock().unwrap().txs.insert(t.compute_txid(), t.clone());
        self.txs.insert(n, t.clone());
        t
    }

    /// the penalty transaction number `n`, padded so that its encrypted blob has length `len`
    pub fn penalty_with_blob_len(&mut self, n: u32, len: usize) -> Transaction {
        if let Some(t) = self.txs.get(&n) {
            return t.clone();
        }
        let base = bitcoin::consensus::serialize(&tx_of(n, 0)).len() + 16;
        let mut pad = len.saturating_sub(base);
        for _ in 0..16 {
            let t = tx_of(n, pad);
            let l = bitcoin::consensus::serialize(&t).len() + 16;
            if l == len || (pad == 0 && l >= len) {
                return self.register_tx(n, t);
            }
            if l > len {
                pad -= (l - len).min(pad);
            } else {
                pad += len - l;
            }
        }
        let t = tx_of(n, pad);
        self.register_tx(n, t)
    }

    pub fn locator(&mut self, loc: u32) -> Locator {
        // the locator `loc` is the locator of transaction number `loc`
        let t = self.tx(loc);
        Locator::new(t.compute_txid())
    }

    pub fn build_blob(&mut self, spec: &BlobSpec) -> (Vec<u8>, BlobSpec) {
        match spec {
            BlobSpec::Enc { dispute, penalty, len } => {
                let p = self.penalty_with_blob_len(*penalty, *len);
                let d = self.tx(*dispute);
                let blob = cryptography::encrypt(&p, &d.compute_txid()).unwrap();
                let real = BlobSpec::Enc { dispute: *dispute, penalty: *penalty, len: blob.len() };
                self.blobs.insert(blob.clone(), real.clone());
                (blob, real)
            }
            BlobSpec::Junk { tag, len } => {
                let mut r = crate::rng::Rng::new(0xB10B_0000 + *tag as u64);
                let blob = r.bytes(*len);
                self.blobs.insert(blob.clone(), spec.clone());
                (blob, spec.clone())
            }
        }
    }

    pub fn user_name(&mut self, pk: &PublicKey) -> u32 {
        for i in 0..64u32 {
            if user_key(i).pk == *pk {
                return i;
            }
        }
        // an unknown key: name it from its bytes (never registered)
        let s = pk.serialize();
        1000 + ((s[1] as u32) << 8 | s[2] as u32)
    }

    fn sig_index(&mut self, s: &str) -> usize {
        if let Some(i) = self.sigs.iter().position(|x| x == s) {
            return i;
        }
        self.sigs.push(s.to_string());
        self.sigs.len() - 1
    }

    /// the signature the request carries, per `kind`
    pub fn make_sig(&self, kind: &SigKind, user: u32, msg: &[u8], other_msg: &[u8]) -> String {
        match kind {
            SigKind::Valid => cryptography::sign(msg, &user_key(user).sk),
            SigKind::By(k) => cryptography::sign(msg, &user_key(*k).sk),
            SigKind::WrongMsg => cryptography::sign(other_msg, &user_key(user).sk),
            SigKind::Truncated => {
                let s = cryptography::sign(msg, &user_key(user).sk);
                s[..s.len() - 3].to_string()
            }
            SigKind::Flipped => {
                let s = cryptography::sign(msg, &user_key(user).sk);
                let mut b: Vec<char> = s.chars().collect();
                let i = b.len() / 2;
                b[i] = if b[i] == 'y' { 'b' } else { 'y' };
                b.into_iter().collect()
            }
            SigKind::Garbage => "!!not zbase32 at all!!".to_string(),
            SigKind::Empty => String::new(),
        }
    }

    fn signer_token(&mut self, msg: &[u8], sig: &str) -> String {
        match cryptography::recover_pk(msg, sig) {
            Ok(pk) => format!("u{}", self.user_name(&pk)),
            Err(_) => "-".to_string(),
        }
    }

    fn set_node(&mut self, send: &BTreeMap<u32, SendR>, get: &BTreeMap<u32, GetR>) -> String {
        let mut toks = vec![];
        let mut s = HashMap::new();
        let mut g = HashMap::new();
        for (n, r) in send {
            let t = self.tx(*n);
            s.insert(t.compute_txid(), *r);
            toks.push(format!("s:t{}={}", n * 16, r.token()));
        }
        for (n, r) in get {
            let t = self.tx(*n);
            g.insert(t.compute_txid(), *r);
            toks.push(format!("g:t{}={}", n * 16, r.token()));
        }
        self.node.set_tables(s, g);
        toks.join(" ")
    }

    fn rpc_log(&mut self) -> (String, Vec<(String, u32)>) {
        let log = self.node.take_log();
        let mut named: Vec<(String, u32)> = log
            .iter()
            .map(|(m, t)| (m.clone(), self.txnum.get(t).cloned().unwrap_or(999_999)))
            .collect();
        let mut toks: Vec<String> = named.iter().map(|(m, n)| format!("{m}:t{}", n * 16)).collect();
        toks.sort();
        named.sort();
        (format!("rpc={}", toks.join(",")), named)
    }

    fn grpc_err_token(&self, code: tonic::Code, msg: &str) -> String {
        match code {
            tonic::Code::Unauthenticated => {
                if let Some(x) = msg.strip_prefix("Your subscription expired at ") {
                    format!("expired {x}")
                } else if msg.contains("enough slots") {
                    // AuthenticationFailure and NotEnoughSlots share one message: disambiguated by the caller
                    "auth-or-noslots".into()
                } else {
                    "auth".into()
                }
            }
            tonic::Code::AlreadyExists => "triggered".into(),
            tonic::Code::NotFound => "notfound".into(),
            tonic::Code::ResourceExhausted => "maxslots".into(),
            tonic::Code::Unavailable => "unavailable".into(),
            other => format!("grpc-{other:?}"),
        }
    }

    /// Runs one operation on the real tower; emits its line; returns what happened.
    pub fn exec(&mut self, op: &HOp, rep: &mut Report) -> (Outcome, Vec<(String, u32)>) {
        if self.dead {
            return (Outcome::Done, vec![]);
        }
        let tower_id = UserId(tower_key().pk);
        match op {
            HOp::Reg { user } => {
                self.users_seen.insert(*user);
                let pk = user_key(*user).pk;
                let api = self.api.clone();
                let req = common_msgs::RegisterRequest { user_id: UserId(pk).to_vec() };
                let _ = &api;
                let req2 = req.clone();
                let res = self.via("register", &req, move |rt, api| rt.block_on(api.register(Request::new(req2))));
                let line = format!("tw reg u{user}");
                match res {
                    Err(_) => self.panicked(&line, rep),
                    Ok(Ok(r)) => {
                        let r = r.into_inner();
                        let receipt = RegistrationReceipt::with_signature(
                            UserId(pk),
                            r.available_slots,
                            r.subscription_start,
                            r.subscription_expiry,
                            r.subscription_signature.clone(),
                        );
                        let ok = receipt.verify(&tower_id) && r.user_id == UserId(pk).to_vec();
                        rep.line(&line, &format!("ok {} {} {}", r.available_slots, r.subscription_start, r.subscription_expiry));
                        (Outcome::Registered { slots: r.available_slots, start: r.subscription_start, expiry: r.subscription_expiry, receipt_ok: ok }, vec![])
                    }
                    Ok(Err(st)) => {
                        let tok = self.grpc_err_token(st.code(), st.message());
                        rep.line(&line, &tok);
                        if st.code() == tonic::Code::ResourceExhausted {
                            (Outcome::MaxSlots, vec![])
                        } else {
                            (Outcome::Error { grpc_code: st.code() as i32, msg: st.message().to_string() }, vec![])
                        }
                    }
                }
            }
            HOp::Add { user, loc, blob, tsd, sig } => {
                let locator = self.locator(*loc);
                let (blob_bytes, real_spec) = self.build_blob(blob);
                let appt = teos_common::appointment::Appointment::new(locator, blob_bytes.clone(), *tsd);
                let msg = appt.to_vec();
                let other = format!("get appointment {locator}").into_bytes();
                let sigs = self.make_sig(sig, *user, &msg, &other);
                // the signer the property defines: recovery over exactly locator ‖ blob ‖ be32(to_self_delay)
                let mut spec_msg = locator.to_vec();
                spec_msg.extend(&blob_bytes);
                spec_msg.extend(tsd.to_be_bytes());
                let signer = self.signer_token(&spec_msg, &sigs);
                let usig = self.sig_index(&sigs);
                let oracle = self.current_oracle_tokens();
                let line = format!("tw add {signer} l{loc} {} {tsd} {usig} {oracle} {}", real_spec.token(), sig.token());
                // canonical order: signer loc blob tsd usig, then oracle tokens
                let line = reorder_add(&line);
                let api = self.api.clone();
                let req = common_msgs::AddAppointmentRequest {
                    appointment: Some(common_msgs::Appointment {
                        locator: locator.to_vec(),
                        encrypted_blob: blob_bytes,
                        to_self_delay: *tsd,
                    }),
                    signature: sigs.clone(),
                };
                let _ = &api;
                let req2 = req.clone();
                let res = self.via("add_appointment", &req, move |rt, api| rt.block_on(api.add_appointment(Request::new(req2))));
                let (rpc, named) = self.rpc_log();
                match res {
                    // (what the request had asked of the node before it died is still reported)
                    Err(_) => (self.panicked(&line, rep).0, named),
                    Ok(Ok(r)) => {
                        let r = r.into_inner();
                        let receipt = AppointmentReceipt::with_signature(sigs.clone(), r.start_block, r.signature.clone());
                        let ok = receipt.verify(&tower_id) && r.locator == locator.to_vec();
                        rep.line(&line, &format!("ok {} {} {} {rpc}", r.start_block, r.available_slots, r.subscription_expiry));
                        (Outcome::Accepted { start: r.start_block, available: r.available_slots, expiry: r.subscription_expiry, receipt_ok: ok }, named)
                    }
                    Ok(Err(st)) => {
                        let mut tok = self.grpc_err_token(st.code(), st.message());
                        if tok == "auth-or-noslots" {
                            // decide with the private API: is the signer a registered user?
                            tok = if signer != "-" && self.mem_user(signer[1..].parse().unwrap()).is_some() { "noslots".into() } else { "auth".into() };
                        }
                        rep.line(&line, &tok);
                        (Outcome::Error { grpc_code: st.code() as i32, msg: st.message().to_string() }, named)
                    }
                }
            }
            HOp::Get { user, loc, sig } => {
                let locator = self.locator(*loc);
                let msg = format!("get appointment {locator}").into_bytes();
                let other = b"get subscription info".to_vec();
                let sigs = self.make_sig(sig, *user, &msg, &other);
                let spec_msg = format!("get appointment {}", hex::encode(locator.to_vec())).into_bytes();
                let signer = self.signer_token(&spec_msg, &sigs);
                let line = format!("tw get {signer} l{loc} {}", sig.token());
                let api = self.api.clone();
                let req = common_msgs::GetAppointmentRequest { locator: locator.to_vec(), signature: sigs };
                let _ = &api;
                let req2 = req.clone();
                let res = self.via("get_appointment", &req, move |rt, api| rt.block_on(api.get_appointment(Request::new(req2))));
                match res {
                    Err(_) => self.panicked(&line, rep),
                    Ok(Ok(r)) => {
                        let r = r.into_inner();
                        use common_msgs::appointment_data::AppointmentData as AD;
                        match r.appointment_data.and_then(|d| d.appointment_data) {
                            Some(AD::Appointment(a)) => {
                                let spec = self.blobs.get(&a.encrypted_blob).map(|s| s.token()).unwrap_or_else(|| format!("unknown-blob:{}", a.encrypted_blob.len()));
                                let l = self.locnum.get(&a.locator).cloned().unwrap_or(999_999);
                                let st = if r.status == 1 { "" } else { " status-mismatch" };
                                rep.line(&line, &format!("appt l{l} {spec} {}{st}", a.to_self_delay));
                                (Outcome::Appt { blob: a.encrypted_blob, tsd: a.to_self_delay }, vec![])
                            }
                            Some(AD::Tracker(t)) => {
                                let d = Txid::from_slice(&t.dispute_txid).ok().and_then(|x| self.txnum.get(&x).cloned()).unwrap_or(999_999);
                                let p = Txid::from_slice(&t.penalty_txid).ok().and_then(|x| self.txnum.get(&x).cloned()).unwrap_or(999_999);
                                let raw_ok = self.txs.get(&p).map(|tx| bitcoin::consensus::serialize(tx) == t.penalty_rawtx).unwrap_or(false);
                                let st = if r.status == 2 && raw_ok { "" } else { " status-mismatch" };
                                rep.line(&line, &format!("tracker t{} t{}{st}", d * 16, p * 16));
                                (Outcome::Tracker { dispute: d, penalty: p }, vec![])
                            }
                            None => {
                                rep.line(&line, "empty-reply");
                                (Outcome::Done, vec![])
                            }
                        }
                    }
                    Ok(Err(st)) => {
                        let tok = self.grpc_err_token(st.code(), st.message());
                        rep.line(&line, &tok);
                        (Outcome::Error { grpc_code: st.code() as i32, msg: st.message().to_string() }, vec![])
                    }
                }
            }
            HOp::Sub { user, sig } => {
                let msg = b"get subscription info".to_vec();
                let other = b"get appointment ".to_vec();
                let sigs = self.make_sig(sig, *user, &msg, &other);
                let signer = self.signer_token(b"get subscription info", &sigs);
                let line = format!("tw sub {signer} {}", sig.token());
                let api = self.api.clone();
                let req = common_msgs::GetSubscriptionInfoRequest { signature: sigs };
                let _ = &api;
                let req2 = req.clone();
                let res = self.via("get_subscription_info", &req, move |rt, api| rt.block_on(api.get_subscription_info(Request::new(req2))));
                match res {
                    Err(_) => self.panicked(&line, rep),
                    Ok(Ok(r)) => {
                        let r = r.into_inner();
                        let mut locs: Vec<u32> = r.locators.iter().map(|l| self.locnum.get(l).cloned().unwrap_or(999_999)).collect();
                        locs.sort();
                        locs.dedup();
                        let ls: Vec<String> = locs.iter().map(|l| format!("l{l}")).collect();
                        rep.line(&line, &format!("ok {} {} [{}]", r.available_slots, r.subscription_expiry, ls.join(",")));
                        (Outcome::Subscription { slots: r.available_slots, expiry: r.subscription_expiry, locs }, vec![])
                    }
                    Ok(Err(st)) => {
                        let tok = self.grpc_err_token(st.code(), st.message());
                        rep.line(&line, &tok);
                        (Outcome::Error { grpc_code: st.code() as i32, msg: st.message().to_string() }, vec![])
                    }
                }
            }
            HOp::Conn { txs, send, get } => {
                let oracle = self.set_node(send, get);
                let num = self.next_block;
                self.next_block += 1;
                let prev = self.chain.last().map(|b| b.1.block_hash()).unwrap_or_else(genesis_hash);
                let height = self.height() + 1;
                let txdata: Vec<Transaction> = txs.iter().map(|n| self.tx(*n)).collect();
                let block = mk_block(prev, num, txdata);
                let tok: Vec<String> = txs.iter().map(|n| format!("t{}", n * 16)).collect();
                let line = format!("tw conn b{num} {height} {} {oracle}", if tok.is_empty() { "-".to_string() } else { tok.join(",") });
                self.chain.push((num, block.clone(), height, txs.clone()));
                let inner = (self.watcher.clone(), self.responder.clone());
                let listener = (self.gatekeeper.clone(), &inner);
                let res = catch_unwind(AssertUnwindSafe(|| {
                    let txdata: Vec<(usize, &Transaction)> = block.txdata.iter().enumerate().collect();
                    listener.filtered_block_connected(&block.header, &txdata, height);
                }));
                let (rpc, named) = self.rpc_log();
                match res {
                    Err(_) => self.panicked(line.trim_end(), rep),
                    Ok(()) => {
                        rep.line(line.trim_end(), &format!("ok {rpc}"));
                        (Outcome::Done, named)
                    }
                }
            }
            HOp::Disc => {
                let (num, block, height, _) = self.chain.pop().expect("disc on empty chain");
                let line = format!("tw disc b{num} {height}");
                let inner = (self.watcher.clone(), self.responder.clone());
                let listener = (self.gatekeeper.clone(), &inner);
                let res = catch_unwind(AssertUnwindSafe(|| listener.block_disconnected(&block.header, height)));
                match res {
                    Err(_) => self.panicked(&line, rep),
                    Ok(()) => {
                        rep.line(&line, "ok rpc=");
                        (Outcome::Done, vec![])
                    }
                }
            }
            HOp::Dump => {
                let d = self.dump();
                rep.line("tw dump", &d);
                (Outcome::Done, vec![])
            }
            HOp::Restart => {
                let res = catch_unwind(AssertUnwindSafe(|| self.restart_clean()));
                match res {
                    Ok(line) => {
                        rep.line(&line, "ok");
                        (Outcome::Done, vec![])
                    }
                    Err(_) => {
                        rep.line("tw reboot 0", "abort");
                        self.dead = true;
                        (Outcome::Panicked("bootstrap".into()), vec![])
                    }
                }
            }
        }
    }

    /// node tables currently installed, as oracle tokens (requests do not change them)
    fn current_oracle_tokens(&mut self) -> String {
        let s = self.node.0.lock().unwrap();
        let mut toks = vec![];
        for (t, r) in s.send.iter() {
            if let Some(n) = self.txnum.get(t) {
                toks.push(format!("s:t{}={}", n * 16, r.token()));
            }
        }
        for (t, r) in s.get.iter() {
            if let Some(n) = self.txnum.get(t) {
                toks.push(format!("g:t{}={}", n * 16, r.token()));
            }
        }
        toks.sort();
        toks.join(" ")
    }

    pub fn set_tables(&mut self, send: &BTreeMap<u32, SendR>, get: &BTreeMap<u32, GetR>) {
        self.set_node(send, get);
    }

    /// one public request: straight into `InternalAPI`, or through the real HTTP API when a front is attached
    pub fn via<Req: serde::Serialize, Resp: serde::de::DeserializeOwned>(
        &mut self,
        endpoint: &str,
        req: &Req,
        direct: impl FnOnce(&tokio::runtime::Runtime, Arc<InternalAPI>) -> Result<tonic::Response<Resp>, tonic::Status>,
    ) -> std::thread::Result<Result<tonic::Response<Resp>, tonic::Status>> {
        let Some(front) = self.http.clone() else {
            let api = self.api.clone();
            let rt = &self.rt;
            return catch_unwind(AssertUnwindSafe(|| direct(rt, api)));
        };
        if self.use_plugin_client {
            use teos_common::net::http::Endpoint;
            use watchtower_plugin::net::http::{post_request, process_post_response, ApiResponse};
            let addr = teos_common::net::NetAddr::new(format!("http://127.0.0.1:{}", front.http_port));
            let ep = match endpoint {
                "register" => Endpoint::Register,
                "add_appointment" => Endpoint::AddAppointment,
                "get_appointment" => Endpoint::GetAppointment,
                _ => Endpoint::GetSubscriptionInfo,
            };
            let r: Result<ApiResponse<Resp>, _> = self.rt.block_on(async { process_post_response(post_request(&addr, ep, req, &None).await).await });
            self.last_http = None;
            return match r {
                Ok(ApiResponse::Response(x)) => Ok(Ok(tonic::Response::new(x))),
                Ok(ApiResponse::Error(e)) => {
                    use teos_common::errors as ec;
                    let grpc = match e.error_code {
                        x if x == ec::WRONG_FIELD_FORMAT => tonic::Code::InvalidArgument,
                        x if x == ec::APPOINTMENT_NOT_FOUND => tonic::Code::NotFound,
                        x if x == ec::APPOINTMENT_ALREADY_TRIGGERED => tonic::Code::AlreadyExists,
                        x if x == ec::REGISTRATION_RESOURCE_EXHAUSTED => tonic::Code::ResourceExhausted,
                        x if x == ec::INVALID_SIGNATURE_OR_SUBSCRIPTION_ERROR => tonic::Code::Unauthenticated,
                        x if x == ec::SERVICE_UNAVAILABLE => tonic::Code::Unavailable,
                        x if x == ec::UNEXPECTED_ERROR => return Err(Box::new("handler failed behind the HTTP API (error code 255)")),
                        _ => tonic::Code::Unknown,
                    };
                    Ok(Err(tonic::Status::new(grpc, e.error)))
                }
                Err(e) => {
                    self.client_parse_failure = Some(format!("{endpoint}: {e:?}"));
                    Ok(Err(tonic::Status::new(tonic::Code::DataLoss, format!("client could not use the reply: {e:?}"))))
                }
            };
        }
        let body = serde_json::to_vec(req).unwrap();
        let Some(r) = front.post(&format!("/{endpoint}"), &body) else {
            self.last_http = Some((0, 0));
            return Ok(Err(tonic::Status::new(tonic::Code::DeadlineExceeded, "no answer from the HTTP API")));
        };
        if r.status == 200 {
            self.last_http = Some((200, 0));
            return match serde_json::from_slice::<Resp>(&r.body) {
                Ok(x) => Ok(Ok(tonic::Response::new(x))),
                Err(e) => Ok(Err(tonic::Status::new(tonic::Code::DataLoss, format!("reply does not parse: {e}")))),
            };
        }
        let v: serde_json::Value = serde_json::from_slice(&r.body).unwrap_or(serde_json::Value::Null);
        let code = v["error_code"].as_u64().unwrap_or(9999) as u32;
        self.last_http = Some((r.status, code));
        let msg = v["error"].as_str().unwrap_or("").to_string();
        use teos_common::errors as e;
        let grpc = match code as u8 {
            x if x == e::WRONG_FIELD_FORMAT => tonic::Code::InvalidArgument,
            x if x == e::APPOINTMENT_NOT_FOUND => tonic::Code::NotFound,
            x if x == e::APPOINTMENT_ALREADY_TRIGGERED => tonic::Code::AlreadyExists,
            x if x == e::REGISTRATION_RESOURCE_EXHAUSTED => tonic::Code::ResourceExhausted,
            x if x == e::INVALID_SIGNATURE_OR_SUBSCRIPTION_ERROR => tonic::Code::Unauthenticated,
            x if x == e::SERVICE_UNAVAILABLE => tonic::Code::Unavailable,
            x if x == e::UNEXPECTED_ERROR => return Err(Box::new("handler failed behind the HTTP API (error code 255)")),
            _ => tonic::Code::Unknown,
        };
        Ok(Err(tonic::Status::new(grpc, msg)))
    }

    fn panicked(&mut self, line: &str, rep: &mut Report) -> (Outcome, Vec<(String, u32)>) {
        self.dead = true;
        let what = LAST_PANIC.with(|p| p.borrow().clone());
        rep.line(line, "abort");
        (Outcome::Panicked(what), vec![])
    }

    pub fn mem_user(&self, u: u32) -> Option<(u32, u32)> {
        let api = self.api.clone();
        let req = msgs::GetUserRequest { user_id: UserId(user_key(u).pk).to_vec() };
        match self.rt.block_on(api.get_user(Request::new(req))) {
            Ok(r) => {
                let r = r.into_inner();
                Some((r.available_slots, r.subscription_expiry))
            }
            Err(_) => None,
        }
    }

    pub fn uuid_bytes(&mut self, loc: u32, user: u32) -> Vec<u8> {
        let mut data = self.locator(loc).to_vec();
        data.extend(user_key(user).pk.serialize());
        ripemd160::Hash::hash(&data).to_byte_array().to_vec()
    }

    /// reads the sqlite file through a second connection
    pub fn read_db(&mut self) -> DbRow {
        let conn = rusqlite::Connection::open(&self.db_path).unwrap();
        let mut users = BTreeMap::new();
        {
            let mut st = conn.prepare("SELECT user_id, available_slots, subscription_start, subscription_expiry FROM users").unwrap();
            let mut rows = st.query([]).unwrap();
            while let Ok(Some(r)) = rows.next() {
                let id: Vec<u8> = r.get(0).unwrap();
                let pk = PublicKey::from_slice(&id).unwrap();
                // the tower reads these columns back as u32: a value outside that range is reported, and shown as a
                // number no u32 computation of the tower produces for these histories
                let mut col = |i: usize, name: &str| -> u32 {
                    let v: i64 = r.get(i).unwrap();
                    match u32::try_from(v) {
                        Ok(x) => x,
                        Err(_) => {
                            self.db_anomalies.push(format!("users.{name} = {v} does not fit u32"));
                            u32::MAX - 1
                        }
                    }
                };
                let row = (col(1, "available_slots"), col(2, "subscription_start"), col(3, "subscription_expiry"));
                users.insert(self.user_name(&pk), row);
            }
        }
        let mut appts = BTreeMap::new();
        let mut uuid_map: HashMap<Vec<u8>, (u32, u32)> = HashMap::new();
        {
            let mut st = conn.prepare("SELECT UUID, locator, encrypted_blob, to_self_delay, user_signature, start_block, user_id FROM appointments").unwrap();
            let mut rows = st.query([]).unwrap();
            while let Ok(Some(r)) = rows.next() {
                let uuid: Vec<u8> = r.get(0).unwrap();
                let loc: Vec<u8> = r.get(1).unwrap();
                let blob: Vec<u8> = r.get(2).unwrap();
                let tsd: u32 = r.get(3).unwrap();
                let sig: String = r.get(4).unwrap();
                let start: u32 = r.get(5).unwrap();
                let uid: Vec<u8> = r.get(6).unwrap();
                let l = self.locnum.get(&loc).cloned().unwrap_or(999_999);
                let u = self.user_name(&PublicKey::from_slice(&uid).unwrap());
                uuid_map.insert(uuid, (l, u));
                appts.insert((l, u), (blob, tsd, sig, start));
            }
        }
        let mut trackers = BTreeMap::new();
        {
            let mut st = conn.prepare("SELECT UUID, dispute_tx, penalty_tx, height, confirmed FROM trackers").unwrap();
            let mut rows = st.query([]).unwrap();
            while let Ok(Some(r)) = rows.next() {
                let uuid: Vec<u8> = r.get(0).unwrap();
                let d: Vec<u8> = r.get(1).unwrap();
                let p: Vec<u8> = r.get(2).unwrap();
                let h: u32 = r.get(3).unwrap();
                let c: bool = r.get(4).unwrap();
                let dn = bitcoin::consensus::deserialize::<Transaction>(&d).ok().and_then(|t| self.txnum.get(&t.compute_txid()).cloned()).unwrap_or(999_999);
                let pn = bitcoin::consensus::deserialize::<Transaction>(&p).ok().and_then(|t| self.txnum.get(&t.compute_txid()).cloned()).unwrap_or(999_999);
                let key = uuid_map.get(&uuid).cloned().unwrap_or((999_999, 999_999));
                trackers.insert(key, (dn, pn, c, h));
            }
        }
        for (k, v) in uuid_map.iter() {
            self.uuid_of.insert(k.clone(), *v);
        }
        DbRow { users, appts, trackers }
    }

    /// the tower admin's view through the private API (get_tower_info, get_users, get_user, get_all_appointments,
    /// get_appointments by locator), canonicalised; call after `read_db` (which learns the UUIDs)
    pub fn admin(&mut self) -> String {
        use teos::protos::private_tower_services_server::PrivateTowerServices;
        let api = self.api.clone();
        let info = self.rt.block_on(api.get_tower_info(Request::new(()))).map(|r| r.into_inner());
        let info_s = match info {
            Ok(i) => format!("{}/{}/{}/{}", i.n_registered_users, i.n_watcher_appointments, i.n_responder_trackers, if i.bitcoind_reachable { 1 } else { 0 }),
            Err(e) => format!("err:{:?}", e.code()),
        };
        let users = self.rt.block_on(api.get_users(Request::new(()))).map(|r| r.into_inner().user_ids).unwrap_or_default();
        let mut unames: Vec<u32> = users.iter().map(|id| PublicKey::from_slice(id).map(|pk| self.user_name(&pk)).unwrap_or(999_999)).collect();
        unames.sort();
        let mut per_user = vec![];
        for u in self.users_seen.clone() {
            let req = msgs::GetUserRequest { user_id: UserId(user_key(u).pk).to_vec() };
            match self.rt.block_on(api.get_user(Request::new(req))) {
                Ok(r) => {
                    let r = r.into_inner();
                    let mut locs: Vec<String> = r.appointments.iter().map(|id| match self.uuid_of.get(id) {
                        Some((l, owner)) if *owner == u => format!("l{l}"),
                        Some((l, owner)) => format!("l{l}-of-u{owner}"),
                        None => "unknown-uuid".to_string(),
                    }).collect();
                    locs.sort();
                    per_user.push(format!("u{u}:{}/{}:{}", r.available_slots, r.subscription_expiry, locs.join(",")));
                }
                Err(e) => per_user.push(format!("u{u}:{:?}", e.code())),
            }
        }
        let fmt_data = |sys: &Self, v: Vec<common_msgs::AppointmentData>| -> Vec<String> {
            let mut out: Vec<String> = v.into_iter().map(|d| match d.appointment_data {
                Some(common_msgs::appointment_data::AppointmentData::Appointment(a)) => {
                    let l = sys.locnum.get(&a.locator).cloned().unwrap_or(999_999);
                    let spec = sys.blobs.get(&a.encrypted_blob).map(|s| s.token()).unwrap_or_else(|| format!("unknown-blob:{}", a.encrypted_blob.len()));
                    format!("a:l{l}:{spec}:{}", a.to_self_delay)
                }
                Some(common_msgs::appointment_data::AppointmentData::Tracker(t)) => {
                    let num = |b: &Vec<u8>| bitcoin::Txid::from_slice(b).ok().and_then(|x| sys.txnum.get(&x).cloned()).map(|n| (n * 16).to_string()).unwrap_or_else(|| "?".into());
                    format!("t:t{}:t{}", num(&t.dispute_txid), num(&t.penalty_txid))
                }
                None => "empty".to_string(),
            }).collect();
            out.sort();
            out
        };
        let all = self.rt.block_on(api.get_all_appointments(Request::new(()))).map(|r| r.into_inner().appointments).unwrap_or_default();
        let all_s = fmt_data(self, all);
        // by locator: every locator the harness has named
        let mut by_loc = vec![];
        let mut locs: Vec<(u32, Vec<u8>)> = self.locnum.iter().filter(|(_, n)| **n < 1000).map(|(b, n)| (*n, b.clone())).collect();
        locs.sort();
        locs.dedup_by_key(|x| x.0);
        for (n, bytes) in locs {
            let r = self.rt.block_on(api.get_appointments(Request::new(msgs::GetAppointmentsRequest { locator: bytes }))).map(|r| r.into_inner().appointments).unwrap_or_default();
            let f = fmt_data(self, r);
            if !f.is_empty() {
                by_loc.push(format!("l{n}={}", f.join("+")));
            }
        }
        format!("info={info_s} users=[{}] user=[{}] all=[{}] byloc=[{}]", unames.iter().map(|u| format!("u{u}")).collect::<Vec<_>>().join(" "), per_user.join(" "), all_s.join(" "), by_loc.join(" "))
    }

    pub fn dump(&mut self) -> String {
        let db = self.read_db();
        self.dump_from(&db)
    }

    pub fn dump_from(&mut self, db: &DbRow) -> String {
        let mem: Vec<String> = self
            .users_seen
            .clone()
            .iter()
            .filter_map(|u| self.mem_user(*u).map(|(s, e)| format!("u{u}:{s}/{e}")))
            .collect();
        let dbu: Vec<String> = db.users.iter().map(|(u, (s, st, e))| format!("u{u}:{s}/{st}/{e}")).collect();
        let ap: Vec<String> = db
            .appts
            .iter()
            .map(|((l, u), (blob, tsd, sig, start))| {
                let spec = self.blobs.get(blob).map(|s| s.token()).unwrap_or_else(|| format!("unknown-blob:{}", blob.len()));
                let si = self.sigs.iter().position(|x| x == sig).map(|i| i.to_string()).unwrap_or_else(|| "?".into());
                format!("l{l}/u{u}:{spec}:{tsd}:{si}:{start}")
            })
            .collect();
        let tr: Vec<String> = db
            .trackers
            .iter()
            .map(|((l, u), (d, p, c, h))| format!("l{l}/u{u}:t{}:t{}:{}:{h}", d * 16, p * 16, if *c { "C" } else { "M" }))
            .collect();
        format!("users=[{}] dbusers=[{}] appts=[{}] trackers=[{}]", mem.join(" "), dbu.join(" "), ap.join(" "), tr.join(" "))
    }
}

/// moves the informational `sig=` token and oracle tokens after the five positional arguments
fn reorder_add(line: &str) -> String {
    // built as: tw add signer loc blob tsd usig oracle... sig=… (already in order); normalise spaces
    line.split_whitespace().collect::<Vec<_>>().join(" ")
}

/// database files that must survive the `TowerSys` that created them (a simulated process death: the next
/// `TowerSys` reopens the file)
pub static KEEP_DB: std::sync::Mutex<Vec<PathBuf>> = std::sync::Mutex::new(Vec::new());

impl Drop for TowerSys {
    fn drop(&mut self) {
        if KEEP_DB.lock().map(|k| k.contains(&self.db_path)).unwrap_or(false) {
            return;
        }
        let _ = std::fs::remove_file(&self.db_path);
        let _ = std::fs::remove_file(self.db_path.with_extension("sql3-journal"));
    }
}
