mod chain;
mod client;
mod conc;
mod crash;
mod config;
mod crypto;
mod httpc;
mod httpfront;
mod live;
mod monitors;
mod outage;
mod pexplore;
mod plugin;
mod pscen;
mod pworld;
mod report;
mod rng;
mod simnode;
mod simsource;
mod sync;
mod slots;
mod tower;
mod towerhist;
mod txindex;
mod wire;

use std::path::PathBuf;

fn main() {
    let args: Vec<String> = std::env::args().collect();
    if args.len() < 2 {
        eprintln!("usage: teos-harness <component> --seed N --tier quick|thorough --out DIR");
        std::process::exit(2);
    }
    let mut seed = 1u64;
    let mut tier = "quick".to_string();
    let mut out = PathBuf::from("out");
    let mut i = 2;
    let mut rest = vec![];
    while i < args.len() {
        match args[i].as_str() {
            "--seed" => { seed = args[i + 1].parse().unwrap(); i += 2; }
            "--tier" => { tier = args[i + 1].clone(); i += 2; }
            "--out" => { out = PathBuf::from(&args[i + 1]); i += 2; }
            _ => { rest.push(args[i].clone()); i += 1; }
        }
    }
    let thorough = tier == "thorough";
    let mut rep = report::Report::new(&out);
    match args[1].as_str() {
        "txindex" => {
            txindex::run(seed, thorough, &mut rep);
            rep.finish("every connect/disconnect sequence of the given length over a small key universe (keys unique in the active chain, re-appearing only in replacement blocks) for N in 1..3, plus random sequences with reorgs at N=6 and N=100; a case is non-trivial when it has a disconnect and a block with keys; distinct = distinct op sequences", true);
        }
        "config" => {
            config::run(seed, thorough, &mut rep);
            rep.finish("every Config field x (file absent/present) x (command line absent/given), all 8 credential combinations x 8 placements (file/command line), 13 network names x 3 ports x 2 placements: enumerated completely; plus random joint draws over all fields", true);
        }
        "crypto" => {
            crypto::run(seed, thorough, &mut rep);
            rep.finish("TESTS (not proofs) of the laws assumed of the primitives, on the real functions: random well-formed transactions of varied structure/size and random ids: round trip, determinism and recipe (recomputed with the AEAD crate), canonical serialisation, other id, bit flips / truncations / extensions / deletions of ciphertexts, all pairs of distinct ids over a 64-element set, sign/recover/verify with altered messages, altered/truncated/garbage signatures, other keys", false);
        }
        "conc" => {
            conc::run(seed, thorough, &mut rep);
            rep.finish("schedule exploration of the real tower under the deterministic scheduler (hook H5): for each scenario (set-up + 2..3 concurrent operations) every schedule with at most 1 (quick) / 2 (thorough) pre-emptions at lock acquisitions; outcome compared with the outcomes of the sequential orders; circular waits, aborts, lock-order edges recorded. SEARCH, not proof.", false);
        }
        "outage" => {
            outage::run(seed, thorough, &mut rep);
            rep.finish("scripted bitcoind outages (whole node / RPC interface at the i-th call) on the request path and on the block-processing path, with and without blocks mined meanwhile, under the deterministic scheduler; the observable state after every act is compared with the model; 'blocked forever' is decided structurally", false);
        }
        "crash" => {
            crash::run(seed, thorough, &mut rep);
            rep.finish("generated histories (registrations, submissions, multi-block polls with and without a failing block download); for every operation, a crash at every durable-write point (before / after each statement or transaction commit, hook H2/H3), restart on the same file through the real bootstrap + ChainMonitor catch-up, retry of the interrupted operation, rest of the history; database after the crash compared with the model's prefix of the write log; final state compared with the uninterrupted run", false);
        }
        "slots" => {
            slots::run(seed, thorough, &mut rep);
            rep.finish("compute_appointment_slots for every blob length 0..=2^24+2^13 (exhaustive: the change points of the real function and of the model are compared) plus random lengths up to 2^32 around powers of two and slot boundaries", true);
        }
        "tower" => {
            towerhist::run(seed, thorough, &mut rep);
            rep.finish("random tower histories (registrations, valid/garbled/multi-slot submissions and updates by several users on shared locators, signature mutations, blocks with disputes/penalties, same-block dispute+penalty, reorgs, walks past expiry and past 100 confirmations, scripted node verdicts); non-trivial = at least one accepted appointment and one non-empty block; distinct = distinct outcome shapes", false);
        }
        "plugin-explore" => {
            pexplore::run(rest.first().map(|s| s.as_str()).unwrap_or("basic"));
            return;
        }
        "http" => {
            httpc::run(seed, thorough, &mut rep);
            rep.finish("tower histories driven through the real HTTP API (JSON over TCP -> warp router -> gRPC -> InternalAPI; every request and reply of the four endpoints serialised and parsed for real), interleaved with requests outside the client's repertoire in whatever state the history has reached: single-fault mutations of valid bodies (missing / retyped / odd-hex / bad-hex / empty / wrong-size / out-of-range / duplicate field, non-JSON, empty, non-object bodies, a 33-byte non-key), oversized bodies, wrong methods, unknown paths, missing Content-Length, ping, and unstructured bytes; (status, error code) compared with the model, tower dump compared before/after every refused request", false);
        }
        "wire" => {
            wire::run(seed, thorough, &mut rep);
            rep.finish("(A) the real hex / reversed-hex / status / JSON serialisers and parsers of the shared message types and the three signed to_vec layouts on boundary values (all lengths incl. empty, 0x00/0xff/ramp/random bytes, u32 at 0, 2^8, 2^16, 2^24, 2^31, 2^32-1, signature strings of length 0..300), compared line by line with the wire model printed from the generated tables, plus round trips on the real types and through the client's untagged ApiResponse<T>; (B) tower histories whose four request kinds are sent and parsed by the client plugin's own code (reqwest post_request + process_post_response) against the real HTTP API, compared with the tower model", false);
        }
        "plugin" => {
            pscen::run(seed, thorough, &mut rep);
            rep.finish("binary-level scenarios: the real watchtower-client process driven over its plugin protocol against 1-2 scripted fake towers (accept, connection refused, subscription error, other API error, non-JSON / wrong-shape / empty body, wrong signer, undecodable signature, held requests; register replies: extending, not extending, wrong signer, garbage, API error), with notifications (incl. duplicates), manual retries, abandons, SIGKILL + restart; a fixed corpus naming every path plus random event sequences; after each event the client is left to reach a stable state which is recorded and checked by monitors", false);
        }
        "client" => {
            client::run(seed, thorough, &mut rep);
            rep.finish("operation sequences on the real WTClient + DBM over 2-3 towers sharing 1-3 locators: register/renew (extending and not), receipt, pending, invalid, pending->accepted, pending->invalid, misbehaviour, abandon, status changes, stray releases, duplicates, reloads; after every operation the summaries, the raw rows and what a second DBM would load are compared; non-trivial = some locator referenced by two towers at once; distinct = distinct (operation, outcome) sequences", false);
        }
        other => {
            eprintln!("unknown component {other}");
            std::process::exit(2);
        }
    }
}
