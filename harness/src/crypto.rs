//! C17: law conformance of the real `teos_common::cryptography` functions (labelled tests, not
//! proofs): the laws assumed of the primitives in `Model/Crypto.lean`, the recipe read by the
//! extractor (recomputed here with the AEAD crate directly), and the negative cases.

use bitcoin::consensus;
use bitcoin::hashes::{sha256, Hash};
use bitcoin::secp256k1::{PublicKey, Secp256k1, SecretKey};
use bitcoin::{Transaction, Txid};
use chacha20poly1305::aead::{Aead, NewAead};
use chacha20poly1305::{ChaCha20Poly1305, Key, Nonce};

use teos_common::appointment::Locator;
use teos_common::cryptography::{decrypt, encrypt, recover_pk, sign, verify};

use crate::chain::mk_tx;
use crate::report::Report;
use crate::rng::Rng;

fn rand_txid(rng: &mut Rng) -> Txid {
    Txid::from_slice(&rng.bytes(32)).unwrap()
}

fn rand_tx(rng: &mut Rng) -> Transaction {
    let mut tx = mk_tx(rng.next(), [0usize, 0, 1, 20, 300, 2100, 5000][rng.below(7) as usize]);
    // random structure: more inputs / outputs / witnesses
    for _ in 0..rng.below(3) {
        let mut i = tx.input[0].clone();
        i.previous_output.vout = rng.below(1000) as u32;
        if rng.chance(1, 2) {
            let wl = rng.below(80) as usize;
            i.witness.push(rng.bytes(wl));
        }
        tx.input.push(i);
    }
    for _ in 0..rng.below(3) {
        let mut o = tx.output[0].clone();
        o.value = bitcoin::Amount::from_sat(rng.below(1 << 40));
        tx.output.push(o);
    }
    tx
}

pub fn run(seed: u64, thorough: bool, rep: &mut Report) {
    let mut rng = Rng::new(seed);
    let n = if thorough { 20_000 } else { 1_500 };
    let secp = Secp256k1::new();
    rep.begin_case("crypto-laws");
    let mut set: Vec<(Transaction, Txid, Vec<u8>)> = vec![];
    for i in 0..n {
        let tx = rand_tx(&mut rng);
        let k = rand_txid(&mut rng);
        let c = encrypt(&tx, &k).unwrap();
        rep.count("encrypt");
        // decrypt_encrypt
        match decrypt(&c, &k) {
            Ok(t) if t == tx => {}
            other => rep.fail("C17", "decrypt_encrypt", &format!("decrypt(encrypt(t,k),k) = {:?}", other.map(|t| t.compute_txid()))),
        }
        // determinism + recipe: key = SHA256(txid bytes), nonce = 12 zero bytes, plaintext = consensus serialisation
        let key = sha256::Hash::hash(k.as_byte_array());
        let own = ChaCha20Poly1305::new(Key::from_slice(key.as_byte_array()))
            .encrypt(&Nonce::default(), consensus::serialize(&tx).as_ref())
            .unwrap();
        if own != c || encrypt(&tx, &k).unwrap() != c {
            rep.fail("C17", "recipe", "encrypt differs from ChaCha20-Poly1305(SHA256(txid), 0^12, serialize(tx))");
        }
        // canonical serialisation: deserialize(bytes) = tx -> bytes = serialize(tx)
        let ser = consensus::serialize(&tx);
        if consensus::deserialize::<Transaction>(&ser).map(|t| consensus::serialize(&t)).ok() != Some(ser.clone()) {
            rep.fail("C17", "serialisation_roundtrip", "deserialize/serialize is not the identity");
        }
        // another id fails
        let k2 = rand_txid(&mut rng);
        if k2 != k && decrypt(&c, &k2).is_ok() {
            rep.fail("C17", "other_id_decrypts", "a blob decrypted under a different id");
        }
        // ids close to the right one: one bit flipped anywhere, same locator (first 16 bytes) with another tail,
        // same tail with another head, byte-reversed — used after the right id has been (the order a cache would need)
        {
            use bitcoin::hashes::Hash;
            let kb = k.to_byte_array();
            let mut near: Vec<[u8; 32]> = vec![];
            for _ in 0..4 {
                let mut b = kb;
                b[rng.below(32) as usize] ^= 1 << rng.below(8);
                near.push(b);
            }
            let mut b = kb;
            b[31] ^= 0xff;
            near.push(b); // same locator, last byte differs
            let mut b = kb;
            for x in b[16..].iter_mut() {
                *x = rng.below(256) as u8;
            }
            near.push(b); // same locator, other tail
            let mut b = kb;
            for x in b[..16].iter_mut() {
                *x = rng.below(256) as u8;
            }
            near.push(b); // other locator, same tail
            let mut b = kb;
            b.reverse();
            near.push(b);
            for b in near {
                if b == kb {
                    continue;
                }
                rep.count("near-id");
                let k3 = bitcoin::Txid::from_byte_array(b);
                if decrypt(&c, &k3).is_ok() {
                    rep.fail("C17", "other_id_decrypts", &format!("a blob decrypted under a different id ({} of the 32 bytes differ)", b.iter().zip(kb.iter()).filter(|(x, y)| x != y).count()));
                }
                if encrypt(&tx, &k3).ok() == Some(c.clone()) {
                    rep.fail("C17", "other_id_same_ciphertext", "encrypting under a different id gives the same ciphertext");
                }
            }
        }
        // single-bit flips, truncation, extension
        for _ in 0..6 {
            let mut m = c.clone();
            match rng.below(4) {
                0 => {
                    let bit = rng.below((m.len() * 8) as u64) as usize;
                    m[bit / 8] ^= 1 << (bit % 8);
                }
                1 => {
                    let cut = 1 + rng.below(m.len().min(40) as u64) as usize;
                    m.truncate(m.len() - cut);
                }
                2 => {
                    let el = 1 + rng.below(8) as usize;
                    m.extend(rng.bytes(el));
                }
                _ => {
                    m.remove(rng.below(m.len() as u64) as usize);
                }
            }
            rep.count("mutated-ciphertext");
            if let Ok(t) = decrypt(&m, &k) {
                rep.fail("C17", "modified_ciphertext_decrypts", &format!("a modified ciphertext decrypted (to {})", if t == tx { "the same tx" } else { "another tx" }));
            }
        }
        // locator
        let loc = Locator::new(k);
        if loc.to_vec() != k.to_byte_array()[..16].to_vec() {
            rep.fail("C17", "locator_prefix", "Locator::new(txid) is not txid[..16]");
        }
        if i < 64 {
            set.push((tx, k, c));
        }
    }
    // all pairs of distinct ids over the generated set
    for (i, (_, _, c)) in set.iter().enumerate() {
        for (j, (_, k2, _)) in set.iter().enumerate() {
            if i != j {
                rep.count("pair");
                if decrypt(c, k2).is_ok() {
                    rep.fail("C17", "other_id_decrypts", "blob i decrypts under id j");
                }
            }
        }
    }
    // signatures
    let m = if thorough { 4000 } else { 400 };
    for _ in 0..m {
        let sk = loop {
            if let Ok(s) = SecretKey::from_slice(&rng.bytes(32)) {
                break s;
            }
        };
        let pk = PublicKey::from_secret_key(&secp, &sk);
        let len = [0usize, 1, 16, 33, 100, 2000][rng.below(6) as usize];
        let msg = rng.bytes(len);
        let sig = sign(&msg, &sk);
        rep.count("sign");
        if recover_pk(&msg, &sig).ok() != Some(pk) || !verify(&msg, &sig, &pk) {
            rep.fail("C17", "sign_recovers", "recover_pk(m, sign(m, sk)) != pk(sk)");
        }
        // altered message
        let mut m2 = msg.clone();
        if m2.is_empty() {
            m2.push(1);
        } else {
            let i = rng.below(m2.len() as u64) as usize;
            m2[i] ^= 1 << rng.below(8);
        }
        if verify(&m2, &sig, &pk) {
            rep.fail("C17", "altered_message_verifies", "signature verifies for an altered message");
        }
        // altered signature: character substitution, truncation, garbage
        for kind in 0..3 {
            let mut cs: Vec<char> = sig.chars().collect();
            match kind {
                0 => {
                    let i = rng.below(cs.len() as u64) as usize;
                    cs[i] = if cs[i] == 'y' { 'b' } else { 'y' };
                }
                1 => cs.truncate(cs.len() - 1 - rng.below(5) as usize),
                _ => cs = "not a zbase32 signature".chars().collect(),
            }
            let s2: String = cs.into_iter().collect();
            rep.count("mutated-signature");
            if s2 != sig && verify(&msg, &s2, &pk) {
                rep.fail("C17", "altered_signature_verifies", "an altered signature verifies for the signer");
            }
            // verify is exactly "recovers to that key"
            if verify(&msg, &s2, &pk) != (recover_pk(&msg, &s2).ok() == Some(pk)) {
                rep.fail("C17", "verify_iff_recover", "verify differs from recover_pk == pk");
            }
        }
        // single-bit mutations of the signature string (every bit of one character, one bit of others)
        {
            let bytes = sig.as_bytes().to_vec();
            let i = rng.below(bytes.len() as u64) as usize;
            let j = rng.below(bytes.len() as u64) as usize;
            let mut flips: Vec<(usize, u8)> = (0..8).map(|b| (i, 1u8 << b)).collect();
            flips.push((j, 0x20));
            flips.push((0, 1 << rng.below(7)));
            for (pos, mask) in flips {
                let mut b2 = bytes.clone();
                b2[pos] ^= mask;
                let Ok(s2) = String::from_utf8(b2) else { rep.count("bitflip-not-utf8"); continue };
                rep.count("bitflip-signature");
                let v = verify(&msg, &s2, &pk);
                if v {
                    if s2.eq_ignore_ascii_case(&sig) {
                        rep.fail("C17", "case_flipped_signature_verifies", &format!("a signature altered in the case of one letter (bit 0x20 of character {pos}) still verifies: zbase32 decoding is case-insensitive"));
                    } else {
                        rep.fail("C17", "altered_signature_verifies", &format!("signature with bit {mask:#x} of character {pos} flipped verifies for the signer"));
                    }
                }
                if v != (recover_pk(&msg, &s2).ok() == Some(pk)) {
                    rep.fail("C17", "verify_iff_recover", "verify differs from recover_pk == pk (bit-flipped signature)");
                }
            }
        }
        // another key
        let sk2 = SecretKey::from_slice(&[0x33; 32]).unwrap();
        if verify(&msg, &sig, &PublicKey::from_secret_key(&secp, &sk2)) {
            rep.fail("C17", "other_key_verifies", "signature verifies under another key");
        }
    }
    rep.end_case(Some("laws".into()));
    rep.distinct.insert("pairs".into());
    rep.evaluations = (n + m) as u64;
}
