//! Property monitors evaluated directly on the implementation's behaviour (not on the model).
//! A failure here is a concrete failing input: the op sequence of the current case.

use crate::tower::*;
use crate::towerhist::Gen;

pub fn after_op(g: &mut Gen, op: &HOp, out: &Outcome, _log: &[(String, u32)]) {
    // C11: no handler and no listener aborts
    if let Outcome::Panicked(what) = out {
        let site = what.split(": ").next().unwrap_or("?").to_string();
        g.rep.fail("C11", &format!("panic@{site}"), &format!("{} panicked: {what}", crate::towerhist::op_name(op)));
    }
    // C08: every receipt verifies under the tower id over exactly the returned fields
    match out {
        Outcome::Registered { receipt_ok: false, .. } => g.rep.fail("C08", "registration_receipt_invalid", "registration receipt does not verify with RegistrationReceipt::verify"),
        Outcome::Accepted { receipt_ok: false, .. } => g.rep.fail("C08", "appointment_receipt_invalid", "appointment receipt does not verify with AppointmentReceipt::verify"),
        _ => {}
    }
}
