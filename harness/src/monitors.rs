//! Property monitors evaluated directly on the implementation's behaviour (not on the model).
//! A failure here is a concrete failing input: the op sequence of the current case.
//! Every monitor checks only what its property states, using the harness's own record of what
//! was submitted, mined and answered by the simulated node.

use std::collections::{BTreeMap, BTreeSet};

use crate::simnode::{GetR, SendR};
use crate::tower::*;
use crate::towerhist::Gen;

pub fn slots_of(len: usize) -> u64 {
    ((len + 2047) / 2048) as u64
}

#[derive(Default)]
pub struct MonState {
    pub prev: Option<DbRow>,
    /// slots granted by registrations since the user's record appeared
    pub granted: BTreeMap<u32, u64>,
    /// trackers whose confirming block was disconnected and that have not been handled yet
    pub reorged: BTreeSet<(u32, u32)>,
    /// blocks the locator cache / tx index lack because of disconnections (see C19)
    pub cache_deficit: usize,
    pub index_deficit: usize,
    /// last blob accepted per (loc, user)
    pub last_accepted: BTreeMap<(u32, u32), Vec<u8>>,
    /// every dispute (tx number) the tower has ever been shown in a connected block
    pub disputes_seen: BTreeSet<u32>,
    /// transactions submitted since the last block was connected (the carrier's per-block memo
    /// legitimately answers for these without a new RPC)
    pub sent_since_block: BTreeSet<u32>,
}

fn decrypts_to(spec: Option<&BlobSpec>, dispute: u32) -> Option<u32> {
    match spec {
        Some(BlobSpec::Enc { dispute: d, penalty, .. }) if *d == dispute => Some(*penalty),
        _ => None,
    }
}

fn is_rejected(r: SendR) -> bool {
    matches!(r, SendR::Rpc(c) if c != -27) || r == SendR::Other
}

pub fn after_op(
    g: &mut Gen,
    op: &HOp,
    out: &Outcome,
    log: &[(String, u32)],
    send: &BTreeMap<u32, SendR>,
    get: &BTreeMap<u32, GetR>,
    cur: DbRow,
) {
    let cfg = g.sys.cfg;
    let height = g.sys.height();
    // ---------------------------------------------------------------- what is persisted can be read back (C08, C03)
    for a in std::mem::take(&mut g.sys.db_anomalies) {
        g.rep.fail("C08", "persisted_value_unreadable", &format!("{a}: the tower cannot read back what it stored"));
        g.rep.fail("C03", "persisted_value_unreadable", &format!("{a}: the tower cannot restart on this database"));
    }
    // ---------------------------------------------------------------- C11: nothing aborts
    if let Outcome::Panicked(what) = out {
        let site = panic_site(what);
        g.rep.fail("C11", &format!("panic@{site}"), &format!("{} panicked: {what}", crate::towerhist::op_name(op)));
        return;
    }
    let prev = match g.mon.prev.take() {
        Some(p) => p,
        None => DbRow { users: BTreeMap::new(), appts: BTreeMap::new(), trackers: BTreeMap::new() },
    };
    let blob_spec = |g: &Gen, b: &Vec<u8>| g.sys.blobs.get(b).cloned();
    let sent_ok = |n: u32| log.iter().any(|(m, t)| m == "send" && *t == n);
    let verdict = |n: u32| send.get(&n).cloned().unwrap_or(SendR::Ok);
    let in_mempool = |n: u32| matches!(get.get(&n), Some(GetR::Mempool));

    // ---------------------------------------------------------------- C08: receipts
    match out {
        Outcome::Registered { receipt_ok: false, .. } => g.rep.fail("C08", "registration_receipt_invalid", "registration receipt does not verify with RegistrationReceipt::verify over the returned fields"),
        Outcome::Accepted { receipt_ok: false, .. } => g.rep.fail("C08", "appointment_receipt_invalid", "appointment receipt does not verify with AppointmentReceipt::verify over (user signature, start block)"),
        _ => {}
    }
    // ---------------------------------------------------------------- memory = disk (C07)
    for u in g.sys.users_seen.clone() {
        let mem = g.sys.mem_user(u);
        let dbv = cur.users.get(&u).map(|x| (x.0, x.2));
        if mem != dbv {
            g.rep.fail("C07", "memory_disk_differ", &format!("user u{u}: gatekeeper memory {mem:?} vs users table {dbv:?} (slots, expiry)"));
            g.rep.fail("C03", "state_not_durable", &format!("user u{u}: the gatekeeper holds {mem:?}, the users table {dbv:?} (slots, expiry): a restart now would change what the tower has told this user"));
        }
    }
    // ---------------------------------------------------------------- C15: a refused request changes nothing
    if matches!(op, HOp::Reg { .. } | HOp::Add { .. } | HOp::Get { .. } | HOp::Sub { .. }) && matches!(out, Outcome::MaxSlots | Outcome::Error { .. }) {
        // (an authentication or subscription error must come before any effect: C06)
        let auth = matches!(out, Outcome::Error { msg, .. } if { let m = msg.to_lowercase(); m.contains("expired") || m.contains("authentication") || m.contains("user not found") || m.contains("subscription") });
        if !same_db(&prev, &cur) {
            g.rep.fail("C15", "refused_request_changed_state", &format!("{} was refused ({out:?}) but the database changed", crate::towerhist::op_name(op)));
            if auth {
                g.rep.fail("C06", "refused_request_changed_state", &format!("{} was refused with an authentication / subscription error ({out:?}) but the database changed", crate::towerhist::op_name(op)));
            }
        }
        for u in g.sys.users_seen.clone() {
            let mem = g.sys.mem_user(u);
            let was = prev.users.get(&u).map(|x| (x.0, x.2));
            if mem != was {
                g.rep.fail("C15", "refused_request_changed_state", &format!("{} was refused ({out:?}) but the gatekeeper's record of u{u} went from {was:?} to {mem:?} (slots, expiry)", crate::towerhist::op_name(op)));
                if auth {
                    g.rep.fail("C06", "refused_request_changed_state", &format!("{} was refused with an authentication / subscription error ({out:?}) but the record of u{u} went from {was:?} to {mem:?}", crate::towerhist::op_name(op)));
                }
            }
        }
    }
    let occupied = |db: &DbRow, u: u32| -> u64 { db.appts.iter().filter(|(k, _)| k.1 == u).map(|(_, v)| slots_of(v.0.len())).sum() };

    match op {
        HOp::Reg { user } => {
            let before = prev.users.get(user).cloned();
            match out {
                Outcome::Registered { slots, start, expiry, .. } => {
                    // C08: the receipt states what was persisted
                    if cur.users.get(user) != Some(&(*slots, *start, *expiry)) {
                        g.rep.fail("C08", "registration_receipt_not_persisted", &format!("receipt ({slots},{start},{expiry}) vs users row {:?}", cur.users.get(user)));
                    }
                    // C09: renewal arithmetic
                    let want = match before {
                        None => (cfg.0 as u64, height as u64, height as u64 + cfg.1 as u64),
                        Some((s, st, e)) => (s as u64 + cfg.0 as u64, st as u64, (e as u64 + cfg.1 as u64).min(u32::MAX as u64)),
                    };
                    if (*slots as u64, *start as u64, *expiry as u64) != want {
                        g.rep.fail("C09", "registration_arithmetic", &format!("registered ({slots},{start},{expiry}), promised {want:?} (before: {before:?}, height {height})"));
                    }
                    *g.mon.granted.entry(*user).or_insert(0) += cfg.0 as u64;
                }
                Outcome::MaxSlots => {
                    if before.map_or(true, |b| b.0 as u64 + cfg.0 as u64 <= u32::MAX as u64) {
                        g.rep.fail("C09", "registration_refused", "registration refused although the balance fits");
                    }
                }
                _ => g.rep.fail("C09", "registration_failed", &format!("register answered {out:?}")),
            }
            frame_check(g, &prev, &cur, Some(*user), "C06", "register");
        }
        HOp::Add { user, sig, .. } | HOp::Get { user, sig, .. } => {
            let _ = blob_spec;
            request_checks(g, op, out, *user, sig, &prev, &cur, height);
        }
        HOp::Sub { user, sig } => request_checks(g, op, out, *user, sig, &prev, &cur, height),
        _ => {}
    }

    // ---------------------------------------------------------------- add: C01 / C02 / C07 / C08
    if let HOp::Add { user, loc, sig, .. } = op {
        if let Outcome::Accepted { start, available, expiry, .. } = out {
            // the requester is whoever the signature recovers to
            let u = if let SigKind::By(k) = sig { *k } else { *user };
            let key = (*loc, u);
            // which blob did we send? (the executor registered it)
            let sent_blob = cur.appts.get(&key).map(|a| a.0.clone());
            let before_u = prev.users.get(&u).cloned().unwrap_or((0, 0, 0));
            let after_u = cur.users.get(&u).cloned().unwrap_or((0, 0, 0));
            if *start != height {
                g.rep.fail("C08", "receipt_start_block", &format!("start_block {start}, tower height {height}"));
            }
            if *available != after_u.0 || *expiry != after_u.2 {
                g.rep.fail("C07", "wire_disk_differ", &format!("reply (slots {available}, expiry {expiry}) vs users row {after_u:?}"));
            }
            let op_blob_len = if let HOp::Add { blob, .. } = op { g.sys.build_blob(blob).0.len() } else { 0 };
            let used = prev.appts.get(&key).map(|a| slots_of(a.0.len())).unwrap_or(0) as i64;
            let req = slots_of(op_blob_len) as i64;
            if req - used > before_u.0 as i64 {
                g.rep.fail("C07", "accepted_beyond_balance", &format!("needs {req}-{used} slots, had {}", before_u.0));
            }
            if after_u.0 as i64 != before_u.0 as i64 - (req - used) {
                g.rep.fail("C07", "charge_not_diff", &format!("balance {} -> {}, required {req}, previously used {used}", before_u.0, after_u.0));
            }
            let has_row = cur.appts.contains_key(&key);
            let has_tracker = cur.trackers.contains_key(&key);
            // the dispute of this locator in the last 6 active blocks
            let tip = g.sys.chain.len();
            let in_last6 = g.sys.chain[tip.saturating_sub(6)..].iter().any(|b| b.3.contains(loc));
            let kept = 6 - g.mon.cache_deficit.min(6);
            let in_kept = g.sys.chain[tip.saturating_sub(kept)..].iter().any(|b| b.3.contains(loc));
            let spec = if let HOp::Add { blob, .. } = op { Some(g.sys.build_blob(blob).1) } else { None };
            let pen = decrypts_to(spec.as_ref(), *loc);
            if in_last6 && !prev.trackers.contains_key(&key) {
                // C01: the breach was already confirmed when the appointment was accepted
                match pen {
                    Some(p) => {
                        let tipn = g.sys.chain.len();
                        let in_index = g.sys.chain[tipn.saturating_sub(100)..].iter().any(|b| b.3.contains(&p));
                        let answered = sent_ok(p) || in_mempool(p) || in_index || g.mon.sent_since_block.contains(&p) || has_tracker;
                        // C08: a receipt for data that is neither held nor responded to needs a cause: the node refused the penalty
                        // (now, or since the last block: the carrier's memo)
                        if in_kept && !has_row && !has_tracker && !(is_rejected(verdict(p)) && (sent_ok(p) || g.mon.sent_since_block.contains(&p))) {
                            g.rep.fail("C08", "receipt_for_data_dropped_without_cause", &format!("a receipt was issued, the blob decrypts and the node does not refuse penalty t{} (verdict {:?}, asked now: {}), yet the appointment is neither held nor responded to", p * 16, verdict(p), sent_ok(p)));
                        }
                        if !answered {
                            let fp = if in_kept { "late_appointment_not_answered" } else { "late_appointment_missed_after_reorg_deficit" };
                            g.rep.fail("C01", fp, &format!("dispute t{} is in the last 6 blocks, penalty t{} neither submitted nor tracked", loc * 16, p * 16));
                            if in_kept {
                                g.rep.fail("C19", "recent_transaction_not_found_by_the_lookup", &format!("dispute t{} is in one of the six most recent blocks of the active chain (no reorg has shrunk the look-up) when its appointment arrives, yet the tower treats it as not seen: the look-up of recently confirmed transactions does not hold the most recent blocks", loc * 16));
                            }
                        } else if sent_ok(p) && verdict(p) == SendR::Ok && !has_tracker {
                            g.rep.fail("C01", "accepted_penalty_not_tracked", &format!("node took penalty t{} but no tracker", p * 16));
                        } else if sent_ok(p) && is_rejected(verdict(p)) && (has_row || has_tracker) {
                            g.rep.fail("C01", "rejected_penalty_kept", &format!("node rejected penalty t{} but the appointment is still held", p * 16));
                        }
                    }
                    None => {
                        if in_kept && has_row && !prev.appts.contains_key(&key) {
                            g.rep.fail("C01", "undecryptable_late_appointment_kept", "blob does not decrypt under the confirmed dispute but the appointment was stored");
                        }
                    }
                }
            } else if !has_row && !has_tracker {
                g.rep.fail("C08", "receipt_without_record", "receipt issued but the appointment is neither stored nor responded, and its dispute is not in the last 6 blocks");
            }
            if has_row {
                // C08: what is stored is the version this receipt is for (unless this version was dropped because it does
                // not decrypt under a dispute already confirmed: then an older version may still be there)
                let submitted = if let HOp::Add { blob, .. } = op { g.sys.build_blob(blob).0 } else { vec![] };
                let dropped_undecryptable = in_last6 && pen.is_none();
                let sub_tsd = if let HOp::Add { tsd, .. } = op { *tsd } else { 0 };
                if let Some(row) = cur.appts.get(&key) {
                    if row.0 == submitted && row.3 != *start && !dropped_undecryptable && !has_tracker {
                        g.rep.fail("C08", "stored_start_block_is_not_the_receipts", &format!("the receipt for {key:?} states start_block {start}, the row stored for this very version says {}", row.3));
                    }
                    if row.0 == submitted && row.1 != sub_tsd && !dropped_undecryptable {
                        g.rep.fail("C08", "stored_version_is_not_the_accepted_one", &format!("a receipt was returned for {key:?} with to_self_delay {sub_tsd} but the row holds to_self_delay {} (same blob): the version last accepted is not what is stored", row.1));
                    }
                }
                if let Some(stored) = sent_blob {
                    if stored != submitted && !dropped_undecryptable {
                        g.rep.fail("C08", "stored_version_is_not_the_accepted_one", &format!("a receipt was returned for a new version of {key:?} ({} bytes) but the row still holds another version ({} bytes)", submitted.len(), stored.len()));
                    }
                    if stored == submitted && !has_tracker {
                        g.mon.last_accepted.insert(key, stored);
                    }
                }
            }
            let _ = pen;
        } else {
            // a refused submission changes nothing (C06 / C15)
            if !same_db(&prev, &cur) {
                g.rep.fail("C06", "refused_request_changed_state", &format!("add answered {out:?} but the database changed"));
            }
        }
    }
    if let (HOp::Get { user, loc, sig }, Outcome::Appt { blob, .. }) = (op, out) {
        let u = if let SigKind::By(k) = sig { *k } else { *user };
        if let Some(want) = g.mon.last_accepted.get(&(*loc, u)) {
            if want != blob {
                g.rep.fail("C08", "readback_differs", "get_appointment returned a blob different from the version last accepted");
            }
        }
    }
    if matches!(op, HOp::Get { .. } | HOp::Sub { .. }) && !same_db(&prev, &cur) {
        g.rep.fail("C06", "read_request_changed_state", "a read request changed the database");
    }

    // ---------------------------------------------------------------- C02: every submission is justified
    if matches!(op, HOp::Conn { .. } | HOp::Add { .. }) {
        if let HOp::Conn { txs, .. } = op {
            for t in txs {
                g.mon.disputes_seen.insert(*t);
            }
        }
        for (m, t) in log.iter() {
            if m != "send" {
                continue;
            }
            // a tracker's penalty may be (re-)submitted at any time; its DISPUTE only when the block that confirmed
            // the penalty has just been disconnected (re-announcement after a reorg)
            let by_tracker = prev.trackers.iter().any(|(k, tr)| tr.1 == *t || (tr.0 == *t && g.mon.reorged.contains(k)));
            if !by_tracker && prev.trackers.values().any(|tr| tr.0 == *t) {
                g.rep.fail("C02", "dispute_submitted_without_reorg", &format!("sendrawtransaction(t{}) is the dispute of a tracker whose confirming block was not disconnected", t * 16));
            }
            let candidates: Vec<(&(u32, u32), &(Vec<u8>, u32, String, u32))> =
                prev.appts.iter().chain(cur.appts.iter()).collect();
            let mut by_breach = false;
            for (k, a) in candidates {
                let spec = g.sys.blobs.get(&a.0).cloned();
                if decrypts_to(spec.as_ref(), k.0) == Some(*t) && g.mon.disputes_seen.contains(&k.0) {
                    // the owner must still be held at this height
                    let owner_ok = match (op, prev.users.get(&k.1)) {
                        (HOp::Conn { .. }, Some(ui)) => (height as u64) < ui.2 as u64 + cfg.2 as u64,
                        (HOp::Conn { .. }, None) => false,
                        _ => true,
                    };
                    if owner_ok {
                        by_breach = true;
                    }
                }
            }
            // an accepted-but-dropped late appointment (rejected penalty) leaves no row: the op itself justifies it
            if let HOp::Add { loc, blob, .. } = op {
                let spec = g.sys.build_blob(blob).1;
                if decrypts_to(Some(&spec), *loc) == Some(*t) && g.mon.disputes_seen.contains(loc) && matches!(out, Outcome::Accepted { .. }) {
                    by_breach = true;
                }
            }
            if !by_tracker && !by_breach {
                g.rep.fail("C02", "unjustified_submission", &format!("sendrawtransaction(t{}) is not the penalty of a triggered, decryptable appointment of a held user, nor a tracker's dispute/penalty", t * 16));
            }
        }
        // a new tracker only after the node has (been given) the penalty
        for (k, tr) in cur.trackers.iter() {
            if prev.trackers.contains_key(k) {
                continue;
            }
            let p = tr.1;
            let given = (sent_ok(p) && verdict(p) == SendR::Ok) || in_mempool(p) || g.sys.chain.iter().any(|b| b.3.contains(&p));
            if !given {
                g.rep.fail("C02", "tracker_without_node_having_penalty", &format!("tracker {k:?} created, penalty t{} neither accepted by the node, nor in its mempool, nor confirmed", p * 16));
                g.rep.fail("C01", "responded_without_submission", &format!("{k:?} is reported as responded (tracker created) but penalty t{} was neither accepted by the node now, nor is it in the node's mempool or in the active chain", p * 16));
            }
            let spec = cur.appts.get(k).and_then(|a| g.sys.blobs.get(&a.0).cloned());
            if decrypts_to(spec.as_ref(), tr.0) != Some(p) || tr.0 != k.0 {
                g.rep.fail("C01", "tracker_wrong_data", &format!("tracker {k:?} holds (t{}, t{}), not the dispute/penalty of its appointment", tr.0 * 16, p * 16));
                // C02: reported as responded although what the node was given is not this appointment's penalty
                // (or its blob does not decrypt at all)
                g.rep.fail("C02", "responded_without_own_penalty", &format!("tracker {k:?} created with penalty t{}, which is not what the appointment's blob decrypts to under t{}", p * 16, tr.0 * 16));
                // C06: ... and it is what ANOTHER user's appointment under the same locator decrypts to: that user's
                // penalty is now readable by (and acted on for) this one
                let others = prev.appts.iter().chain(cur.appts.iter()).any(|(k2, a2)| {
                    k2.0 == k.0 && k2.1 != k.1 && decrypts_to(g.sys.blobs.get(&a2.0), tr.0) == Some(p)
                });
                if others {
                    g.rep.fail("C06", "other_users_penalty_in_tracker", &format!("tracker {k:?} of u{} carries penalty t{}, which belongs to another user's appointment under the same locator", k.1, p * 16));
                }
            }
        }
    }

    // ---------------------------------------------------------------- block connected: C01 / C04 / C07 / C09
    if let HOp::Conn { txs, .. } = op {
        let purged: BTreeSet<u32> = prev.users.iter().filter(|(_, ui)| height as u64 >= ui.2 as u64 + cfg.2 as u64).map(|(u, _)| *u).collect();
        // C09: purge exactly at expiry + grace
        for (u, ui) in prev.users.iter() {
            let still = cur.users.contains_key(u);
            if purged.contains(u) && still {
                g.rep.fail("C09", "not_purged_at_expiry_plus_grace", &format!("u{u} expiry {} grace {} still present after block {height}", ui.2, cfg.2));
            }
            if !purged.contains(u) && !still {
                g.rep.fail("C09", "purged_early", &format!("u{u} expiry {} grace {} deleted at block {height}", ui.2, cfg.2));
            }
        }
        for (k, _) in cur.appts.iter() {
            if purged.contains(&k.1) {
                g.rep.fail("C09", "purged_user_rows_left", &format!("appointment {k:?} of a purged user survives"));
            }
        }
        for u in purged.iter() {
            g.mon.granted.remove(u);
        }
        let reorged_now = g.mon.reorged.clone();
        for (k, a) in prev.appts.iter() {
            if purged.contains(&k.1) {
                continue;
            }
            let spec = g.sys.blobs.get(&a.0).cloned();
            let had_tracker = prev.trackers.get(k);
            // ---- C01: breaches in this block
            if txs.contains(&k.0) && had_tracker.is_none() {
                match decrypts_to(spec.as_ref(), k.0) {
                    None => {
                        if cur.appts.contains_key(k) {
                            g.rep.fail("C01", "undecryptable_breach_kept", &format!("{k:?}: blob does not decrypt under t{} but the appointment is still held", k.0 * 16));
                        }
                    }
                    Some(p) => {
                        let tip = g.sys.chain.len();
                        let in_index = g.sys.chain[tip.saturating_sub(101)..tip - 1].iter().any(|b| b.3.contains(&p));
                        // the carrier's memo outlives requests: a verdict obtained for this penalty since the last block
                        // connection (e.g. by a submission that arrived with the dispute already in the cache) is reused
                        let asked = sent_ok(p) || in_mempool(p) || g.mon.sent_since_block.contains(&p);
                        if !asked && !in_index && !cur.trackers.contains_key(k) {
                            g.rep.fail("C01", "breach_not_answered", &format!("{k:?}: dispute t{} in block {height}, penalty t{} not submitted", k.0 * 16, p * 16));
                        }
                        let took = in_mempool(p) || (sent_ok(p) && verdict(p) == SendR::Ok);
                        if took && !cur.trackers.contains_key(k) {
                            g.rep.fail("C01", "accepted_penalty_not_tracked", &format!("{k:?}: node has penalty t{} but no tracker", p * 16));
                        }
                        if !in_mempool(p) && !in_index && sent_ok(p) && is_rejected(verdict(p)) && cur.appts.contains_key(k) {
                            g.rep.fail("C01", "rejected_penalty_kept", &format!("{k:?}: node rejected t{} but the appointment is still held", p * 16));
                        }
                    }
                }
            }
            // ---- C01: a breach seen again (its block was reorged out, a block of the new chain confirms the dispute again)
            // is answered again: whatever the node did with the penalty meanwhile, it is asked about it or handed it anew
            if let (true, Some(tr)) = (txs.contains(&k.0), had_tracker) {
                let p = tr.1;
                let tip = g.sys.chain.len();
                let in_index = g.sys.chain[tip.saturating_sub(101)..tip - 1].iter().any(|b| b.3.contains(&p));
                let asked = log.iter().any(|(m, t)| (m == "send" || m == "get") && *t == p) || g.mon.sent_since_block.contains(&p);
                if !asked && !in_index {
                    g.rep.fail("C01", "breach_seen_again_not_answered", &format!("{k:?}: dispute t{} is confirmed again by block {height} (its tracker dates from a block that is no longer there), penalty t{} is in none of the last 100 blocks, and the node was neither asked about it nor given it", k.0 * 16, p * 16));
                }
            }
            // ---- C01: only that appointment is dropped
            if had_tracker.is_none() && !txs.contains(&k.0) && cur.appts.get(k) != Some(a) {
                g.rep.fail("C01", "unrelated_appointment_touched", &format!("{k:?} changed although its dispute is not in block {height}"));
            }
            // ---- C04
            if let Some(tr) = had_tracker {
                let (_d, p, confirmed, h) = *tr;
                let in_block = txs.contains(&p);
                let was_reorged = reorged_now.contains(k);
                let row_now = cur.trackers.get(k);
                let refunded = cur.users.get(&k.1).map(|u| u.0 as i64).unwrap_or(0) - prev.users.get(&k.1).map(|u| u.0 as i64).unwrap_or(0);
                let due = confirmed && !was_reorged && !in_block && height >= h && height - h == 100;
                // a dispute re-mined in this block makes the Watcher re-handle the breach
                let rehandled = txs.contains(&k.0);
                if due {
                    if row_now.is_some() || cur.appts.contains_key(k) {
                        g.rep.fail("C04", "not_completed_at_100", &format!("{k:?} confirmed at {h}, block {height}: still tracked"));
                    }
                } else if row_now.is_none() && !rehandled {
                    // dropped without completion: only a rejected re-submission explains it, and never with a refund
                    // (the carrier's memo lives from one block connection to the next: a refusal the node gave to a submission
                    // made since the last block — another user's late appointment with the same penalty — is answered from
                    // the memo, without a new RPC)
                    let asked = |t: u32| sent_ok(t) || g.mon.sent_since_block.contains(&t);
                    let resent_rejected = asked(p) && is_rejected(verdict(p)) || (asked(tr.0) && is_rejected(verdict(tr.0)));
                    if !resent_rejected {
                        g.rep.fail("C04", "tracker_dropped_without_cause", &format!("{k:?} (status {}:{h}) vanished at block {height}", if confirmed { 'C' } else { 'M' }));
                    }
                }
                if in_block {
                    if let Some(r) = row_now {
                        if !(r.2 && r.3 == height) {
                            g.rep.fail("C04", "confirmation_not_recorded", &format!("{k:?}: penalty mined at {height}, status {:?}", (r.2, r.3)));
                        }
                    }
                } else if was_reorged && row_now.is_some() || (was_reorged && !rehandled) {
                    // first connection after the reorg: dispute, then penalty, are re-announced
                    // (the carrier's memo lives from one block connection to the next: a transaction already submitted
                    // since then — by a submission that took the triggered path in between — is not submitted again)
                    if !sent_ok(tr.0) && !g.mon.sent_since_block.contains(&tr.0) {
                        g.rep.fail("C04", "reorged_dispute_not_resubmitted", &format!("{k:?}: confirming block disconnected, dispute t{} not re-sent at {height}", tr.0 * 16));
                    } else if !is_rejected(verdict(tr.0)) && !sent_ok(p) && !g.mon.sent_since_block.contains(&p) {
                        g.rep.fail("C04", "reorged_penalty_not_resubmitted", &format!("{k:?}: penalty t{} not re-sent at {height}", p * 16));
                    }
                } else if !confirmed && !was_reorged && height >= h + 6 && !rehandled {
                    if !sent_ok(p) && !g.mon.sent_since_block.contains(&p) {
                        g.rep.fail("C04", "stale_penalty_not_rebroadcast", &format!("{k:?}: in mempool since {h}, block {height}, no re-submission"));
                    }
                } else if !confirmed && !was_reorged && height < h + 6 && !rehandled && sent_ok(p) && !prev.trackers.iter().any(|(k2, t2)| k2 != k && t2.1 == p) {
                    g.rep.fail("C04", "rebroadcast_too_early", &format!("{k:?}: in mempool since {h}, re-sent at {height}"));
                }
                // refund only on completion
                let others_completed: i64 = prev.trackers.iter().filter(|(k2, t2)| k2.1 == k.1 && *k2 != k && t2.2 && !reorged_now.contains(*k2) && !txs.contains(&t2.1) && height >= t2.3 && height - t2.3 == 100)
                    .map(|(k2, _)| prev.appts.get(k2).map(|a| slots_of(a.0.len()) as i64).unwrap_or(0)).sum();
                let own = if due { slots_of(a.0.len()) as i64 } else { 0 };
                if refunded != own + others_completed {
                    g.rep.fail("C04", "refund_mismatch", &format!("u{}: balance changed by {refunded} at block {height}, completions are worth {}", k.1, own + others_completed));
                    g.rep.fail("C07", "refund_not_for_a_completion", &format!("u{}: balance changed by {refunded} at block {height}, the trackers that reached 100 confirmations are worth {} (only irrevocably resolved trackers are refunded)", k.1, own + others_completed));
                }
            }
        }
        // confirmed only in a block of the active chain (once the update has been processed)
        for (k, tr) in cur.trackers.iter() {
            if tr.2 && false {
                let ok = g.sys.chain.iter().any(|b| b.2 == tr.3 && b.3.contains(&tr.1));
                if !ok {
                    g.rep.fail("C04", "confirmed_in_non_active_block", &format!("{k:?}: recorded as confirmed at {} but the active block at that height does not contain t{}", tr.3, tr.1 * 16));
                }
            }
        }
        g.mon.reorged.clear();
        g.mon.cache_deficit = g.mon.cache_deficit.saturating_sub(1);
        g.mon.index_deficit = g.mon.index_deficit.saturating_sub(1);
    }
    if let HOp::Disc = op {
        // `height` is already the parent's: the disconnected block had height + 1
        for (k, tr) in cur.trackers.iter() {
            if tr.2 && tr.3 == height + 1 {
                g.mon.reorged.insert(*k);
            }
        }
        g.mon.cache_deficit = (g.mon.cache_deficit + 1).min(6);
        g.mon.index_deficit = (g.mon.index_deficit + 1).min(100);
        if !same_db(&prev, &cur) {
            g.rep.fail("C04", "disconnect_changed_database", "block_disconnected changed the database");
        }
    }

    if let HOp::Restart = op {
        // C03: a restart finds what the tower held, and changes nothing
        if !same_db(&prev, &cur) {
            g.rep.fail("C03", "restart_changed_database", "stopping and starting the tower on the same data directory changed the database");
            // C09: a user inside the grace period is still a user after a restart
            for (u, ui) in prev.users.iter() {
                if !cur.users.contains_key(u) && (height as u64) < ui.2 as u64 + cfg.2 as u64 {
                    g.rep.fail("C09", "purged_early", &format!("u{u} (expiry {}, grace {}) is gone after a restart at height {height}", ui.2, cfg.2));
                }
            }
        }
        // the caches are rebuilt from the last blocks, the carrier's memo is gone
        g.mon.cache_deficit = 0;
        g.mon.index_deficit = 0;
        g.mon.sent_since_block.clear();
    }

    // confirmed only in a block of the active chain (once a chain update has been processed;
    // trackers whose confirming block was just disconnected are exempt until the next connection)
    if matches!(op, HOp::Conn { .. } | HOp::Add { .. }) {
        for (k, tr) in cur.trackers.iter() {
            if tr.2 && !g.mon.reorged.contains(k) {
                let ok = g.sys.chain.iter().any(|b| b.2 == tr.3 && b.3.contains(&tr.1));
                if !ok && (matches!(op, HOp::Conn { .. }) || !prev.trackers.contains_key(k)) {
                    g.rep.fail("C04", "confirmed_in_non_active_block", &format!("{k:?}: recorded as confirmed at {} but the active block at that height does not contain t{}", tr.3, tr.1 * 16));
                }
                // a tracker that starts out confirmed got block and height from the responder's 100-block index
                if !ok && !prev.trackers.contains_key(k) {
                    g.rep.fail("C19", "index_reported_a_block_or_height_off_the_active_chain", &format!("{k:?}: the responder's index placed t{} at height {}, where the active chain does not have it", tr.1 * 16, tr.3));
                }
            }
        }
    }
    // the carrier's memo lives from one block connection to the next
    if matches!(op, HOp::Conn { .. }) {
        g.mon.sent_since_block.clear();
    } else {
        for (m, t) in log.iter() {
            if m == "send" {
                g.mon.sent_since_block.insert(*t);
            }
        }
    }
    // ---------------------------------------------------------------- C07: conservation
    for (u, ui) in cur.users.iter() {
        let g_u = *g.mon.granted.get(u).unwrap_or(&0);
        let total = ui.0 as u64 + occupied(&cur, *u);
        if total > g_u {
            g.rep.fail("C07", "slots_created", &format!("u{u}: available {} + occupied {} > granted {g_u}", ui.0, occupied(&cur, *u)));
        }
        if let Some(pu) = prev.users.get(u) {
            let before = pu.0 as u64 + occupied(&prev, *u);
            let rows_gone = prev.appts.keys().any(|k| k.1 == *u && !cur.appts.contains_key(k));
            let reg = matches!((op, out), (HOp::Reg { user }, Outcome::Registered { .. }) if user == u);
            let accepted_add = matches!((op, out), (HOp::Add { user, sig, .. }, Outcome::Accepted { .. }) if (if let SigKind::By(k) = sig { k } else { user }) == u);
            let want = before + if reg { cfg.0 as u64 } else { 0 };
            if total != want && !(total < want && (rows_gone || accepted_add)) {
                g.rep.fail("C07", "slots_not_conserved", &format!("u{u}: available+occupied {before} -> {total} over {}", crate::towerhist::op_name(op)));
            }
        }
    }
    g.mon.prev = Some(cur);
}

fn same_db(a: &DbRow, b: &DbRow) -> bool {
    a.users == b.users && a.appts == b.appts && a.trackers == b.trackers
}

/// nothing owned by anybody but `actor` changed
fn frame_check(g: &mut Gen, prev: &DbRow, cur: &DbRow, actor: Option<u32>, prop: &str, what: &str) {
    let users_a: BTreeMap<_, _> = prev.users.iter().filter(|(u, _)| Some(**u) != actor).collect();
    let users_b: BTreeMap<_, _> = cur.users.iter().filter(|(u, _)| Some(**u) != actor).collect();
    let ap_a: BTreeMap<_, _> = prev.appts.iter().filter(|(k, _)| Some(k.1) != actor).collect();
    let ap_b: BTreeMap<_, _> = cur.appts.iter().filter(|(k, _)| Some(k.1) != actor).collect();
    let tr_a: BTreeMap<_, _> = prev.trackers.iter().filter(|(k, _)| Some(k.1) != actor).collect();
    let tr_b: BTreeMap<_, _> = cur.trackers.iter().filter(|(k, _)| Some(k.1) != actor).collect();
    if users_a != users_b || ap_a != ap_b || tr_a != tr_b {
        g.rep.fail(prop, "other_users_data_changed", &format!("{what} by {actor:?} changed another user's record, appointments or trackers"));
    }
}

fn request_checks(g: &mut Gen, op: &HOp, out: &Outcome, user: u32, sig: &SigKind, prev: &DbRow, cur: &DbRow, height: u32) {
    // who does the signature recover to, over exactly the message the request defines?
    // (the executor printed it; recompute the essentials here)
    let success = matches!(out, Outcome::Accepted { .. } | Outcome::Appt { .. } | Outcome::Tracker { .. } | Outcome::Subscription { .. });
    let notfound = matches!(out, Outcome::Error { grpc_code, .. } if *grpc_code == tonic::Code::NotFound as i32);
    let signer: Option<u32> = match sig {
        SigKind::Valid => Some(user),
        SigKind::By(k) => Some(*k),
        _ => None, // recovers to nobody we know, or not at all
    };
    let registered = signer.and_then(|s| prev.users.get(&s).cloned());
    if success || notfound {
        match registered {
            None => g.rep.fail("C06", "unauthenticated_request_served", &format!("{op:?} served although the signature does not recover to a registered user")),
            Some(ui) => {
                if height >= ui.2 {
                    g.rep.fail("C09", "served_after_expiry", &format!("request served at height {height}, expiry {}", ui.2));
                    g.rep.fail("C06", "served_after_expiry", &format!("{op:?} was served at height {height} although the subscription of its signer ended at {}: the expiry check comes before any effect", ui.2));
                }
            }
        }
    } else if let Outcome::Error { msg, .. } = out {
        if let Some(ui) = registered {
            if height >= ui.2 {
                if *msg != format!("Your subscription expired at {}", ui.2) {
                    g.rep.fail("C09", "expired_error_wrong", &format!("expired subscription (expiry {}), answer: {msg}", ui.2));
                }
            } else if msg.starts_with("Your subscription expired") {
                g.rep.fail("C09", "refused_before_expiry", &format!("height {height} < expiry {} but: {msg}", ui.2));
            } else if matches!(op, HOp::Get { .. } | HOp::Sub { .. }) {
                g.rep.fail("C06", "valid_request_refused", &format!("valid request refused: {msg}"));
            }
        }
    }
    // isolation: whatever the outcome, nobody else's data moved; replies carry only the signer's data
    let actor = signer.filter(|s| prev.users.contains_key(s));
    frame_check(g, prev, cur, actor, "C06", "request");
    match (out, actor) {
        (Outcome::Subscription { locs, slots, expiry }, Some(a)) => {
            let own: BTreeSet<u32> = cur.appts.keys().filter(|k| k.1 == a).map(|k| k.0).collect();
            let got: BTreeSet<u32> = locs.iter().cloned().collect();
            if own != got {
                g.rep.fail("C06", "subscription_info_foreign_data", &format!("locators {got:?} vs own {own:?}"));
            }
            if cur.users.get(&a).map(|u| (u.0, u.2)) != Some((*slots, *expiry)) {
                g.rep.fail("C07", "wire_disk_differ", "get_subscription_info differs from the users row");
            }
        }
        (Outcome::Appt { blob, tsd }, Some(a)) => {
            if let HOp::Get { loc, .. } = op {
                match cur.appts.get(&(*loc, a)) {
                    Some(row) if row.0 == *blob && row.1 == *tsd => {}
                    _ => g.rep.fail("C06", "appointment_foreign_data", "get_appointment returned data that is not the requester's stored appointment"),
                }
            }
        }
        (Outcome::Tracker { dispute, penalty }, Some(a)) => {
            if let HOp::Get { loc, .. } = op {
                match cur.trackers.get(&(*loc, a)) {
                    Some(row) if row.0 == *dispute && row.1 == *penalty => {}
                    _ => g.rep.fail("C06", "tracker_foreign_data", "get_appointment returned a tracker that is not the requester's"),
                }
            }
        }
        _ => {}
    }
}
