//! Block and transaction builders (regtest-trivial proof of work), validated through
//! lightning-block-sync exactly as teosd does.

use bitcoin::block::{Block, Header};
use bitcoin::blockdata::script::{Builder, ScriptBuf};
use bitcoin::blockdata::transaction::{OutPoint, Transaction, TxIn, TxOut};
use bitcoin::hash_types::{BlockHash, Txid};
use bitcoin::hashes::Hash;
use bitcoin::merkle_tree::calculate_root;
use bitcoin::{Amount, Witness};
use lightning_block_sync::poll::{Validate, ValidatedBlock};
use lightning_block_sync::BlockData;

/// A deterministic, distinct transaction per `(tag, pad)`; `pad` extra bytes in an OP_RETURN-like
/// output let the caller control the serialized size.
pub fn mk_tx(tag: u64, pad: usize) -> Transaction {
    let mut prev = [0u8; 32];
    prev[..8].copy_from_slice(&tag.to_be_bytes());
    prev[8] = 0xA5;
    let mut outs = vec![TxOut {
        script_pubkey: Builder::new().push_int(1).into_script(),
        value: Amount::from_sat(1000 + (tag % 1000)),
    }];
    if pad > 0 {
        outs.push(TxOut {
            script_pubkey: ScriptBuf::from_bytes(vec![0x6a; pad]),
            value: Amount::from_sat(0),
        });
    }
    Transaction {
        version: bitcoin::transaction::Version(2),
        lock_time: bitcoin::locktime::absolute::LockTime::from_height(0).unwrap(),
        input: vec![TxIn {
            previous_output: OutPoint::new(Txid::from_slice(&prev).unwrap(), (tag % 7) as u32),
            script_sig: ScriptBuf::new(),
            witness: Witness::new(),
            sequence: bitcoin::Sequence(0),
        }],
        output: outs,
    }
}

pub fn genesis_hash() -> BlockHash {
    BlockHash::from_slice(&[0x11; 32]).unwrap()
}

/// Builds a block on `prev`. `salt` makes sibling blocks with the same content differ.
pub fn mk_block(prev: BlockHash, salt: u32, mut txs: Vec<Transaction>) -> Block {
    if txs.is_empty() {
        // a block always has a coinbase; make it unique per (prev, salt)
        let mut t = 0u64;
        for b in prev.to_byte_array()[..6].iter() {
            t = (t << 8) | *b as u64;
        }
        txs.push(mk_tx(0xC0DE_0000_0000_0000 | ((t ^ (salt as u64) << 40) & 0xFFFF_FFFF_FFFF), 0));
    }
    let bits = bitcoin::Target::from_be_bytes([0xff; 32]).to_compact_lossy();
    let hashes = txs.iter().map(|tx| tx.compute_txid().to_raw_hash());
    let mut header = Header {
        version: bitcoin::block::Version::from_consensus(0),
        prev_blockhash: prev,
        merkle_root: calculate_root(hashes).unwrap().into(),
        time: 1_600_000_000 + salt,
        bits,
        nonce: 0,
    };
    while header.validate_pow(header.target()).is_err() {
        header.nonce += 1;
    }
    Block { header, txdata: txs }
}

pub fn validated(block: &Block) -> ValidatedBlock {
    BlockData::FullBlock(block.clone())
        .validate(block.block_hash())
        .expect("block validates")
}
