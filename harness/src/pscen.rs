//! Binary-level scenarios for C05 / C13 / C14: the real `watchtower-client` process, fake towers with
//! a scripted behaviour, notifications, manual retries, abandons, SIGKILL + restart. After every
//! event the client is left to reach a stable state, which is printed (and later compared with the
//! Lean model) and checked by property monitors that do not depend on the model.

use std::collections::{BTreeMap, BTreeSet};
use std::sync::{Arc, Mutex};
use std::time::{Duration, Instant};

use crate::plugin::{AddMode, CallErr, RegMode};
use crate::pworld::{PWorld, View};
use crate::report::Report;
use crate::rng::Rng;

#[derive(Clone, Debug)]
pub enum PEv {
    Register(u32),
    Notify(u32),
    Add(u32, AddMode),
    /// the next add_appointment request to the tower is answered that way, then `Add` applies again
    AddOnce(u32, AddMode),
    Reg(u32, RegMode),
    Down(u32, bool),
    Retry(u32),
    Abandon(u32),
    Restart,
    /// release the held add_appointment requests of a tower as if it answered in that mode (which it keeps)
    Release(u32, AddMode),
    /// a revocation arrives while the tower refuses connections; before the retrier's next attempt the tower
    /// is back but holds every request: the retrier is left running, blocked
    HoldAfter(u32, u32),
    /// (auto-retry scenarios) wait until the tower is reachable with nothing pending, at most that many seconds
    AwaitDelivered(u32, u32),
    /// (auto-retry scenarios) wait until the tower is shown with that status, at most that many seconds
    AwaitStatus(u32, &'static str, u32),
    /// (chaos scenarios) wait that many milliseconds, then SIGKILL the client and start it again at once
    KillAfter(u32),
    /// (chaos scenarios) just wait
    Pause(u32),
    /// (chaos scenarios) from now on the client's file lets ONE more write to the appointment tables through and refuses
    /// the next, as if the process had been killed between two durable writes of one logical step; lifted by the next restart
    KillAtSecondWrite,
    /// (auto-retry scenarios) the tower, down with data pending, comes back; the moment it has acknowledged everything
    /// that was pending (its retrier has just finished, the manager has not looked yet) it goes down again, a new
    /// revocation arrives, and it comes back for good
    NotifyJustAfterDelivery(u32, u32),
}

fn add_tok(m: &AddMode) -> &'static str {
    match m {
        AddMode::ApiErr(1) => "reject:1",
        AddMode::ApiErr(2) => "reject:2",
        AddMode::ApiErr(3) => "reject:3",
        AddMode::ApiErr(4) => "reject:4",
        AddMode::ApiErr(5) => "reject:5",
        AddMode::ApiErr(6) => "reject:6",
        AddMode::ApiErr(32) => "reject:32",
        AddMode::ApiErr(33) => "reject:33",
        AddMode::ApiErr(34) => "reject:34",
        AddMode::ApiErr(36) => "reject:36",
        AddMode::ApiErr(65) => "reject:65",
        AddMode::ApiErr(255) => "reject:255",
        AddMode::ApiErr(_) => "reject:other",
        AddMode::Accept => "accept",
        AddMode::SubErr => "suberr",
        AddMode::Reject => "reject",
        AddMode::NonJson => "nonjson",
        AddMode::WrongShape => "wrongshape",
        AddMode::Empty => "empty",
        AddMode::BadSig => "badsig",
        AddMode::MalformedSig => "malformedsig",
        AddMode::Hold => "hold",
        AddMode::SubErrUntilReg => "suberr-until-reg",
    }
}
fn reg_tok(m: &RegMode) -> &'static str {
    match m {
        RegMode::Accept => "accept",
        RegMode::Same => "same",
        RegMode::SameExpiry => "sameexpiry",
        RegMode::BadSig => "badsig",
        // (for the client a receipt for somebody else is a receipt that does not verify for it)
        RegMode::OtherUser => "badsig",
        // (for the client: more slots, an expiry that does not move forward)
        RegMode::LowerExpiry => "sameexpiry",
        RegMode::NonJson => "nonjson",
        RegMode::ApiError => "apierror",
    }
}

impl PEv {
    pub fn line(&self) -> String {
        match self {
            PEv::Register(t) => format!("pl register {t}"),
            PEv::Notify(l) => format!("pl notify {l}"),
            PEv::Add(t, m) => format!("pl add {t} {}", add_tok(m)),
            PEv::AddOnce(t, m) => format!("pl once {t} {}", add_tok(m)),
            PEv::Reg(t, m) => format!("pl reg {t} {}", reg_tok(m)),
            PEv::Down(t, d) => format!("pl down {t} {}", *d as u8),
            PEv::Retry(t) => format!("pl retry {t}"),
            PEv::Abandon(t) => format!("pl abandon {t}"),
            PEv::Restart => "pl restart".into(),
            PEv::Release(t, m) => format!("pl release {t} {}", add_tok(m)),
            PEv::HoldAfter(t, l) => format!("pl holdafter {t} {l}"),
            PEv::AwaitDelivered(t, s) => format!("pl await {t} {s}"),
            PEv::AwaitStatus(t, st, s) => format!("pl awaitstatus {t} {st} {s}"),
            PEv::KillAfter(ms) => format!("pl killafter {ms}"),
            PEv::Pause(ms) => format!("pl pause {ms}"),
            PEv::KillAtSecondWrite => "pl killatsecondwrite".into(),
            PEv::NotifyJustAfterDelivery(t, l) => format!("pl notifyjustafterdelivery {t} {l}"),
        }
    }
}

pub enum Rec {
    Line(String, String),
    Fail(&'static str, String, String),
    Count(String),
}

pub struct Scenario {
    pub name: String,
    pub towers: u32,
    /// (max retry time, auto retry delay, max retry interval)
    pub opts: (u32, u32, u32),
    pub events: Vec<PEv>,
}

fn err_class(e: &CallErr) -> String {
    match e {
        CallErr::Timeout => "timeout".into(),
        CallErr::Died => "died".into(),
        CallErr::Rpc(m) => {
            let m = m.to_lowercase();
            if m.contains("already being retried") {
                "err-being-retried".into()
            } else if m.contains("must be unreachable") {
                "err-status".into()
            } else if m.contains("unknown tower") || m.contains("cannot find") {
                "err-unknown".into()
            } else if m.contains("bad signature") {
                "err-badsig".into()
            } else if m.contains("not higher") {
                "err-expiry".into()
            } else if m.contains("more slots") {
                "err-slots".into()
            } else if m.contains("connection refused") || m.contains("cannot connect") {
                "err-connection".into()
            } else if m.contains("unexpected response body") {
                "err-body".into()
            } else {
                format!("err-other")
            }
        }
    }
}

struct Ghost {
    /// (tower, locator) the client was notified of while the tower was registered and not misbehaving
    due: BTreeSet<(u32, u32)>,
    /// towers flagged misbehaving, with the number of add_appointment requests they had received then
    flagged: BTreeMap<u32, usize>,
    /// the registration receipts in the file after the previous event
    regs: BTreeSet<(u32, u32, u32, u32, u32)>,
}

/// stable = nothing changes for a while; a tower that is "temporary unreachable" (or has a subscription
/// error) may have a retrier at work: give it the whole back-off budget before calling it stable
fn settle(w: &mut PWorld) -> Option<View> {
    let budget = Duration::from_secs(w.plugin.opts.0 as u64) + Duration::from_millis(3500);
    let t0 = Instant::now();
    let mut last: Option<View> = None;
    let mut since = Instant::now();
    loop {
        let v = w.view().ok();
        if v != last {
            last = v;
            since = Instant::now();
        } else if let Some(cur) = &last {
            let busy = cur.towers.iter().any(|(t, tv)| (tv.status == "tu" || tv.status == "se") && w.towers[*t as usize].st.lock().unwrap().held.is_empty());
            let need = if busy { budget } else { Duration::from_millis(1600) };
            if since.elapsed() >= need {
                return last;
            }
        }
        if t0.elapsed() > Duration::from_secs(40) {
            return None;
        }
        std::thread::sleep(Duration::from_millis(150));
    }
}

fn healthy(w: &PWorld, t: u32) -> bool {
    let s = w.towers[t as usize].st.lock().unwrap();
    !s.down && s.add == AddMode::Accept && s.reg == RegMode::Accept
}

fn monitors(w: &mut PWorld, g: &mut Ghost, ev: &PEv, reply: &str, view: &View, timed: bool, out: &mut Vec<Rec>) {
    // ---- C14: the client answers and stays alive whatever the towers reply
    if reply == "timeout" || reply == "died" {
        let mode: Vec<String> = w.towers.iter().map(|t| format!("{:?}", t.st.lock().unwrap().add)).collect();
        out.push(Rec::Fail("C14", format!("no_answer:{}", ev.line().split(' ').nth(1).unwrap_or("")), format!("`{}` got no answer ({reply}); tower modes {mode:?}; plugin alive = {}", ev.line(), w.plugin.alive())));
    }
    if !w.plugin.alive() {
        out.push(Rec::Fail("C14", "plugin_died".into(), format!("the plugin process is gone after `{}`", ev.line())));
        return;
    }
    // ---- C14: a register reply that is not a receipt of the tower for this client records nothing
    if let PEv::Register(t) = ev {
        let (mode, down) = { let st = w.towers[*t as usize].st.lock().unwrap(); (st.reg.clone(), st.down) };
        if !down && matches!(mode, RegMode::BadSig | RegMode::OtherUser | RegMode::LowerExpiry | RegMode::NonJson | RegMode::ApiError) {
            let new: Vec<_> = view.rows.regs.iter().filter(|r| r.0 == *t && !g.regs.contains(*r)).collect();
            if reply == "ok" || !new.is_empty() {
                out.push(Rec::Fail("C14", "bad_registration_recorded".into(), format!("tower {t} answered `register` with {mode:?} (not a receipt it signed for this client) but the command answered `{reply}` and the file gained {new:?}")));
            }
        }
    }
    g.regs = view.rows.regs.clone();
    // ---- C05: every due (tower, locator) is durably accepted, pending or invalid
    for (t, l) in g.due.iter() {
        let acc = view.rows.rcpts.contains_key(&(*t, *l));
        let pen = view.rows.pend.contains(&(*t, *l));
        let inv = view.rows.inval.contains(&(*t, *l));
        let n = acc as u32 + pen as u32 + inv as u32;
        if n == 0 {
            out.push(Rec::Fail("C05", "appointment_lost".into(), format!("locator {l} was notified while tower {t} was registered, but after `{}` it is neither accepted, pending nor invalid for that tower: {}", ev.line(), view.line())));
        } else if n > 1 {
            let which = format!("{}{}{}", if acc { "accepted+" } else { "" }, if pen { "pending+" } else { "" }, if inv { "invalid" } else { "" });
            out.push(Rec::Fail("C05", format!("recorded_twice:{}", which.trim_end_matches('+')), format!("locator {l} / tower {t} is recorded as {which} at a stable point after `{}`", ev.line())));
        }
        if (pen || inv) && !view.rows.bodies.contains_key(l) {
            out.push(Rec::Fail("C05", "reference_without_data".into(), format!("locator {l} / tower {t}: pending or invalid without the appointment data")));
        }
    }
    // ---- C14: a misbehaving tower is flagged, the proof persisted, and nothing more is sent to it
    for (t, tv) in view.towers.iter() {
        if tv.status == "m" {
            if !view.rows.proofs.contains_key(t) {
                out.push(Rec::Fail("C14", "misbehaving_without_proof".into(), format!("tower {t} is shown misbehaving but no proof is stored")));
            }
            let n = w.towers[*t as usize].requests("add_appointment");
            let first = *g.flagged.entry(*t).or_insert(n);
            if n > first {
                out.push(Rec::Fail("C14", "sent_to_misbehaving_tower".into(), format!("tower {t} received {} more add_appointment requests after it was flagged", n - first)));
            }
        } else if view.rows.proofs.contains_key(t) {
            out.push(Rec::Fail("C14", "proof_but_not_misbehaving".into(), format!("a proof is stored for tower {t} but it is shown `{}`", tv.status)));
        }
    }
    // ---- C13: the status is truthful at stable points
    for (t, tv) in view.towers.iter() {
        if tv.status == "r" && !tv.pending.is_empty() {
            out.push(Rec::Fail("C13", "reachable_with_pending".into(), format!("tower {t} is shown reachable at a stable point although {:?} is still pending (nothing will deliver it before a restart)", tv.pending)));
        }
        let db_pending: BTreeSet<u32> = view.rows.pend.iter().filter(|r| r.0 == *t).map(|r| r.1).collect();
        if db_pending != tv.pending {
            out.push(Rec::Fail("C13", "pending_listing_differs_from_store".into(), format!("tower {t}: listtowers pending {:?}, stored {:?}", tv.pending, db_pending)));
        }
        // C05: the summary the handler consults ("has this tower already answered for this appointment?") is what
        // the file says: otherwise a repeated notification records the appointment a second time, or loses it
        let db_invalid: BTreeSet<u32> = view.rows.inval.iter().filter(|r| r.0 == *t).map(|r| r.1).collect();
        if tv.status != "m" && (db_pending != tv.pending || db_invalid != tv.invalid) {
            out.push(Rec::Fail("C05", "summary_differs_from_store".into(), format!("tower {t}: in memory pending {:?} invalid {:?}, in the file pending {:?} invalid {:?}", tv.pending, tv.invalid, db_pending, db_invalid)));
        }
        if tv.status == "tu" && tv.pending.is_empty() {
            // flagged by a failed registertower / getappointment: nothing is pending, the next revocation starts a
            // retrier which settles the status; not a retry loop
            out.push(Rec::Count("note:temporary-unreachable-with-nothing-pending".into()));
        } else if tv.status == "tu" && !timed && w.towers[*t as usize].st.lock().unwrap().held.is_empty() {
            out.push(Rec::Fail("C13", "stuck_temporary_unreachable".into(), format!("tower {t} stays `temporary unreachable` for longer than the whole retry budget after `{}`: a retrier is stuck (or spinning)", ev.line())));
            // C14: ... and the tower does answer (it is not down, it holds nothing): it is one of its replies that keeps
            // the retrier from ever finishing
            let (down, mode) = { let s = w.towers[*t as usize].st.lock().unwrap(); (s.down, format!("{:?}", s.add)) };
            if !down {
                out.push(Rec::Fail("C14", "retrier_wedged_by_reply".into(), format!("tower {t} answers every request (mode {mode}) but its retrier never finishes: still `temporary unreachable` after the whole retry budget following `{}`", ev.line())));
            }
        }
    }
    // ---- C13: a manual retry is accepted exactly in the documented states
    if let PEv::Retry(t) = ev {
        // (the gate is checked by the caller, which knows the state before the call)
        // an accepted manual retry of a tower that answers correctly — or that only insists on a renewed
        // subscription and hands one out — delivers everything that was pending: reachable, nothing pending
        let renewable = {
            let s = w.towers[*t as usize].st.lock().unwrap();
            !s.down && matches!(s.add, AddMode::Accept | AddMode::SubErrUntilReg) && s.reg == RegMode::Accept && s.once.is_empty() && s.held.is_empty()
        };
        if reply == "ok" && renewable && !timed {
            if let Some(tv) = view.towers.get(t) {
                if tv.status != "m" && (tv.status != "r" || !tv.pending.is_empty()) {
                    out.push(Rec::Fail("C13", "not_delivered_after_renewal".into(), format!("retrytower was accepted and tower {t} hands out a renewed subscription and takes appointments, yet at the next stable point it is shown `{}` with {:?} pending", tv.status, tv.pending)));
                }
            }
        }
    }
}

pub fn run_scenario(sc: &Scenario, idx: usize) -> Vec<Rec> {
    let mut out = vec![];
    let mut w = PWorld::new(&format!("{}-{idx}", sc.name), sc.towers, 21000 + (idx as u16 % 400) * 40, sc.opts);
    let mut g = Ghost { due: BTreeSet::new(), flagged: BTreeMap::new(), regs: BTreeSet::new() };
    // scenarios with a short auto-retry delay never rest (idle retriers wake up by themselves): monitors only,
    // their lines are not compared with the stable-point model
    let timed = sc.opts.1 < 100;
    out.push(Rec::Line(format!("{} new {} {} {} {}", if timed { "px" } else { "pl" }, sc.towers, sc.opts.0, sc.opts.1, sc.opts.2), if timed { "-".into() } else { "ok".into() }));
    let mut prev = w.view().unwrap_or_default();
    // towers currently told to hold their answers
    let mut holding: BTreeSet<u32> = BTreeSet::new();
    for ev in sc.events.iter() {
        // a held tower must never be asked by the notification handler itself (the hook would block): holds are
        // only set up on a tower shown reachable for a locator it has not answered, and a tower is not registered
        // while it holds
        let skip = match ev {
            PEv::HoldAfter(t, l) => {
                prev.towers.get(t).map_or(true, |tv| tv.status != "r")
                    || prev.rows.rcpts.contains_key(&(*t, *l))
                    || prev.rows.inval.contains(&(*t, *l))
                    || !holding.is_empty()
                    // the model of a held request has no one-shot reply queued in front of it
                    || !w.towers[*t as usize].st.lock().unwrap().once.is_empty()
            }
            PEv::Register(t) => holding.contains(t),
            PEv::Add(t, _) | PEv::AddOnce(t, _) | PEv::Down(t, _) => holding.contains(t),
            _ => false,
        };
        if skip {
            out.push(Rec::Line("pl nop".into(), "ok".into()));
            out.push(Rec::Count("ev:skipped".into()));
            continue;
        }
        match ev {
            PEv::HoldAfter(t, _) => {
                holding.insert(*t);
            }
            PEv::Release(t, _) => {
                holding.remove(t);
            }
            _ => {}
        }
        out.push(Rec::Count(format!("ev:{}", ev.line().split(' ').nth(1).unwrap_or(""))));
        let reply: String = match ev {
            PEv::Register(t) => match w.register(*t) {
                Ok(_) => "ok".into(),
                Err(e) => err_class(&e),
            },
            PEv::Notify(l) => {
                // due for every tower that is registered and not misbehaving when the notification arrives
                for (t, tv) in prev.towers.iter() {
                    if tv.status != "m" {
                        g.due.insert((*t, *l));
                    }
                }
                match w.notify(*l, 8) {
                    Ok(_) => "ok".into(),
                    Err(e) => err_class(&e),
                }
            }
            PEv::Add(t, m) => {
                w.set_add(*t, m.clone());
                "ok".into()
            }
            PEv::AddOnce(t, m) => {
                w.towers[*t as usize].st.lock().unwrap().once = vec![m.clone()];
                "ok".into()
            }
            PEv::Reg(t, m) => {
                w.set_reg(*t, m.clone());
                "ok".into()
            }
            PEv::Down(t, d) => {
                w.set_down(*t, *d);
                "ok".into()
            }
            PEv::Retry(t) => {
                let r = match w.retry(*t) {
                    Ok(_) => "ok".to_string(),
                    Err(e) => err_class(&e),
                };
                // documented: accepted exactly when the tower is unreachable or has a subscription error
                // and no retrier is running for it (at a stable point a retrier runs only while the tower
                // is holding one of its requests: then "already being retried" is the documented answer,
                // whatever status is shown meanwhile)
                let st = prev.towers.get(t).map(|x| x.status.clone());
                let retrier_blocked = !w.towers[*t as usize].st.lock().unwrap().held.is_empty();
                let want_ok = matches!(st.as_deref(), Some("u") | Some("se")) && !retrier_blocked;
                if retrier_blocked && r != "err-being-retried" && r != "timeout" {
                    out.push(Rec::Fail("C13", "manual_retry_gate".into(), format!("retrytower while the tower's retrier waits for an answer replied `{r}`")));
                } else if !retrier_blocked && (r == "ok") != want_ok && r != "timeout" {
                    out.push(Rec::Fail("C13", "manual_retry_gate".into(), format!("retrytower on a tower shown `{}` answered `{r}`", st.unwrap_or("unknown".into()))));
                }
                r
            }
            PEv::Abandon(t) => {
                let r = match w.abandon(*t) {
                    Ok(_) => "ok".to_string(),
                    Err(e) => err_class(&e),
                };
                if r == "ok" {
                    g.due.retain(|d| d.0 != *t);
                    g.flagged.remove(t);
                }
                r
            }
            PEv::Restart => {
                w.restart();
                "ok".into()
            }
            PEv::Release(t, m) => {
                w.set_add(*t, m.clone());
                let _ = w.towers[*t as usize].release(m.clone());
                "released".into()
            }
            PEv::HoldAfter(t, l) => {
                for (x, tv) in prev.towers.iter() {
                    if tv.status != "m" {
                        g.due.insert((*x, *l));
                    }
                }
                w.set_down(*t, true);
                let r = match w.notify(*l, 8) {
                    Ok(_) => "held".to_string(),
                    Err(e) => err_class(&e),
                };
                // back, but silent
                w.set_add(*t, AddMode::Hold);
                w.set_down(*t, false);
                let t0 = Instant::now();
                while w.towers[*t as usize].st.lock().unwrap().held.is_empty() && t0.elapsed() < Duration::from_millis(2500) {
                    std::thread::sleep(Duration::from_millis(20));
                }
                if w.towers[*t as usize].st.lock().unwrap().held.is_empty() {
                    out.push(Rec::Count("note:hold-missed".into()));
                }
                r
            }
            PEv::NotifyJustAfterDelivery(t, l) => {
                for (x, tv) in prev.towers.iter() {
                    if tv.status != "m" {
                        g.due.insert((*x, *l));
                    }
                }
                let want = w.towers[*t as usize].st.lock().unwrap().accepted.len() + prev.towers.get(t).map_or(0, |tv| tv.pending.len());
                w.set_down(*t, false);
                let t0 = Instant::now();
                while w.towers[*t as usize].st.lock().unwrap().accepted.len() < want && t0.elapsed() < Duration::from_secs(20) {
                    std::thread::sleep(Duration::from_millis(2));
                }
                if w.towers[*t as usize].st.lock().unwrap().accepted.len() < want {
                    out.push(Rec::Count("note:just-after-delivery-missed".into()));
                }
                // the retrier marks the tower reachable, then itself finished
                let t1 = Instant::now();
                while t1.elapsed() < Duration::from_secs(3) {
                    if w.plugin.call("listtowers", serde_json::json!([]), 5).ok().map_or(false, |v| v.to_string().contains("\"reachable\"")) {
                        break;
                    }
                    std::thread::sleep(Duration::from_millis(3));
                }
                std::thread::sleep(Duration::from_millis(15));
                w.set_down(*t, true);
                let r = match w.notify(*l, 8) {
                    Ok(_) => "ok".to_string(),
                    Err(e) => err_class(&e),
                };
                w.set_down(*t, false);
                r
            }
            PEv::KillAfter(ms) => {
                std::thread::sleep(Duration::from_millis(*ms as u64));
                w.restart();
                "ok".into()
            }
            PEv::Pause(ms) => {
                std::thread::sleep(Duration::from_millis(*ms as u64));
                "ok".into()
            }
            PEv::KillAtSecondWrite => {
                w.arm_second_write_fault();
                "ok".into()
            }
            PEv::AwaitStatus(t, st, secs) => {
                let t0 = Instant::now();
                let mut ok = false;
                while t0.elapsed() < Duration::from_secs(*secs as u64) {
                    if let Ok(v) = w.view() {
                        if v.towers.get(t).map_or(false, |tv| tv.status == *st) {
                            ok = true;
                            break;
                        }
                    }
                    std::thread::sleep(Duration::from_millis(100));
                }
                if ok { "reached".into() } else { "not-reached".into() }
            }
            PEv::AwaitDelivered(t, secs) => {
                let t0 = Instant::now();
                let mut ok = false;
                while t0.elapsed() < Duration::from_secs(*secs as u64) {
                    if let Ok(v) = w.view() {
                        if v.towers.get(t).map_or(false, |tv| tv.status == "r" && tv.pending.is_empty()) {
                            ok = true;
                            break;
                        }
                    }
                    std::thread::sleep(Duration::from_millis(200));
                }
                if !ok && healthy(&w, *t) {
                    out.push(Rec::Fail("C13", "not_delivered_after_recovery".into(), format!("tower {t} answers correctly again but its pending appointments were not delivered within {secs} s (retry budget {} s, auto-retry delay {} s)", sc.opts.0, sc.opts.1)));
                }
                if ok { "delivered".into() } else { "not-delivered".into() }
            }
        };
        let view = match ev {
            PEv::Add(..) | PEv::AddOnce(..) | PEv::Reg(..) | PEv::Down(..) => Some(prev.clone()),
            PEv::AwaitDelivered(..) | PEv::AwaitStatus(..) => w.view().ok(),
            _ if timed => {
                std::thread::sleep(Duration::from_millis(1200));
                w.view().ok()
            }
            _ => settle(&mut w),
        };
        let Some(view) = view else {
            // wedged (a handler died holding the state lock: nothing answers any more) or merely restless?
            match w.plugin.call("listtowers", serde_json::json!([]), 5) {
                Ok(_) => {}
                Err(e) => out.push(Rec::Fail("C14", "client_wedged".into(), format!("after `{}` the client no longer answers listtowers ({}); process alive = {}", ev.line(), err_class(&e), w.plugin.alive()))),
            }
            out.push(Rec::Fail("C13", "never_stable".into(), format!("the client did not reach a stable state within 40 s after `{}`", ev.line())));
            out.push(Rec::Line(ev.line(), format!("{reply} unstable")));
            break;
        };
        // towers flagged misbehaving are no longer due
        for (t, tv) in view.towers.iter() {
            if tv.status == "m" {
                g.due.retain(|d| d.0 != *t);
            }
        }
        let line = if matches!(ev, PEv::AwaitDelivered(..) | PEv::AwaitStatus(..)) { reply.clone() } else { format!("{reply} {}", view.line()) };
        // the event's line first, so that a failure's replay includes the event that exposed it
        let at = out.iter().rposition(|r| matches!(r, Rec::Line(..))).map_or(0, |p| p + 1);
        if timed {
            out.insert(at, Rec::Line(ev.line().replacen("pl ", "px ", 1), "-".into()));
            out.push(Rec::Count(format!("timed:{}", line.split(' ').next().unwrap_or(""))));
        } else {
            out.insert(at, Rec::Line(ev.line(), line));
        }
        monitors(&mut w, &mut g, ev, &reply, &view, timed, &mut out);
        prev = view;
        if reply == "died" {
            break;
        }
    }
    // ---- C13: no flooding: requests per tower in any one-second window
    for t in w.towers.iter() {
        let log = t.st.lock().unwrap().log.clone();
        let times: Vec<Instant> = log.iter().filter(|r| r.endpoint == "add_appointment" || r.endpoint == "register").map(|r| r.at).collect();
        let mut worst = 0;
        for (i, a) in times.iter().enumerate() {
            let n = times[i..].iter().take_while(|b| b.duration_since(*a) < Duration::from_secs(1)).count();
            worst = worst.max(n);
        }
        out.push(Rec::Count(format!("max-requests-per-second:{}", worst.min(12))));
        if worst > 8 {
            out.push(Rec::Fail("C13", "request_flood".into(), format!("tower {} received {worst} requests within one second: the retrier is not backing off", t.idx)));
        }
    }
    out
}


/// Chaos: events fired without waiting for the client to settle, kills at random instants (also in the
/// middle of a retrier's work), then the towers heal, the client is restarted and every tower retried.
/// Monitors only (the state in between depends on timing): nothing acknowledged may be lost, nothing may be
/// recorded twice once things have settled, everything must end up delivered, the client must stay alive.
pub fn run_chaos(sc: &Scenario, idx: usize) -> Vec<Rec> {
    let mut out = vec![];
    let mut w = PWorld::new(&format!("{}-{idx}", sc.name), sc.towers, 21000 + (idx as u16 % 400) * 40, sc.opts);
    let mut due: BTreeSet<(u32, u32)> = BTreeSet::new();
    out.push(Rec::Line(format!("px new {} chaos", sc.towers), "-".into()));
    let mut armed = false;
    for ev in sc.events.iter() {
        out.push(Rec::Count(format!("chaos-ev:{}", ev.line().split(' ').nth(1).unwrap_or(""))));
        out.push(Rec::Line(ev.line().replacen("pl ", "px ", 1), "-".into()));
        match ev {
            PEv::Register(t) => {
                let _ = w.register(*t);
            }
            PEv::Notify(l) => {
                // who is listed (and not flagged) right now?
                let listed: Vec<u32> = w.view().map(|v| v.towers.iter().filter(|(_, tv)| tv.status != "m").map(|(t, _)| *t).collect()).unwrap_or_default();
                match w.notify(*l, 10) {
                    Ok(_) => {
                        for t in listed {
                            due.insert((t, *l));
                        }
                    }
                    Err(e) => out.push(Rec::Fail("C14", "no_answer:notify".into(), format!("chaos: `{}` got no answer ({})", ev.line(), err_class(&e)))),
                }
            }
            PEv::Add(t, m) => w.set_add(*t, m.clone()),
            PEv::AddOnce(t, m) => w.towers[*t as usize].st.lock().unwrap().once = vec![m.clone()],
            PEv::Reg(t, m) => w.set_reg(*t, m.clone()),
            PEv::Down(t, d) => w.set_down(*t, *d),
            PEv::Retry(t) => {
                let _ = w.retry(*t);
            }
            PEv::Abandon(t) => {
                if w.abandon(*t).is_ok() {
                    due.retain(|d| d.0 != *t);
                }
            }
            PEv::Restart => w.restart(),
            PEv::KillAfter(ms) => {
                std::thread::sleep(Duration::from_millis(*ms as u64));
                w.restart();
            }
            PEv::Pause(ms) => std::thread::sleep(Duration::from_millis(*ms as u64)),
            PEv::KillAtSecondWrite => {
                w.arm_second_write_fault();
                armed = true;
            }
            _ => {}
        }
        if matches!(ev, PEv::Restart | PEv::KillAfter(_)) {
            armed = false;
        }
        // (with the write fault armed the client dies by design: that is the kill)
        if !armed && !w.plugin.alive() {
            out.push(Rec::Fail("C14", "plugin_died".into(), format!("chaos: the plugin process is gone after `{}`", ev.line())));
            return out;
        }
        // at no time may an acknowledged appointment be missing from the file
        let rows = if w.db_path().exists() { crate::client::Rows::read_lenient(&w.db_path()) } else { Default::default() };
        let flagged: BTreeSet<u32> = rows.proofs.keys().cloned().collect();
        for (t, l) in due.iter() {
            if flagged.contains(t) || !rows.towers.contains_key(t) {
                continue;
            }
            if !rows.rcpts.contains_key(&(*t, *l)) && !rows.pend.contains(&(*t, *l)) && !rows.inval.contains(&(*t, *l)) {
                out.push(Rec::Fail("C05", "appointment_lost".into(), format!("chaos: after `{}` locator {l} is neither accepted, pending nor invalid for tower {t} although its notification had been acknowledged", ev.line())));
            }
        }
    }
    // heal, restart, let everything be delivered
    // (a tower that refused an appointment keeps refusing it in the kill-between-writes scenarios: a tower that changes
    // its mind after the client died between recording the refusal and releasing the pending copy would leave the
    // appointment both invalid and accepted — see DESIGN.md, corrections log)
    let keeps_refusing = sc.name.contains("kill-between-writes-refused");
    for t in 0..sc.towers {
        w.set_down(t, false);
        if keeps_refusing {
            continue;
        }
        w.set_add(t, AddMode::Accept);
        w.set_reg(t, RegMode::Accept);
        w.towers[t as usize].st.lock().unwrap().once.clear();
    }
    w.restart();
    let _ = settle(&mut w);
    for t in 0..sc.towers {
        let _ = w.retry(t);
    }
    let Some(view) = settle(&mut w) else {
        out.push(Rec::Fail("C13", "never_stable".into(), "chaos: the client does not settle after all towers healed".into()));
        return out;
    };
    out.push(Rec::Line("px final".into(), "-".into()));
    for (t, l) in due.iter() {
        let Some(tv) = view.towers.get(t) else { continue };
        if tv.status == "m" {
            continue;
        }
        let acc = view.rows.rcpts.contains_key(&(*t, *l));
        let pen = view.rows.pend.contains(&(*t, *l));
        let inv = view.rows.inval.contains(&(*t, *l));
        let n = acc as u32 + pen as u32 + inv as u32;
        if n == 0 {
            out.push(Rec::Fail("C05", "appointment_lost".into(), format!("chaos: at the end locator {l} is not recorded for tower {t}: {}", view.line())));
        } else if n > 1 {
            out.push(Rec::Fail("C05", "recorded_twice:chaos".into(), format!("chaos: at the end locator {l} / tower {t} is recorded {n} times: {}", view.line())));
        }
        if pen {
            out.push(Rec::Fail("C13", "not_delivered_after_recovery".into(), format!("chaos: every tower answers correctly, the client was restarted and retried, but locator {l} is still pending for tower {t}: {}", view.line())));
        }
    }
    for (t, tv) in view.towers.iter() {
        if tv.status != "r" && tv.status != "m" {
            out.push(Rec::Fail("C13", "not_reachable_after_recovery".into(), format!("chaos: tower {t} answers correctly and was retried but is shown `{}`", tv.status)));
        }
    }
    out.push(Rec::Count(format!("chaos-due:{}", due.len().min(20))));
    out
}

fn chaos_scenario(rng: &mut Rng, i: usize) -> Scenario {
    use PEv::*;
    let towers = 1 + rng.below(2) as u32;
    let mut ev = vec![];
    for t in 0..towers {
        ev.push(Register(t));
    }
    let modes = [AddMode::Accept, AddMode::Accept, AddMode::SubErr, AddMode::Reject, AddMode::NonJson, AddMode::MalformedSig];
    for _ in 0..(8 + rng.below(8)) {
        let t = rng.below(towers as u64) as u32;
        match rng.weighted(&[34, 10, 8, 8, 6, 14, 10, 4]) {
            0 => ev.push(Notify(rng.below(6) as u32)),
            1 => ev.push(Add(t, rng.pick(&modes).clone())),
            2 => ev.push(Down(t, true)),
            3 => ev.push(Down(t, false)),
            4 => ev.push(Retry(t)),
            5 => ev.push(KillAfter(rng.below(1500) as u32)),
            6 => ev.push(Pause(rng.below(1200) as u32)),
            _ => ev.push(AddOnce(t, AddMode::NonJson)),
        }
    }
    Scenario { name: format!("chaos-{i}"), towers, opts: (2, 1000, 1), events: ev }
}

pub fn corpus() -> Vec<Scenario> {
    use AddMode::*;
    use PEv::*;
    let o = (2, 1000, 1);
    let sc = |name: &str, events: Vec<PEv>| Scenario { name: name.into(), towers: 2, opts: o, events };
    vec![
        sc("accept-outage-retry", vec![Register(0), Register(1), Notify(0), Down(0, true), Notify(1), Notify(2), Down(0, false), Retry(0), Notify(1), Restart]),
        sc("garbage-on-notification", vec![Register(0), Register(1), Add(0, NonJson), Notify(0), Add(0, Accept), Notify(1), Restart]),
        sc("garbage-on-retry", vec![Register(0), Down(0, true), Notify(0), Down(0, false), Add(0, WrongShape), Retry(0), Add(0, Accept), Retry(0)]),
        sc("malformed-signature-on-notification", vec![Register(0), Register(1), Add(0, MalformedSig), Notify(0), Add(0, Accept), Notify(1)]),
        sc("malformed-signature-on-retry", vec![Register(0), Down(0, true), Notify(0), Down(0, false), Add(0, MalformedSig), Retry(0), Add(0, Accept), Retry(0)]),
        sc("wrong-signer-on-notification", vec![Register(0), Register(1), Add(1, BadSig), Notify(0), Add(1, Accept), Notify(1), Restart, Notify(2)]),
        sc("wrong-signer-on-retry", vec![Register(0), Down(0, true), Notify(0), Notify(1), Down(0, false), Add(0, BadSig), Retry(0), Add(0, Accept), Notify(2), Retry(0)]),
        sc("subscription-error-renewed", vec![Register(0), Add(0, SubErr), Notify(0), Add(0, Accept), Retry(0), Notify(1)]),
        sc("subscription-error-not-renewable", vec![Register(0), Add(0, SubErr), PEv::Reg(0, RegMode::Same), Notify(0), Retry(0), Add(0, Accept), PEv::Reg(0, RegMode::Accept), Notify(1), Retry(0)]),
        sc("rejected-appointments", vec![Register(0), Register(1), Add(0, Reject), Notify(0), Down(1, true), Notify(1), Down(1, false), Add(1, Reject), Retry(1), Restart]),
        sc("duplicate-notifications", vec![Register(0), Notify(0), Notify(0), Down(0, true), Notify(1), Notify(1), Notify(0), Down(0, false), Retry(0), Restart]),
        sc("abandon-while-unreachable", vec![Register(0), Register(1), Down(0, true), Notify(0), Abandon(0), Notify(1), Register(0), Notify(2), Retry(0)]),
        sc("recovery-between-two-attempts", vec![Register(0), Down(0, true), Notify(0), Notify(1), Notify(2), Down(0, false), AddOnce(0, NonJson), Retry(0), Notify(3)]),
        sc("one-bad-reply-on-notification", vec![Register(0), Register(1), AddOnce(0, WrongShape), Notify(0), AddOnce(1, SubErr), Notify(1), Notify(2)]),
        sc("abandon-and-return-with-idle-retrier", vec![Register(0), Down(0, true), Notify(0), Abandon(0), Down(0, false), Register(0), Notify(1), Down(0, true), Notify(2), Down(0, false), Notify(3), Retry(0)]),
        sc("revocations-while-the-retrier-runs", vec![Register(0), Register(1), HoldAfter(0, 0), Notify(1), Notify(2), Retry(0), Release(0, Accept), Notify(3)]),
        sc("kill-while-the-retrier-runs", vec![Register(0), HoldAfter(0, 0), Notify(1), Restart, Notify(2), Release(0, Accept)]),
        sc("abandon-while-the-retrier-runs", vec![Register(0), Register(1), HoldAfter(0, 0), Notify(1), Abandon(0), Release(0, Accept), Notify(2), Register(0), Notify(3)]),
        sc("rejection-after-a-long-wait", vec![Register(0), HoldAfter(0, 0), Notify(1), Release(0, Reject), Notify(2), Restart]),
        sc("garbage-after-a-long-wait", vec![Register(0), HoldAfter(0, 0), Notify(1), Release(0, NonJson), Add(0, Accept), Retry(0)]),
        sc("wrong-signer-after-a-long-wait", vec![Register(0), Register(1), HoldAfter(0, 0), Notify(1), Release(0, BadSig), Notify(2)]),
        // every documented error code, on the notification path and on the retry path: all but the subscription error
        // mean "this appointment is refused" (recorded as invalid); none may wedge the retrier
        sc("error-codes-on-notification", vec![Register(0), Register(1), Add(0, ApiErr(32)), Notify(1), Add(0, ApiErr(36)), Notify(2), Add(0, ApiErr(65)), Notify(3), Add(0, ApiErr(255)), Notify(4), Add(0, Accept), Notify(5)]),
        sc("service-unavailable-on-retry", vec![Register(0), Down(0, true), Notify(1), Notify(2), Add(0, ApiErr(32)), Down(0, false), Retry(0), Add(0, Accept), Notify(3), Retry(0)]),
        sc("other-error-codes-on-retry", vec![Register(0), Down(0, true), Notify(1), Add(0, ApiErr(255)), Down(0, false), Retry(0), Down(0, true), Notify(2), Add(0, ApiErr(33)), Down(0, false), Retry(0), Down(0, true), Notify(3), Add(0, ApiErr(1)), Down(0, false), Retry(0), Restart]),
        // a tower that insists on a renewed subscription (as a real one does once the subscription has run out)
        sc("subscription-runs-out-while-down", vec![Register(0), Down(0, true), Notify(1), Add(0, SubErrUntilReg), Down(0, false), Retry(0), Notify(2)]),
        sc("subscription-runs-out-found-by-the-handler", vec![Register(0), Register(1), Add(0, SubErrUntilReg), Notify(1), Notify(2), Restart]),
        sc("subscription-runs-out-found-after-a-restart", vec![Register(0), Down(0, true), Notify(1), Notify(2), Add(0, SubErrUntilReg), Down(0, false), Restart, Notify(3)]),
        sc("subscription-runs-out-and-cannot-be-renewed", vec![Register(0), Down(0, true), Notify(1), Add(0, SubErrUntilReg), PEv::Reg(0, RegMode::NonJson), Down(0, false), Retry(0), PEv::Reg(0, RegMode::Accept), Retry(0)]),
        // one appointment held by two towers in different classes, one of the towers abandoned
        sc("abandon-one-of-two-holders-pending", vec![Register(0), Register(1), Add(0, Reject), Down(1, true), Notify(1), Abandon(1), Restart, Notify(2)]),
        sc("abandon-one-of-two-holders-invalid", vec![Register(0), Register(1), Add(0, Reject), Add(1, Reject), Notify(1), Abandon(1), Restart]),
        sc("abandon-one-of-two-holders-accepted", vec![Register(0), Register(1), Add(1, Reject), Notify(1), Down(0, true), Notify(2), Abandon(1), Restart]),
        // a tower caught lying on the retry path keeps its pending data: it must stay flagged after a restart
        sc("wrong-signer-on-retry-then-restart", vec![Register(0), Register(1), Down(0, true), Notify(1), Notify(2), Add(0, BadSig), Down(0, false), Retry(0), Restart, Notify(3), Retry(0)]),
        // a repeated revocation after more towers were registered: the towers that already answered are skipped, the
        // new ones must still get it (the client goes through its towers in the order of a hash map, which changes from
        // process to process: three towers, three runs)
        Scenario { name: "repeated-revocation-reaches-new-towers-a".into(), towers: 3, opts: o, events: vec![Register(0), Notify(0), Register(1), Register(2), Notify(0), Notify(1), Restart] },
        Scenario { name: "repeated-revocation-reaches-new-towers-b".into(), towers: 3, opts: o, events: vec![Register(1), Add(1, Reject), Notify(0), Register(0), Register(2), Notify(0), Restart] },
        Scenario { name: "repeated-revocation-reaches-new-towers-c".into(), towers: 3, opts: o, events: vec![Register(2), Notify(0), Notify(1), Register(0), Register(1), Notify(1), Notify(0), Restart] },
        // a tower caught lying on the notification path (nothing pending, no retrier) is registered again with a receipt
        // that extends the subscription: it stays flagged and is sent nothing more
        sc("misbehaving-tower-registered-again", vec![Register(0), Register(1), Add(0, BadSig), Notify(0), Add(0, Accept), Register(0), Notify(1), Restart, Register(0), Notify(2)]),
        // a tower that holds only refusals (nothing pending) across a restart: the refusals are still known afterwards, a
        // repeated revocation is not sent again, a new one is handled as usual
        sc("restart-with-only-invalid-then-repeat", vec![Register(0), Register(1), Add(0, Reject), Notify(0), Notify(1), Restart, Notify(0), Add(0, Accept), Notify(1), Notify(2), Restart]),
        sc("kill-with-pending", vec![Register(0), Register(1), Down(0, true), Notify(0), Notify(1), Restart, Down(0, false), Restart, Notify(2)]),
        // a receipt the tower signed for another user (its reply names that user): not a subscription of this client
        sc("register-reply-for-another-user", vec![Register(0), Register(1), PEv::Reg(0, RegMode::OtherUser), Register(0), Notify(0), Add(0, SubErrUntilReg), Notify(1), Retry(0), Restart, PEv::Reg(0, RegMode::Accept), Register(0), Notify(2)]),
        // a renewal whose (properly signed) receipt ends earlier than the subscription the client already holds
        sc("register-reply-with-a-lower-expiry", vec![Register(0), Register(1), PEv::Reg(0, RegMode::Accept), Register(0), PEv::Reg(0, RegMode::LowerExpiry), Register(0), Notify(0), Restart, PEv::Reg(0, RegMode::Accept), Register(0), Notify(1)]),
        sc("register-replies", vec![PEv::Reg(0, RegMode::BadSig), Register(0), PEv::Reg(0, RegMode::NonJson), Register(0), PEv::Reg(0, RegMode::ApiError), Register(0), PEv::Reg(0, RegMode::Accept), Register(0), PEv::Reg(0, RegMode::Same), Register(0), PEv::Reg(0, RegMode::SameExpiry), Register(0), Down(0, true), Register(0), Notify(0)]),
        Scenario { name: "revocation-right-after-the-retrier-finished-a".into(), towers: 1, opts: (4, 3, 1), events: vec![Register(0), Down(0, true), Notify(0), PEv::NotifyJustAfterDelivery(0, 1), AwaitDelivered(0, 16)] },
        Scenario { name: "revocation-right-after-the-retrier-finished-b".into(), towers: 1, opts: (4, 3, 1), events: vec![Register(0), Down(0, true), Notify(0), Notify(1), PEv::NotifyJustAfterDelivery(0, 2), AwaitDelivered(0, 16)] },
        Scenario { name: "revocation-right-after-the-retrier-finished-c".into(), towers: 1, opts: (4, 3, 1), events: vec![Register(0), Down(0, true), Notify(0), PEv::NotifyJustAfterDelivery(0, 1), AwaitDelivered(0, 16), Down(0, true), Notify(2), PEv::NotifyJustAfterDelivery(0, 3), AwaitDelivered(0, 16)] },
        Scenario { name: "auto-retry-delivers".into(), towers: 1, opts: (2, 3, 1), events: vec![Register(0), Down(0, true), Notify(0), Notify(1), Down(0, false), AwaitDelivered(0, 14)] },
        // a revocation that arrives while the retrier idles is only in the file: the automatic wake-up must pick it up
        Scenario { name: "revocation-while-the-retrier-idles".into(), towers: 1, opts: (2, 4, 1), events: vec![Register(0), Down(0, true), Notify(0), AwaitStatus(0, "u", 12), Notify(1), Notify(2), Down(0, false), AwaitDelivered(0, 20)] },
        Scenario { name: "auto-retry-after-subscription-error".into(), towers: 1, opts: (2, 3, 1), events: vec![Register(0), Add(0, SubErr), PEv::Reg(0, RegMode::NonJson), Notify(0), Add(0, Accept), PEv::Reg(0, RegMode::Accept), AwaitDelivered(0, 14)] },
    ]
}

fn random_scenario(rng: &mut Rng, i: usize) -> Scenario {
    use PEv::*;
    let towers = 1 + rng.below(2) as u32;
    let mut ev = vec![];
    for t in 0..towers {
        ev.push(Register(t));
    }
    let n = 5 + rng.below(6);
    let modes = [AddMode::Accept, AddMode::Accept, AddMode::SubErr, AddMode::SubErrUntilReg, AddMode::Reject, AddMode::ApiErr(32), AddMode::ApiErr(36), AddMode::ApiErr(65), AddMode::ApiErr(255), AddMode::ApiErr(1), AddMode::ApiErr(33), AddMode::NonJson, AddMode::WrongShape, AddMode::Empty, AddMode::BadSig, AddMode::MalformedSig];
    let regs = [RegMode::Accept, RegMode::Accept, RegMode::Same, RegMode::SameExpiry, RegMode::BadSig, RegMode::OtherUser, RegMode::LowerExpiry, RegMode::NonJson, RegMode::ApiError];
    for _ in 0..n {
        let t = rng.below(towers as u64) as u32;
        match rng.weighted(&[30, 12, 6, 8, 8, 10, 3, 5, 4]) {
            0 => ev.push(Notify(rng.below(4) as u32)),
            1 if rng.chance(1, 4) => ev.push(AddOnce(t, rng.pick(&[AddMode::NonJson, AddMode::WrongShape, AddMode::Empty, AddMode::MalformedSig, AddMode::SubErr]).clone())),
            1 => ev.push(Add(t, rng.pick(&modes).clone())),
            2 => ev.push(PEv::Reg(t, rng.pick(&regs).clone())),
            3 => ev.push(Down(t, true)),
            4 => ev.push(Down(t, false)),
            5 => ev.push(Retry(t)),
            6 if rng.chance(1, 2) => {
                // a retrier left running on a silent tower, things happening meanwhile, then the answer
                ev.push(HoldAfter(t, 4 + rng.below(3) as u32));
                for _ in 0..rng.below(3) {
                    match rng.below(4) {
                        0 => ev.push(Retry(t)),
                        1 => ev.push(Restart),
                        _ => ev.push(Notify(rng.below(4) as u32)),
                    }
                }
                ev.push(Release(t, rng.pick(&[AddMode::Accept, AddMode::Accept, AddMode::Reject, AddMode::NonJson, AddMode::BadSig]).clone()));
            }
            6 => ev.push(Abandon(t)),
            7 => ev.push(Restart),
            _ => ev.push(Register(t)),
        }
    }
    Scenario { name: format!("random-{i}"), towers, opts: (2, 1000, 1), events: ev }
}

pub fn run(seed: u64, thorough: bool, rep: &mut Report) {
    let mut scenarios = corpus();
    let mut rng = Rng::new(seed ^ 0x0c05);
    let n_random = if thorough { 120 } else { 16 };
    for i in 0..n_random {
        scenarios.push(random_scenario(&mut rng, i));
    }
    // the process dies between two durable writes of one logical step (emulated by the file refusing the second write):
    // on the retry path when the tower accepts, on the retry path when it refuses, on the notification path
    {
        use PEv::*;
        let f = |name: &str, towers: u32, events: Vec<PEv>| Scenario { name: format!("chaos-kill-between-writes-{name}"), towers, opts: (2, 1000, 1), events };
        scenarios.push(f("accepted-on-retry", 1, vec![Register(0), Down(0, true), Notify(0), Pause(900), KillAtSecondWrite, Down(0, false), Retry(0), Pause(1800), Restart]));
        scenarios.push(f("refused-on-retry", 1, vec![Register(0), Down(0, true), Notify(1), Pause(900), Add(0, AddMode::Reject), KillAtSecondWrite, Down(0, false), Retry(0), Pause(1800), Restart]));
        scenarios.push(f("two-pending-accepted-on-retry", 2, vec![Register(0), Register(1), Down(0, true), Notify(0), Notify(1), Pause(900), KillAtSecondWrite, Down(0, false), Retry(0), Pause(1800), Restart]));
    }
    let n_chaos = if thorough { 60 } else { 10 };
    for i in 0..n_chaos {
        scenarios.push(chaos_scenario(&mut rng, i));
    }
    let only = std::env::var("VERIF_SCENARIO").ok();
    if let Some(o) = &only {
        scenarios.retain(|s| s.name.contains(o.as_str()));
    }
    let n = scenarios.len();
    let scenarios = Arc::new(scenarios);
    let results: Arc<Mutex<BTreeMap<usize, Vec<Rec>>>> = Arc::new(Mutex::new(BTreeMap::new()));
    let next = Arc::new(Mutex::new(0usize));
    let workers = 12.min(n.max(1));
    let mut hs = vec![];
    for _ in 0..workers {
        let (scenarios, results, next) = (scenarios.clone(), results.clone(), next.clone());
        hs.push(std::thread::spawn(move || loop {
            let i = {
                let mut g = next.lock().unwrap();
                let i = *g;
                *g += 1;
                i
            };
            if i >= scenarios.len() {
                break;
            }
            let r = if scenarios[i].name.starts_with("chaos-") { run_chaos(&scenarios[i], i) } else { run_scenario(&scenarios[i], i) };
            results.lock().unwrap().insert(i, r);
        }));
    }
    for h in hs {
        let _ = h.join();
    }
    let results = std::mem::take(&mut *results.lock().unwrap());
    for (i, recs) in results {
        rep.begin_case(&scenarios[i].name);
        let mut shape = String::new();
        for r in recs {
            match r {
                Rec::Line(op, out) => {
                    shape.push_str(&format!("{}:{} ", op.split(' ').nth(1).unwrap_or(""), out.split(' ').next().unwrap_or("")));
                    rep.line(&op, &out);
                }
                Rec::Fail(p, fp, d) => rep.fail(p, &fp, &d),
                Rec::Count(k) => rep.count(&k),
            }
        }
        rep.end_case(Some(shape));
    }
}
