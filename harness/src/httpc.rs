//! C15: requests that are not the client's well-formed ones, sent as raw bytes to the real HTTP
//! API in whatever state the tower history has reached: single-fault mutations of valid bodies
//! (compared with the model), routing/size/method faults (compared), and unstructured garbage
//! (monitors only). Every non-200 answer must leave the tower untouched.

use std::time::{Duration, Instant};

use serde_json::{json, Value};

use crate::report::Report;
use crate::tower::*;
use crate::towerhist::Gen;

const DOCUMENTED: [u32; 11] = [1, 2, 3, 4, 5, 6, 7, 32, 35, 36, 65];

/// the property's requirements on one answer
pub fn check_documented(rep: &mut Report, status: u16, code: u32, json_error_expected: bool, what: &str) {
    if status == 0 {
        rep.fail("C15", "no_answer", &format!("{what}: no (complete) answer within the time-out"));
        return;
    }
    if status >= 500 && status != 503 {
        rep.fail("C15", &format!("status_{status}"), &format!("{what}: answered {status}"));
    }
    if ![200u16, 400, 401, 404, 405, 411, 413, 503].contains(&status) && status < 500 {
        rep.fail("C15", &format!("undocumented_status_{status}"), &format!("{what}: answered {status}"));
    }
    if code == 255 {
        rep.fail("C15", "unexpected_error_code_255", &format!("{what}: answered with the catch-all error code 255 (status {status})"));
    }
    if status != 200 && json_error_expected && !DOCUMENTED.contains(&code) && code != 255 {
        rep.fail("C15", "error_without_documented_code", &format!("{what}: status {status} with error code {code} (9999 = body is not a JSON error object)"));
    }
}

fn endpoint_limit(e: &str) -> usize {
    match e {
        "register" => 87,
        "add_appointment" => 2048,
        "get_appointment" => 178,
        _ => 127,
    }
}

/// a valid body for the endpoint, from the harness' own key material
fn valid_body(g: &mut Gen, endpoint: &str) -> Value {
    let user = 1 + g.rng.below(g.nusers as u64) as u32;
    let loc = g.rng.range(1, g.nlocs as u64) as u32;
    let locator = g.sys.locator(loc);
    match endpoint {
        "register" => json!({"user_id": hex::encode(teos_common::UserId(user_key(user).pk).to_vec())}),
        "add_appointment" => {
            let blob = vec![0x5au8; 40];
            let appt = teos_common::appointment::Appointment::new(locator, blob.clone(), 7);
            let sig = teos_common::cryptography::sign(&appt.to_vec(), &user_key(user).sk);
            json!({"appointment": {"locator": hex::encode(locator.to_vec()), "encrypted_blob": hex::encode(blob), "to_self_delay": 7}, "signature": sig})
        }
        "get_appointment" => {
            let sig = teos_common::cryptography::sign(format!("get appointment {locator}").as_bytes(), &user_key(user).sk);
            json!({"locator": hex::encode(locator.to_vec()), "signature": sig})
        }
        _ => json!({"signature": teos_common::cryptography::sign(b"get subscription info", &user_key(user).sk)}),
    }
}

/// where a field lives: (path into the object, kind)
fn fields(endpoint: &str) -> Vec<(Vec<&'static str>, &'static str)> {
    match endpoint {
        "register" => vec![(vec!["user_id"], "hex33")],
        "add_appointment" => vec![
            (vec!["appointment"], "object"),
            (vec!["appointment", "locator"], "hex16"),
            (vec!["appointment", "encrypted_blob"], "hex"),
            (vec!["appointment", "to_self_delay"], "u32"),
            (vec!["signature"], "string"),
        ],
        "get_appointment" => vec![(vec!["locator"], "hex16"), (vec!["signature"], "string")],
        _ => vec![(vec!["signature"], "string")],
    }
}

fn at<'a>(v: &'a mut Value, path: &[&str]) -> &'a mut Value {
    let mut cur = v;
    for p in path {
        cur = &mut cur[*p];
    }
    cur
}

/// one single-fault mutation; returns (body bytes, fault token) or None when the fault does not apply
fn mutate(g: &mut Gen, endpoint: &str) -> Option<(Vec<u8>, &'static str)> {
    let mut v = valid_body(g, endpoint);
    let fs = fields(endpoint);
    let (path, kind) = fs[g.rng.below(fs.len() as u64) as usize].clone();
    let pick = g.rng.below(15);
    let tok = match pick {
        0 => {
            // remove the key
            let (last, parent) = path.split_last().unwrap();
            at(&mut v, parent).as_object_mut().unwrap().remove(*last);
            "missing"
        }
        1 => {
            // the wrongly typed value is echoed in the error message: vary what a client can put there (long, and
            // not only ASCII: 2-, 3- and 4-byte characters at every alignment)
            let exotic = |g: &mut Gen| -> String {
                let unit = *g.rng.pick(&["\u{e9}", "\u{20ac}", "\u{1d11e}", "\u{20ac}\u{e9}"]);
                let pre = "abc"[..g.rng.below(4) as usize].to_string();
                format!("{pre}{}", unit.repeat(20 + g.rng.below(120) as usize))
            };
            *at(&mut v, &path) = match kind {
                "u32" if g.rng.chance(1, 2) => json!(exotic(g)),
                "u32" => json!("7"),
                "object" if g.rng.chance(1, 2) => json!(exotic(g)),
                "object" => json!("not an object"),
                _ => json!(42),
            };
            "type"
        }
        2 if kind.starts_with("hex") => {
            let s = at(&mut v, &path).as_str().unwrap().to_string();
            *at(&mut v, &path) = json!(format!("{s}a"));
            "hexodd"
        }
        3 if kind.starts_with("hex") => {
            let s = at(&mut v, &path).as_str().unwrap().to_string();
            let bad = *g.rng.pick(&["zz", "\u{e9}", "z\u{e9}"]);
            *at(&mut v, &path) = json!(format!("{bad}{}", &s[bad.len().min(s.len())..]));
            "hexbad"
        }
        4 if kind != "u32" && kind != "object" => {
            *at(&mut v, &path) = json!("");
            "empty"
        }
        5 if kind == "hex33" || kind == "hex16" => {
            let s = at(&mut v, &path).as_str().unwrap().to_string();
            let n = if g.rng.chance(1, 2) { s.len() - 2 } else { s.len() + 2 };
            let t: String = s.chars().chain("abab".chars()).take(n).collect();
            *at(&mut v, &path) = json!(t);
            "size"
        }
        6 if kind == "hex33" => {
            *at(&mut v, &path) = json!(format!("05{}", "11".repeat(32)));
            "notkey"
        }
        7 if kind == "u32" => {
            *at(&mut v, &path) = if g.rng.chance(1, 2) { json!(-1) } else { json!(4294967296u64) };
            "range"
        }
        8 => return Some((b"this is not json".to_vec(), "notjson")),
        9 => return Some((Vec::new(), "emptybody")),
        10 => return Some((b"[1, 2, 3]".to_vec(), "notobject")),
        11 => {
            // duplicate key: serialise by hand
            let s = serde_json::to_string(&v).unwrap();
            let key = path[0];
            let dup = format!("{{\"{key}\": {}, {}", serde_json::to_string(&v[key]).unwrap(), &s[1..]);
            return Some((dup.into_bytes(), "dupkey"));
        }
        12 | 13 => {
            // a number or an object retyped to a long string with multi-byte characters (echoed in the error message)
            let cands: Vec<_> = fs.iter().filter(|(_, k)| *k == "u32" || *k == "object").cloned().collect();
            if cands.is_empty() {
                return None;
            }
            let (path, _) = cands[g.rng.below(cands.len() as u64) as usize].clone();
            let unit = *g.rng.pick(&["\u{e9}", "\u{20ac}", "\u{1d11e}", "\u{20ac}\u{e9}"]);
            let pre = "abc"[..g.rng.below(4) as usize].to_string();
            *at(&mut v, &path) = json!(format!("{pre}{}", unit.repeat(30 + g.rng.below(100) as usize)));
            "type"
        }
        _ => {
            // an unknown extra field is ignored: the request is a valid one (model: forwarded) — not used here
            return None;
        }
    };
    Some((serde_json::to_vec(&v).unwrap(), tok))
}

fn parse_error(body: &[u8]) -> u32 {
    serde_json::from_slice::<Value>(body).ok().and_then(|v| v["error_code"].as_u64()).map(|c| c as u32).unwrap_or(9999)
}

fn send(g: &mut Gen, method: &str, path: &str, clen: Option<usize>, body: &[u8]) -> (u16, u32, Duration) {
    let front = g.sys.http.clone().unwrap();
    let mut req = format!("{method} {path} HTTP/1.1\r\nHost: 127.0.0.1\r\nContent-Type: application/json\r\nConnection: close\r\n").into_bytes();
    if let Some(n) = clen {
        req.extend(format!("Content-Length: {n}\r\n").as_bytes());
    }
    req.extend(b"\r\n");
    req.extend_from_slice(body);
    let t0 = Instant::now();
    match front.raw(&req, Duration::from_secs(6)) {
        Some(r) => {
            let code = if r.status == 200 { 0 } else { parse_error(&r.body) };
            (r.status, code, t0.elapsed())
        }
        None => (0, 0, t0.elapsed()),
    }
}

/// a few requests outside the client's repertoire, at the current point of the history
pub fn extras(g: &mut Gen) {
    let endpoints = ["register", "add_appointment", "get_appointment", "get_subscription_info"];
    let before = g.sys.dump();
    let what;
    let (status, code);
    match g.rng.weighted(&[50, 14, 8, 8, 8, 6, 6]) {
        0 => {
            // single-fault body on the right route
            let e = *g.rng.pick(&endpoints);
            let Some((body, fault)) = mutate(g, e) else { return };
            if body.len() > endpoint_limit(e) {
                return;
            }
            let r = send(g, "POST", &format!("/{e}"), Some(body.len()), &body);
            (status, code) = (r.0, r.1);
            what = format!("POST /{e} with fault `{fault}`");
            g.rep.line(&format!("ht req POST {e} {} {fault}", body.len()), &format!("{status} {}", if code == 9999 { 0 } else { code }));
            g.rep.count(&format!("fault:{fault}"));
            check_documented(g.rep, status, code, true, &what);
            if r.2 > Duration::from_secs(3) {
                g.rep.fail("C15", "slow_answer", &format!("{what}: answered after {:?}", r.2));
            }
        }
        1 => {
            // too large for the route
            let e = *g.rng.pick(&endpoints);
            let n = endpoint_limit(e) + 1 + g.rng.below(3000) as usize;
            let body = vec![b' '; n];
            let r = send(g, "POST", &format!("/{e}"), Some(n), &body);
            (status, code) = (r.0, r.1);
            what = format!("POST /{e} with a {n}-byte body");
            g.rep.line(&format!("ht req POST {e} {n} none"), &format!("{status} {}", if code == 9999 { 0 } else { code }));
            g.rep.count("route:too-large");
            check_documented(g.rep, status, code, false, &what);
        }
        2 => {
            // wrong method
            let e = *g.rng.pick(&endpoints);
            let m = *g.rng.pick(&["GET", "PUT", "DELETE"]);
            let r = send(g, m, &format!("/{e}"), Some(0), b"");
            (status, code) = (r.0, r.1);
            what = format!("{m} /{e}");
            g.rep.line(&format!("ht req {m} {e} 0 none"), &format!("{status} {}", if code == 9999 { 0 } else { code }));
            g.rep.count("route:wrong-method");
            check_documented(g.rep, status, code, false, &what);
        }
        3 => {
            // unknown path (note: the routes match a leading segment, `/register/extra` IS `/register`)
            let p = *g.rng.pick(&["/", "/registe", "/admin", "/get_all_appointments", "/register/extra"]);
            let m = *g.rng.pick(&["POST", "POST", "GET"]);
            let body = b"{}";
            let r = send(g, m, p, Some(body.len()), body);
            (status, code) = (r.0, r.1);
            what = format!("{m} {p}");
            let e = if p == "/register/extra" { "register" } else { "none" };
            g.rep.line(&format!("ht req {m} {e} {} {}", body.len(), if e == "register" && m == "POST" { "missing" } else { "none" }), &format!("{status} {}", if code == 9999 { 0 } else { code }));
            g.rep.count("route:unknown-path");
            check_documented(g.rep, status, code, false, &what);
        }
        4 => {
            // no Content-Length
            let e = *g.rng.pick(&endpoints);
            let r = send(g, "POST", &format!("/{e}"), None, b"");
            (status, code) = (r.0, r.1);
            what = format!("POST /{e} without Content-Length");
            g.rep.line(&format!("ht req POST {e} - none"), &format!("{status} {}", if code == 9999 { 0 } else { code }));
            g.rep.count("route:no-content-length");
            check_documented(g.rep, status, code, false, &what);
        }
        5 => {
            // ping
            let m = *g.rng.pick(&["GET", "GET", "POST"]);
            let r = send(g, m, "/ping", Some(0), b"");
            (status, code) = (r.0, r.1);
            what = format!("{m} /ping");
            g.rep.line(&format!("ht req {m} ping 0 none"), &format!("{status} {}", if code == 9999 { 0 } else { code }));
            g.rep.count("route:ping");
            check_documented(g.rep, status, code, false, &what);
        }
        _ => {
            // unstructured bytes on the right route (not compared with the model)
            let e = *g.rng.pick(&endpoints);
            let n = g.rng.below(endpoint_limit(e) as u64 + 1) as usize;
            let mut body = g.rng.bytes(n);
            if g.rng.chance(1, 2) {
                // JSON-looking: deep nesting / long strings
                body = match g.rng.below(3) {
                    0 => "[".repeat(n / 2).into_bytes(),
                    1 => format!("{{\"signature\": \"{}\"}}", "A".repeat(n.saturating_sub(20))).into_bytes(),
                    _ => format!("{{\"user_id\": {}}}", "9".repeat(n.saturating_sub(14).max(1))).into_bytes(),
                };
                if body.len() > endpoint_limit(e) {
                    body.truncate(endpoint_limit(e));
                }
            }
            let r = send(g, "POST", &format!("/{e}"), Some(body.len()), &body);
            (status, code) = (r.0, r.1);
            what = format!("POST /{e} with {} unstructured bytes", body.len());
            g.rep.line(&format!("hx raw {e} {}", body.len()), "-");
            g.rep.count("raw-bytes");
            g.rep.count(&format!("raw-status:{status}"));
            check_documented(g.rep, status, code, true, &what);
        }
    }
    // every non-200 request leaves the tower as it was
    if status != 200 {
        let after = g.sys.dump();
        if after != before {
            g.rep.fail("C15", "state_changed_by_refused_request", &format!("{what} was answered {status} but the tower changed: before `{before}` after `{after}`"));
        }
    }
}

pub fn run(seed: u64, thorough: bool, rep: &mut Report) {
    crate::towerhist::run_mode(seed ^ 0xc15, thorough, rep, true);
    busy_tower(rep);
}

/// a valid request sent while the tower is busy for several seconds (the database lock is held elsewhere, as during a
/// long block): whatever the HTTP layer answers, a non-200 answer must go with an unchanged tower — also a little later,
/// once the tower is free again (monitor only: the timing is the scenario)
fn busy_tower(rep: &mut Report) {
    let boot = BootChain::new();
    rep.begin_case("busy-tower");
    rep.uncompared = true;
    let mut sys = TowerSys::boot((5, 400, 6), 120, &boot, rep);
    let front = std::sync::Arc::new(crate::httpfront::HttpFront::start(sys.api.clone()));
    sys.http = Some(front.clone());
    sys.exec(&HOp::Reg { user: 1 }, rep);
    let before = sys.dump();
    let locator = sys.locator(2);
    let blob = vec![0x5au8; 40];
    let appt = teos_common::appointment::Appointment::new(locator, blob.clone(), 7);
    let sig = teos_common::cryptography::sign(&appt.to_vec(), &user_key(1).sk);
    let body = serde_json::to_vec(&json!({"appointment": {"locator": hex::encode(locator.to_vec()), "encrypted_blob": hex::encode(blob), "to_self_delay": 7}, "signature": sig})).unwrap();
    let dbm = sys.dbm.clone();
    let holder = std::thread::spawn(move || {
        let _g = dbm.lock().unwrap();
        std::thread::sleep(Duration::from_millis(6500));
    });
    std::thread::sleep(Duration::from_millis(300));
    let head = format!("POST /add_appointment HTTP/1.1\r\nHost: 127.0.0.1\r\nContent-Type: application/json\r\nContent-Length: {}\r\nConnection: close\r\n\r\n", body.len());
    let mut req = head.into_bytes();
    req.extend_from_slice(&body);
    let t0 = Instant::now();
    let reply = front.raw(&req, Duration::from_secs(20));
    let took = t0.elapsed();
    let _ = holder.join();
    // let whatever is still running in the tower finish
    std::thread::sleep(Duration::from_millis(1500));
    let after = sys.dump();
    let (status, code) = match &reply {
        Some(r) => (r.status, if r.status == 200 { 0 } else { parse_error(&r.body) }),
        None => (0, 0),
    };
    rep.line("ht busy add_appointment", &format!("{status} {code} after {} ms", took.as_millis()));
    rep.count("busy-tower-request");
    check_documented(rep, status, code, true, "valid add_appointment while the tower is busy for 6.5 s");
    if status != 200 && before != after {
        rep.fail("C15", "refused_request_changed_state", &format!("a valid add_appointment sent while the tower was busy was answered {status} (error code {code}) after {} ms, yet the tower executed it afterwards: {before} -> {after}", took.as_millis()));
    }
    rep.end_case(Some("busy-tower".into()));
}
