//! C19: drives the real `TxIndex<Txid, BlockHash>` (exported by hook H4) with connect/disconnect
//! sequences, emits the op stream for the Lean model and checks the list-of-blocks specification
//! directly (monitor).

use std::collections::HashMap;

use bitcoin::block::Block;
use bitcoin::hash_types::{BlockHash, Txid};
use bitcoin::hashes::Hash;

use teos::verif_export::TxIndex;

use crate::chain::{genesis_hash, mk_block, mk_tx, validated};
use crate::report::Report;
use crate::rng::Rng;

fn key_txid(k: u32) -> Txid {
    let mut b = [0u8; 32];
    b[..4].copy_from_slice(&k.to_be_bytes());
    b[31] = 0x77;
    Txid::from_slice(&b).unwrap()
}

#[derive(Clone)]
struct SBlock {
    num: u32,
    block: Block,
    keys: Vec<u32>,
    height: u32,
}

#[derive(Clone, Debug)]
enum Op {
    Upd(Vec<u32>),
    Disc,
}

struct World {
    n: usize,
    index: TxIndex<Txid, BlockHash>,
    /// active chain, oldest first (includes the bootstrap blocks)
    chain: Vec<SBlock>,
    /// every block ever created: hash -> number
    all_blocks: Vec<SBlock>,
    all_keys: Vec<u32>,
    key_ids: HashMap<Txid, u32>,
    key_txids: HashMap<u32, Txid>,
    next_block: u32,
    /// blocks the index would hold if reorgs did not shrink it (spec) vs. what the code keeps
    deficit: usize,
    base_height: u32,
}

impl World {
    fn new(n: usize, height: u32, rep: &mut Report) -> World {
        // bootstrap: n blocks with one real transaction each (keys 100, 101, ...)
        let mut chain: Vec<SBlock> = vec![];
        let mut prev = genesis_hash();
        let mut key_ids = HashMap::new();
        let mut key_txids = HashMap::new();
        let mut all_keys = vec![];
        for i in 0..n {
            let tx = mk_tx(0xB007_0000 + i as u64, 0);
            let k = 10000 + i as u32;
            key_ids.insert(tx.compute_txid(), k);
            key_txids.insert(k, tx.compute_txid());
            all_keys.push(k);
            let block = mk_block(prev, i as u32, vec![tx]);
            prev = block.block_hash();
            chain.push(SBlock {
                num: 1 + i as u32,
                block,
                keys: vec![k],
                height: height + 1 + i as u32 - n as u32,
            });
        }
        // TxIndex::new takes the blocks newest first
        let vb: Vec<_> = chain.iter().rev().map(|b| validated(&b.block)).collect();
        let index = TxIndex::new(&vb, height);
        let desc: Vec<String> = chain
            .iter()
            .map(|b| format!("b{}:{}", b.num, fmt_keys(&b.keys)))
            .collect();
        rep.line(&format!("ti new {n} {height} {}", desc.join(" ")), "ok");
        World {
            n,
            index,
            all_blocks: chain.clone(),
            chain,
            all_keys,
            key_ids,
            key_txids,
            next_block: 1 + n as u32,
            deficit: 0,
            base_height: height - n as u32,
        }
    }

    fn txid_of(&self, k: u32) -> Txid {
        self.key_txids.get(&k).cloned().unwrap_or_else(|| key_txid(k))
    }

    fn tip_hash(&self) -> BlockHash {
        self.chain.last().map(|b| b.block.block_hash()).unwrap_or_else(genesis_hash)
    }

    fn tip_height(&self) -> u32 {
        self.chain.last().map(|b| b.height).unwrap_or(self.base_height)
    }

    fn apply(&mut self, op: &Op, rep: &mut Report) {
        match op {
            Op::Upd(keys) => {
                let num = self.next_block;
                self.next_block += 1;
                let block = mk_block(self.tip_hash(), num, vec![]);
                let h = block.block_hash();
                let mut map = HashMap::new();
                for k in keys {
                    let t = self.txid_of(*k);
                    self.key_ids.insert(t, *k);
                    self.key_txids.insert(*k, t);
                    if !self.all_keys.contains(k) {
                        self.all_keys.push(*k);
                    }
                    map.insert(t, h);
                }
                let sb = SBlock { num, block, keys: keys.clone(), height: self.tip_height() + 1 };
                self.index.update(sb.block.header, &map);
                self.chain.push(sb.clone());
                self.all_blocks.push(sb);
                if self.deficit > 0 {
                    self.deficit -= 1;
                }
                rep.line(&format!("ti upd b{num} {}", fmt_keys(keys)), "ok");
                rep.count("op:upd");
            }
            Op::Disc => {
                let sb = self.chain.pop().expect("disc on empty chain");
                self.index.remove_disconnected_block(&sb.block.block_hash());
                if self.deficit < self.n {
                    self.deficit += 1;
                }
                rep.line(&format!("ti disc b{}", sb.num), "ok");
                rep.count("op:disc");
            }
        }
        self.query(rep);
    }

    /// queries every known key and block on the implementation; emits the canonical line; runs the monitor
    fn query(&mut self, rep: &mut Report) {
        let mut gets = vec![];
        let mut keys = self.all_keys.clone();
        keys.sort();
        let blocknum: HashMap<BlockHash, u32> =
            self.all_blocks.iter().map(|b| (b.block.block_hash(), b.num)).collect();
        let len = self.chain.len();
        let full_lo = len.saturating_sub(self.n);
        let kept = self.n - self.deficit;
        let kept_lo = len.saturating_sub(kept);
        for k in keys.iter() {
            let got = self.index.get(&self.txid_of(*k)).map(|h| *blocknum.get(h).unwrap_or(&0));
            if let Some(b) = got {
                gets.push(format!("k{k}=b{b}"));
            }
            // specification: the entry of k in the last n blocks of the active chain
            let want_full = self.chain[full_lo..].iter().find(|b| b.keys.contains(k)).map(|b| b.num);
            let want_kept = self.chain[kept_lo..].iter().find(|b| b.keys.contains(k)).map(|b| b.num);
            if got != want_full {
                let fp = match (got, want_full) {
                    (Some(_), None) => "stale_entry",
                    (Some(_), Some(_)) => "wrong_block",
                    (None, Some(_)) if want_kept.is_none() => "missing_after_reorg_deficit",
                    _ => "missing_entry",
                };
                rep.fail("C19", fp, &format!("get(k{k}) = {got:?}, last-{}-blocks spec = {want_full:?}", self.n));
            }
        }
        let mut hs = vec![];
        let mut blocks: Vec<&SBlock> = self.all_blocks.iter().collect();
        blocks.sort_by_key(|b| b.num);
        let mut fails = vec![];
        let chain_pos: HashMap<u32, usize> = self.chain.iter().enumerate().map(|(i, c)| (c.num, i)).collect();
        for b in blocks {
            let got = self.index.get_height(&b.block.block_hash());
            if let Some(h) = got {
                hs.push(format!("b{}={h}", b.num));
            }
            let pos = chain_pos.get(&b.num).cloned();
            let in_full = pos.map_or(false, |p| p >= full_lo);
            let in_kept = pos.map_or(false, |p| p >= kept_lo);
            match got {
                Some(h) if !in_full => fails.push(("height_stale_block", format!("get_height(b{}) = {h} but the block is not among the last {} active blocks", b.num, self.n))),
                Some(h) if h as u32 != b.height => fails.push(("height_wrong", format!("get_height(b{}) = {h}, true height {}", b.num, b.height))),
                None if in_kept => fails.push(("height_missing", format!("get_height(b{}) = None, true height {}", b.num, b.height))),
                None if in_full => fails.push(("height_missing_after_reorg_deficit", format!("get_height(b{}) = None, true height {}", b.num, b.height))),
                _ => {}
            }
        }
        for (fp, d) in fails {
            rep.fail("C19", fp, &d);
        }
        rep.line("ti q", &format!("g {} ; h {}", gets.join(" "), hs.join(" ")));
    }
}

fn fmt_keys(ks: &[u32]) -> String {
    if ks.is_empty() {
        "-".to_string()
    } else {
        ks.iter().map(|k| format!("k{k}")).collect::<Vec<_>>().join(",")
    }
}

fn subsets(free: &[u32]) -> Vec<Vec<u32>> {
    let mut out = vec![];
    for m in 0..(1u32 << free.len()) {
        out.push(free.iter().enumerate().filter(|(i, _)| m >> i & 1 == 1).map(|(_, k)| *k).collect());
    }
    out
}

/// all op sequences of exactly `len` ops (every prefix is queried, so shorter ones are covered)
fn enumerate(n: usize, nkeys: u32, len: usize, rep: &mut Report, count: &mut u64) {
    fn rec(n: usize, nkeys: u32, len: usize, seq: &mut Vec<Op>, rep: &mut Report, count: &mut u64) {
        if seq.len() == len {
            run_case(n, 100, seq, &format!("ex-n{n}-{}", *count), rep);
            *count += 1;
            return;
        }
        // replay the spec to know the live chain and the free keys
        let mut chain: Vec<Vec<u32>> = (0..n).map(|_| vec![]).collect();
        // blocks the index holds: a reorg never goes deeper than that (the bound of the property)
        let mut held = n;
        for op in seq.iter() {
            match op {
                Op::Upd(ks) => {
                    chain.push(ks.clone());
                    held = (held + 1).min(n);
                }
                Op::Disc => {
                    chain.pop();
                    held -= 1;
                }
            }
        }
        let used: Vec<u32> = chain.iter().flatten().cloned().collect();
        let free: Vec<u32> = (0..nkeys).filter(|k| !used.contains(k)).collect();
        for s in subsets(&free) {
            seq.push(Op::Upd(s));
            rec(n, nkeys, len, seq, rep, count);
            seq.pop();
        }
        if !chain.is_empty() && held > 0 {
            seq.push(Op::Disc);
            rec(n, nkeys, len, seq, rep, count);
            seq.pop();
        }
    }
    rec(n, nkeys, len, &mut vec![], rep, count);
}

fn run_case(n: usize, height: u32, seq: &[Op], name: &str, rep: &mut Report) {
    rep.begin_case(name);
    let mut w = World::new(n, height, rep);
    w.query(rep);
    let mut shape = String::new();
    for op in seq {
        // the index itself must not panic on any sequence of updates and disconnections inside the property's quantifier
        let r = std::panic::catch_unwind(std::panic::AssertUnwindSafe(|| w.apply(op, rep)));
        if r.is_err() {
            rep.fail("C19", "index_panicked", &format!("TxIndex panicked while applying {op:?} (sequence {seq:?})"));
            break;
        }
        shape.push(match op {
            Op::Upd(k) if k.is_empty() => 'u',
            Op::Upd(_) => 'U',
            Op::Disc => 'd',
        });
    }
    let nontrivial = seq.iter().any(|o| matches!(o, Op::Disc)) && seq.iter().any(|o| matches!(o, Op::Upd(k) if !k.is_empty()));
    rep.end_case(if nontrivial { Some(format!("{n}:{shape}:{:?}", seq)) } else { None });
}

pub fn run(seed: u64, thorough: bool, rep: &mut Report) {
    let mut count = 0u64;
    let plan: &[(usize, u32, usize)] = if thorough {
        &[(1, 3, 6), (2, 3, 6), (3, 3, 6), (2, 2, 7)]
    } else {
        &[(1, 2, 5), (2, 2, 5), (3, 2, 4)]
    };
    for (n, nkeys, len) in plan {
        enumerate(*n, *nkeys, *len, rep, &mut count);
    }
    rep.extra.insert("exhaustive_sequences".into(), serde_json::json!(count));
    // random sequences at the production sizes
    let mut rng = Rng::new(seed);
    let randoms = if thorough { 400 } else { 40 };
    for i in 0..randoms {
        let n = if i % 2 == 0 { 6 } else { 100 };
        let len = rng.range(10, if n == 6 { 60 } else { 260 }) as usize;
        let mut seq = vec![];
        let mut chain_len = n;
        let mut held = n;
        let mut next_key = 0u32;
        let mut reorg_left = 0u64;
        for _ in 0..len {
            if reorg_left == 0 && rng.chance(1, 8) {
                reorg_left = rng.range(1, (n as u64 + 2).min(12));
            }
            if reorg_left > 0 && chain_len > 0 && held > 0 {
                seq.push(Op::Disc);
                chain_len -= 1;
                held -= 1;
                reorg_left -= 1;
            } else {
                held = (held + 1).min(n);
                reorg_left = 0;
                let nk = rng.below(4) as u32;
                // fresh keys, or re-use of a key from a disconnected block (replacement block)
                let ks: Vec<u32> = (0..nk).map(|_| { next_key += 1; next_key }).collect();
                seq.push(Op::Upd(ks));
                chain_len += 1;
            }
        }
        // re-appearing keys: rewrite keys after a disconnect to re-use the disconnected block's keys
        let seq = reuse_keys(seq, &mut rng);
        run_case(n, 1000, &seq, &format!("rnd-{i}-n{n}"), rep);
    }
}

/// makes some replacement blocks carry the keys of the blocks they replace
fn reuse_keys(seq: Vec<Op>, rng: &mut Rng) -> Vec<Op> {
    let mut chain: Vec<Vec<u32>> = vec![];
    let mut orphaned: Vec<u32> = vec![];
    let mut out = vec![];
    for op in seq {
        match op {
            Op::Upd(mut ks) => {
                if !orphaned.is_empty() && rng.chance(1, 2) {
                    let k = orphaned.pop().unwrap();
                    ks.push(k);
                }
                chain.push(ks.clone());
                out.push(Op::Upd(ks));
            }
            Op::Disc => {
                if let Some(ks) = chain.pop() {
                    orphaned.extend(ks);
                }
                out.push(Op::Disc);
            }
        }
    }
    out
}
