//! C16: (A) the real serialisers / parsers / signed layouts on boundary and random values, line by
//! line against the wire model (`wi` lines), with round-trip monitors on the real types including the
//! client's untagged `ApiResponse<T>`; (B) whole tower histories sent and parsed by the client
//! plugin's own request/response code against the real HTTP API.

use serde::de::DeserializeOwned;
use serde::Serialize;

use teos_common::appointment::{Appointment, Locator};
use teos_common::protos as msgs;
use teos_common::receipts::{AppointmentReceipt, RegistrationReceipt};
use teos_common::UserId;
use watchtower_plugin::net::http::ApiResponse;

use crate::report::Report;
use crate::rng::Rng;
use crate::tower::user_key;

fn bytes_tok(b: &[u8]) -> String {
    if b.is_empty() {
        "-".into()
    } else {
        b.iter().map(|x| x.to_string()).collect::<Vec<_>>().join(",")
    }
}

fn some_bytes(rng: &mut Rng, lens: &[usize]) -> Vec<u8> {
    let n = *rng.pick(lens);
    match rng.below(4) {
        0 => vec![0u8; n],
        1 => vec![0xffu8; n],
        2 => (0..n).map(|i| i as u8).collect(),
        _ => rng.bytes(n),
    }
}

fn some_u32(rng: &mut Rng) -> u32 {
    *rng.pick(&[0u32, 1, 9, 10, 255, 256, 65535, 65536, 16777215, 16777216, 2147483647, 2147483648, 4294967294, 4294967295, 42, 144, 700000])
}

fn some_str(rng: &mut Rng) -> String {
    // signature-like strings: zbase32 alphabet, various lengths (the JSON layer must not care)
    let n = *rng.pick(&[0usize, 1, 2, 103, 104, 105, 300]);
    let alpha = b"ybndrfg8ejkmcpqxot1uwisza345h769";
    (0..n).map(|_| alpha[rng.below(32) as usize] as char).collect()
}

/// real JSON of a message vs the model's, then the round trip on the real types
fn json_case<T: Serialize + DeserializeOwned + PartialEq + std::fmt::Debug>(rep: &mut Report, name: &str, vals: &[String], msg: &T, is_response: bool) {
    let txt = serde_json::to_string(msg).unwrap();
    rep.line(&format!("wi json {name} {}", vals.join(" ")), &txt);
    rep.count(&format!("json:{name}"));
    match serde_json::from_str::<T>(&txt) {
        Ok(back) if &back == msg => {}
        Ok(back) => rep.fail("C16", &format!("roundtrip_changed:{name}"), &format!("{msg:?} was printed as {txt} and parsed back as {back:?}")),
        Err(e) => rep.fail("C16", &format!("roundtrip_failed:{name}"), &format!("{msg:?} was printed as {txt} which does not parse back: {e}")),
    }
    if is_response {
        // what the client does with the body: an untagged ApiResponse<T>
        match serde_json::from_str::<ApiResponse<T>>(&txt) {
            Ok(ApiResponse::Response(back)) if &back == msg => {}
            other => rep.fail("C16", &format!("client_misreads_response:{name}"), &format!("body {txt} is read by the client as {other:?}")),
        }
    }
}

pub fn run(seed: u64, thorough: bool, rep: &mut Report) {
    crate::tower::install_panic_hook();
    let mut rng = Rng::new(seed ^ 0xc16);
    let n = if thorough { 3000 } else { 300 };
    rep.begin_case("codecs");
    let lens_any = [0usize, 1, 2, 15, 16, 17, 32, 33, 34, 100, 800];
    for _ in 0..n {
        // hex and reversed hex, both directions
        let b = some_bytes(&mut rng, &lens_any);
        rep.line(&format!("wi hex {}", bytes_tok(&b)), &hex::encode(&b));
        let t = msgs::Tracker { dispute_txid: b.clone(), penalty_txid: vec![], penalty_rawtx: vec![] };
        let v = serde_json::to_value(&t).unwrap();
        rep.line(&format!("wi be {}", bytes_tok(&b)), v["dispute_txid"].as_str().unwrap());
        // parsing: lower, upper and mixed case, odd length, a bad character
        let mut s = hex::encode(&b);
        match rng.below(5) {
            0 => s = s.to_uppercase(),
            1 => s = s.chars().enumerate().map(|(i, c)| if i % 3 == 0 { c.to_ascii_uppercase() } else { c }).collect(),
            2 => s.push('a'),
            3 if !s.is_empty() => s.replace_range(0..1, "g"),
            _ => {}
        }
        if !s.is_empty() {
            let out = match hex::decode(&s) {
                Ok(x) => bytes_tok(&x),
                Err(_) => "error".into(),
            };
            rep.line(&format!("wi unhex {s}"), &out);
            let js = format!("{{\"dispute_txid\":\"{s}\",\"penalty_txid\":\"\",\"penalty_rawtx\":\"\"}}");
            let out = match serde_json::from_str::<msgs::Tracker>(&js) {
                Ok(t) => bytes_tok(&t.dispute_txid),
                Err(_) => "error".into(),
            };
            rep.line(&format!("wi unbe {s}"), &out);
        }
        rep.count("codec:hex");
    }
    for st in 0..3 {
        let r = msgs::GetAppointmentResponse { appointment_data: None, status: st };
        let v = serde_json::to_value(&r).unwrap();
        let name = v["status"].as_str().unwrap().to_string();
        rep.line(&format!("wi status {st}"), &name);
        let js = format!("{{\"status\":\"{name}\"}}");
        let back = serde_json::from_str::<msgs::GetAppointmentResponse>(&js).map(|x| x.status.to_string()).unwrap_or("error".into());
        rep.line(&format!("wi unstatus {name}"), &back);
    }
    for bad in ["BEING_WATCHED", "watched", ""] {
        let js = format!("{{\"status\":\"{bad}\"}}");
        if bad.is_empty() {
            continue;
        }
        let back = serde_json::from_str::<msgs::GetAppointmentResponse>(&js).map(|x| x.status.to_string()).unwrap_or("error".into());
        rep.line(&format!("wi unstatus {bad}"), &back);
    }
    rep.end_case(Some("codecs".into()));

    rep.begin_case("signed-layouts");
    for _ in 0..n {
        let loc = some_bytes(&mut rng, &[16]);
        let blob = some_bytes(&mut rng, &[0, 1, 2, 16, 100, 2048, 2049]);
        let tsd = some_u32(&mut rng);
        let a = Appointment::new(Locator::from_slice(&loc).unwrap(), blob.clone(), tsd);
        rep.line(&format!("wi tovec Appointment {} {} {tsd}", bytes_tok(&loc), bytes_tok(&blob)), &hex::encode(a.to_vec()));
        // the signed bytes carry every field: their tail is the delay (4 bytes, big endian), and another delay (the same
        // modulo 2^16, 2^8 or 2^24 in particular) gives other bytes — one signature must not authenticate two appointments
        {
            let v = a.to_vec();
            if v.len() != 16 + blob.len() + 4 || v[v.len() - 4..] != tsd.to_be_bytes() || v[..16] != loc[..] || v[16..v.len() - 4] != blob[..] {
                rep.fail("C16", "signed_bytes_do_not_carry_the_fields", &format!("Appointment::to_vec() for to_self_delay {tsd} is {}", hex::encode(&v)));
            }
            for other in [tsd.wrapping_add(1 << 16), tsd.wrapping_add(1 << 8), tsd.wrapping_add(1 << 24), tsd ^ 0x8000_0000] {
                if other != tsd && Appointment::new(Locator::from_slice(&loc).unwrap(), blob.clone(), other).to_vec() == v {
                    rep.fail("C16", "signed_bytes_collide", &format!("appointments that differ only in to_self_delay ({tsd} vs {other}) have the same signed bytes"));
                }
            }
        }
        let uid = UserId(user_key(rng.below(5) as u32).pk);
        let (s1, s2, s3) = (some_u32(&mut rng), some_u32(&mut rng), some_u32(&mut rng));
        let r = RegistrationReceipt::new(uid, s1, s2, s3);
        rep.line(&format!("wi tovec RegistrationReceipt {} {s1} {s2} {s3}", bytes_tok(&uid.to_vec())), &hex::encode(r.to_vec()));
        let sig = some_str(&mut rng);
        let sb = some_u32(&mut rng);
        let ar = AppointmentReceipt::new(sig.clone(), sb);
        rep.line(&format!("wi tovec AppointmentReceipt {} {sb}", bytes_tok(sig.as_bytes())), &hex::encode(ar.to_vec()));
        rep.count("layout:x3");
    }
    rep.end_case(Some("layouts".into()));

    rep.begin_case("messages");
    for _ in 0..n {
        let loc = some_bytes(&mut rng, &[0, 15, 16, 17]);
        let blob = some_bytes(&mut rng, &[0, 1, 100, 700]);
        let tsd = some_u32(&mut rng);
        let sig = some_str(&mut rng);
        let appt = msgs::Appointment { locator: loc.clone(), encrypted_blob: blob.clone(), to_self_delay: tsd };
        json_case(rep, "Appointment", &[bytes_tok(&loc), bytes_tok(&blob), tsd.to_string()], &appt, false);
        if !sig.is_empty() {
            json_case(rep, "AddAppointmentRequest", &[bytes_tok(&loc), bytes_tok(&blob), tsd.to_string(), sig.clone()],
                &msgs::AddAppointmentRequest { appointment: Some(appt.clone()), signature: sig.clone() }, false);
            json_case(rep, "GetAppointmentRequest", &[bytes_tok(&loc), sig.clone()], &msgs::GetAppointmentRequest { locator: loc.clone(), signature: sig.clone() }, false);
            json_case(rep, "GetSubscriptionInfoRequest", &[sig.clone()], &msgs::GetSubscriptionInfoRequest { signature: sig.clone() }, false);
            let (a, b, c) = (some_u32(&mut rng), some_u32(&mut rng), some_u32(&mut rng));
            json_case(rep, "AddAppointmentResponse", &[bytes_tok(&loc), a.to_string(), sig.clone(), b.to_string(), c.to_string()],
                &msgs::AddAppointmentResponse { locator: loc.clone(), start_block: a, signature: sig.clone(), available_slots: b, subscription_expiry: c }, true);
            let uid = some_bytes(&mut rng, &[0, 32, 33, 34]);
            json_case(rep, "RegisterRequest", &[bytes_tok(&uid)], &msgs::RegisterRequest { user_id: uid.clone() }, false);
            json_case(rep, "RegisterResponse", &[bytes_tok(&uid), a.to_string(), b.to_string(), c.to_string(), sig.clone()],
                &msgs::RegisterResponse { user_id: uid.clone(), available_slots: a, subscription_start: b, subscription_expiry: c, subscription_signature: sig.clone() }, true);
        }
        let nl = rng.below(4) as usize;
        let locs: Vec<Vec<u8>> = (0..nl).map(|_| some_bytes(&mut rng, &[16, 1])).collect();
        let (a, b) = (some_u32(&mut rng), some_u32(&mut rng));
        let ltok = if locs.is_empty() { "-".to_string() } else { locs.iter().map(|l| bytes_tok(l)).collect::<Vec<_>>().join(";") };
        json_case(rep, "GetSubscriptionInfoResponse", &[a.to_string(), b.to_string(), ltok],
            &msgs::GetSubscriptionInfoResponse { available_slots: a, subscription_expiry: b, locators: locs }, true);
        // the two shapes of a get_appointment answer
        use msgs::appointment_data::AppointmentData as AD;
        if !loc.is_empty() && !blob.is_empty() {
            let r = msgs::GetAppointmentResponse { appointment_data: Some(msgs::AppointmentData { appointment_data: Some(AD::Appointment(appt.clone())) }), status: 1 };
            json_case(rep, "GetAppointmentResponse", &["Appointment".into(), bytes_tok(&loc), bytes_tok(&blob), tsd.to_string(), "1".into()], &r, true);
        }
        let (d, p, raw) = (some_bytes(&mut rng, &[32]), some_bytes(&mut rng, &[32]), some_bytes(&mut rng, &[1, 60, 300]));
        let r = msgs::GetAppointmentResponse { appointment_data: Some(msgs::AppointmentData { appointment_data: Some(AD::Tracker(msgs::Tracker { dispute_txid: d.clone(), penalty_txid: p.clone(), penalty_rawtx: raw.clone() })) }), status: 2 };
        json_case(rep, "GetAppointmentResponse", &["Tracker".into(), bytes_tok(&d), bytes_tok(&p), bytes_tok(&raw), "2".into()], &r, true);
    }
    // an error object is an error for the client whatever response it expected
    for code in [1u8, 2, 3, 4, 5, 6, 7, 32, 35, 36, 65, 255] {
        let js = format!("{{\"error\":\"some text\",\"error_code\":{code}}}");
        let checks = [
            matches!(serde_json::from_str::<ApiResponse<msgs::AddAppointmentResponse>>(&js), Ok(ApiResponse::Error(ref e)) if e.error_code == code),
            matches!(serde_json::from_str::<ApiResponse<msgs::RegisterResponse>>(&js), Ok(ApiResponse::Error(ref e)) if e.error_code == code),
            matches!(serde_json::from_str::<ApiResponse<msgs::GetAppointmentResponse>>(&js), Ok(ApiResponse::Error(ref e)) if e.error_code == code),
            matches!(serde_json::from_str::<ApiResponse<msgs::GetSubscriptionInfoResponse>>(&js), Ok(ApiResponse::Error(ref e)) if e.error_code == code),
        ];
        rep.count("untagged:error-object");
        if checks.iter().any(|c| !*c) {
            rep.fail("C16", "client_misreads_error", &format!("error object {js}: read as an error by the four response types = {checks:?}"));
        }
    }
    rep.end_case(Some("messages".into()));

    // (B) histories through the client's own request/response code
    crate::towerhist::run_mode2(seed ^ 0xc16, thorough, rep, true, true);
}
