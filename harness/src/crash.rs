//! C03: crash at every durable write (and every node RPC) of every operation of generated
//! histories, restart on the same database file through the real bootstrap path (components rebuilt
//! from the file + `ChainMonitor` catching up from the last known block), then carry on.
//! The database after the crash is compared with the Lean model's `crashDb` (prefix of the write
//! log); the monitors check the property's own clauses on the real tables.

use std::collections::{BTreeMap, BTreeSet};
use std::panic::{catch_unwind, AssertUnwindSafe};
use std::sync::atomic::{AtomicUsize, Ordering};
use std::sync::Arc;

use crate::live::Live;
use crate::monitors::slots_of;
use crate::report::Report;
use crate::rng::Rng;
use crate::tower::*;

#[derive(Clone, Debug)]
pub enum XOp {
    Reg(u32),
    Add { user: u32, loc: u32, blob: BlobSpec, tsd: u32 },
    Get { user: u32, loc: u32 },
    /// the node mines these blocks (tx numbers each), then the tower polls; `fail`: index of a block
    /// whose download fails during this poll
    Poll { blocks: Vec<Vec<u32>>, fail: Option<usize> },
}

static EVENTS: AtomicUsize = AtomicUsize::new(0);
static DONE_WRITES: AtomicUsize = AtomicUsize::new(0);
static ARMED: AtomicUsize = AtomicUsize::new(usize::MAX);
static EVENT_LOG: std::sync::Mutex<Vec<(String, bool)>> = std::sync::Mutex::new(Vec::new());

fn install_crash_observer() {
    teos_common::verif::set_crash_observer(Some(Arc::new(|label: &'static str, done: bool| {
        let n = EVENTS.fetch_add(1, Ordering::SeqCst);
        EVENT_LOG.lock().unwrap().push((label.to_string(), done));
        if n == ARMED.load(Ordering::SeqCst) {
            panic!("verif: simulated crash at durable-write point {n} ({label}, done={done})");
        }
        if done {
            DONE_WRITES.fetch_add(1, Ordering::SeqCst);
        }
    })));
}

fn reset_counters() {
    EVENTS.store(0, Ordering::SeqCst);
    DONE_WRITES.store(0, Ordering::SeqCst);
    EVENT_LOG.lock().unwrap().clear();
}

struct World {
    live: Live,
    cfg: (u32, u32, u32),
    boot_height: u32,
    /// number of harness-chain blocks the tower has been given (delivered) so far
    delivered: usize,
    tower_id: Vec<u8>,
    /// transactions the tower has handed to the node so far (by number)
    sent: BTreeSet<u32>,
    /// what the node answers (default: takes everything, knows nothing)
    tables: (BTreeMap<u32, crate::simnode::SendR>, BTreeMap<u32, crate::simnode::GetR>),
}

impl World {
    fn new(cfg: (u32, u32, u32), height: u32, boot: &BootChain, rep: &mut Report) -> World {
        let sys = TowerSys::boot(cfg, height, boot, rep);
        let tower_id = sys.watcher.tower_id.to_vec();
        let live = Live::new(sys);
        let delivered = live.sys.chain.len();
        World { live, cfg, boot_height: height, delivered, tower_id, sent: BTreeSet::new(), tables: (BTreeMap::new(), BTreeMap::new()) }
    }

    fn oracle_tokens(&self) -> String {
        let mut toks: Vec<String> = self.tables.0.iter().map(|(n, r)| format!("s:t{}={}", n * 16, r.token())).collect();
        toks.extend(self.tables.1.iter().map(|(n, r)| format!("g:t{}={}", n * 16, r.token())));
        toks.sort();
        toks.join(" ")
    }

    fn note_sends(&mut self, log: &[(String, bitcoin::Txid)]) {
        for (m, t) in log {
            if m == "send" {
                if let Some(n) = self.live.sys.txnum.get(t) {
                    self.sent.insert(*n);
                }
            }
        }
    }

    /// while the tower is down: everything it had handed to the node gets mined in one more block; from then on
    /// the node knows those transactions as confirmed and refuses them as "already in chain"
    fn mine_sent_while_down(&mut self) -> bool {
        let confirmed: BTreeSet<u32> = self.live.sys.chain.iter().flat_map(|b| b.3.iter().cloned()).collect();
        let txs: Vec<u32> = self.sent.iter().filter(|n| !confirmed.contains(n)).cloned().collect();
        if txs.is_empty() {
            return false;
        }
        for n in &txs {
            self.tables.0.insert(*n, crate::simnode::SendR::Rpc(-27));
            self.tables.1.insert(*n, crate::simnode::GetR::Confirmed);
        }
        self.live.mine(txs);
        true
    }

    /// executes one operation; `Err` = the process died in the middle of it
    fn exec(&mut self, op: &XOp, rep: &mut Report, crash_budget: Option<usize>) -> Result<Outcome, ()> {
        if let Some(k) = crash_budget {
            rep.line(&format!("tw crash {k}"), "ok");
        }
        match op {
            XOp::Reg(u) => self.request(&HOp::Reg { user: *u }, rep, crash_budget.is_some()),
            XOp::Add { user, loc, blob, tsd } => self.request(&HOp::Add { user: *user, loc: *loc, blob: blob.clone(), tsd: *tsd, sig: SigKind::Valid }, rep, crash_budget.is_some()),
            XOp::Get { user, loc } => self.request(&HOp::Get { user: *user, loc: *loc, sig: SigKind::Valid }, rep, false),
            XOp::Poll { blocks, fail } => {
                let first = self.live.sys.chain.len();
                for txs in blocks {
                    // (in the "mined while down" variant a transaction of the history may already be in the chain)
                    let confirmed: BTreeSet<u32> = self.live.sys.chain.iter().flat_map(|b| b.3.iter().cloned()).collect();
                    self.live.mine(txs.iter().filter(|t| !confirmed.contains(t)).cloned().collect());
                }
                if let Some(f) = fail {
                    let h = self.live.sys.chain[first + f].1.block_hash();
                    self.live.source.0.lock().unwrap().fail_blocks.insert(h);
                }
                let r = self.poll(rep, crash_budget.is_some());
                self.live.source.0.lock().unwrap().fail_blocks.clear();
                r
            }
        }
    }

    fn request(&mut self, h: &HOp, rep: &mut Report, crashing: bool) -> Result<Outcome, ()> {
        let (out, rpcs) = self.live.sys.exec(h, rep);
        for (m, n) in rpcs.iter() {
            if m == "send" {
                self.sent.insert(*n);
            }
        }
        // (a request that died half-way returns no RPC log: what it had asked of the node is still in the node's own log)
        let rest = self.live.sys.node.take_log();
        self.note_sends(&rest);
        if let Outcome::Panicked(_) = out {
            if crashing {
                // the executor printed `abort`: the model prints `crashed`
                rep.rewrite_last_out("crashed");
            }
            return Err(());
        }
        Ok(out)
    }

    /// one poll: delivers every undelivered block up to a failing download
    fn poll(&mut self, rep: &mut Report, crashing: bool) -> Result<Outcome, ()> {
        let total = self.live.sys.chain.len();
        let failing: BTreeSet<_> = self.live.source.0.lock().unwrap().fail_blocks.clone().into_iter().collect();
        let mut upto = self.delivered;
        while upto < total && !failing.contains(&self.live.sys.chain[upto].1.block_hash()) {
            upto += 1;
        }
        if total == self.delivered {
            // nothing new: the poll writes nothing
            self.live.poll();
            return Ok(Outcome::Done);
        }
        let tip = self.live.sys.chain[total - 1].0;
        let toks: Vec<String> = self.live.sys.chain[self.delivered..upto]
            .iter()
            .map(|(n, _, h, txs)| format!("b{n}:{h}:{}", if txs.is_empty() { "-".to_string() } else { txs.iter().map(|t| format!("t{}", t * 16)).collect::<Vec<_>>().join(",") }))
            .collect();
        let line = format!("tw poll b{tip} {} {}", toks.join(" "), self.oracle_tokens());
        let live = &mut self.live;
        let res = catch_unwind(AssertUnwindSafe(|| live.poll()));
        let log = self.live.sys.node.take_log();
        self.note_sends(&log);
        let mut named: Vec<String> = log.iter().map(|(m, t)| format!("{m}:t{}", self.live.sys.txnum.get(t).cloned().unwrap_or(0) * 16)).collect();
        named.sort();
        match res {
            Ok(()) => {
                rep.line(line.trim_end(), &format!("ok rpc={}", named.join(",")));
                self.delivered = upto;
                Ok(Outcome::Done)
            }
            Err(_) => {
                rep.line(line.trim_end(), if crashing { "crashed" } else { "abort" });
                Err(())
            }
        }
    }

    /// the process is dead: reopen the database file and bootstrap as `main.rs` does
    fn restart(self, rep: &mut Report) -> Result<World, String> {
        let World { live, cfg, boot_height, tower_id, sent, tables, .. } = self;
        let Live { mut sys, source, monitor } = live;
        let dropped_monitor = catch_unwind(AssertUnwindSafe(move || drop(monitor)));
        let _ = dropped_monitor;
        let db_path = sys.db_path.clone();
        // harness-side naming state survives (it is not the tower's)
        let chain = std::mem::take(&mut sys.chain);
        let txs = std::mem::take(&mut sys.txs);
        let txnum = std::mem::take(&mut sys.txnum);
        let locnum = std::mem::take(&mut sys.locnum);
        let sigs = std::mem::take(&mut sys.sigs);
        let blobs = std::mem::take(&mut sys.blobs);
        let users_seen = std::mem::take(&mut sys.users_seen);
        let next_block = sys.next_block;
        // the dead process's handles are closed (as the OS would), the file stays
        KEEP_DB.lock().unwrap().push(db_path.clone());
        let closed = catch_unwind(AssertUnwindSafe(move || drop(sys)));
        KEEP_DB.lock().unwrap().retain(|p| p != &db_path);
        if closed.is_err() {
            return Err("closing the dead tower's handles panicked".into());
        }
        let _ = source;
        // last known block from the file
        let lkb = {
            let conn = rusqlite::Connection::open(&db_path).map_err(|e| e.to_string())?;
            let r: Option<Vec<u8>> = conn.query_row("SELECT block_hash FROM last_known_block WHERE id=0", [], |r| r.get(0)).ok();
            r
        };
        let upto = match lkb {
            Some(h) => chain.iter().position(|b| bitcoin::hashes::Hash::to_byte_array(b.1.block_hash()).to_vec() == h).map(|p| p + 1).ok_or("last known block is not a block of the chain")?,
            None => BOOT_BLOCKS,
        };
        let height = chain[upto - 1].2;
        let known: Vec<_> = chain[..upto].to_vec();
        let names: Vec<String> = known.iter().rev().take(BOOT_BLOCKS).rev().map(|b| if b.3.is_empty() { format!("b{}", b.0) } else { format!("b{}:{}", b.0, b.3.iter().map(|t| format!("t{}", t * 16)).collect::<Vec<_>>().join(",")) }).collect();
        rep.line(&format!("tw reboot {height} {}", names.join(" ")), "ok");
        let res = catch_unwind(AssertUnwindSafe(|| TowerSys::assemble(cfg, height, known, db_path.clone(), next_block)));
        let mut sys = match res {
            Ok(s) => s,
            Err(_) => return Err(format!("bootstrap panicked: {}", LAST_PANIC.with(|p| p.borrow().clone()))),
        };
        sys.txs = txs;
        sys.txnum = txnum;
        sys.locnum = locnum;
        sys.sigs = sigs;
        sys.blobs = blobs;
        sys.users_seen = users_seen;
        {
            let mut n = sys.node.0.lock().unwrap();
            for t in sys.txs.values() {
                n.txs.insert(t.compute_txid(), t.clone());
            }
        }
        if sys.watcher.tower_id.to_vec() != tower_id {
            rep.fail("C03", "tower_id_changed", "the tower id after restart differs from the one before the crash");
        }
        sys.set_tables(&tables.0, &tables.1);
        // the block source knows the whole chain; the tower starts at its last known block
        let full_chain = chain;
        let mut live = Live::new(sys);
        for (i, (_, b, h, _)) in full_chain.iter().enumerate().skip(upto) {
            live.source.add_block(b, *h, i + 1 == full_chain.len());
        }
        live.sys.chain = full_chain;
        let w = World { live, cfg, boot_height, delivered: upto, tower_id, sent, tables };
        Ok(w)
    }
}

fn gen_history(rng: &mut Rng, n: usize) -> Vec<XOp> {
    let mut ops = vec![XOp::Reg(1)];
    let mut junk = 0u32;
    // a transaction is mined at most once (consensus: no two transactions of the chain share an id)
    let mut mined: BTreeSet<u32> = BTreeSet::new();
    for _ in 0..n {
        let op = match rng.weighted(&[10, 34, 6, 40]) {
            0 => XOp::Reg(rng.range(1, 2) as u32),
            1 => {
                let loc = rng.range(1, 3) as u32;
                let class = rng.below(3) as u32;
                let len = [260usize, 2049, 330][class as usize];
                let blob = if rng.chance(4, 5) {
                    BlobSpec::Enc { dispute: loc, penalty: 1000 + loc * 10 + class, len }
                } else {
                    junk += 1;
                    BlobSpec::Junk { tag: 700 + junk, len }
                };
                XOp::Add { user: rng.range(1, 2) as u32, loc, blob, tsd: rng.below(50) as u32 }
            }
            2 => XOp::Get { user: rng.range(1, 2) as u32, loc: rng.range(1, 3) as u32 },
            _ => {
                let nb = rng.range(1, 3) as usize;
                let mut blocks = vec![];
                for _ in 0..nb {
                    // at most one dispute and one penalty per block: the tower iterates breaches and
                    // confirmations in hash-map order, and the enumeration of crash points needs the
                    // order of the durable writes inside an operation to be the same in every run
                    let mut txs = vec![];
                    if rng.chance(1, 2) {
                        txs.push(rng.range(1, 3) as u32);
                    }
                    if rng.chance(1, 3) {
                        txs.push(1000 + rng.range(1, 3) as u32 * 10);
                    }
                    txs.retain(|t| mined.insert(*t));
                    blocks.push(txs);
                }
                let fail = if nb > 1 && rng.chance(1, 5) { Some(rng.range(1, nb as u64 - 1) as usize) } else { None };
                XOp::Poll { blocks, fail }
            }
        };
        ops.push(op);
    }
    // make sure the history ends with everything delivered
    ops.push(XOp::Poll { blocks: vec![vec![]], fail: None });
    ops
}

fn balance(db: &DbRow, u: u32) -> Option<i64> {
    db.users.get(&u).map(|x| x.0 as i64 + db.appts.iter().filter(|(k, _)| k.1 == u).map(|(_, v)| slots_of(v.0.len()) as i64).sum::<i64>())
}

pub fn run(seed: u64, thorough: bool, rep: &mut Report) {
    install_panic_hook();
    install_crash_observer();
    let boot = BootChain::new();
    let mut master = Rng::new(seed);
    let ncases = if thorough { 120 } else { 10 };
    let mut restarts = 0u64;
    for c in 0..ncases {
        let mut rng = master.fork();
        let cfg = (*rng.pick(&[2u32, 3, 5]), *rng.pick(&[20u32, 100, 400]), *rng.pick(&[1u32, 3, 6]));
        let nops = rng.range(5, if thorough { 12 } else { 8 }) as usize;
        let ops = if c == 0 {
            // a poll that delivers only part of the announced chain, then a kill
            let enc = |l: u32| BlobSpec::Enc { dispute: l, penalty: 1000 + l * 10, len: 260 };
            vec![XOp::Reg(1), XOp::Add { user: 1, loc: 1, blob: enc(1), tsd: 5 }, XOp::Add { user: 1, loc: 2, blob: enc(2), tsd: 5 },
                 XOp::Poll { blocks: vec![vec![1], vec![2], vec![]], fail: Some(1) }, XOp::Get { user: 1, loc: 2 }, XOp::Poll { blocks: vec![vec![]], fail: None }]
        } else if c == 1 {
            // a tracker reaches 100 confirmations inside one long poll: the refunding deletion is crashed at each of its
            // durable-write points
            let enc = |l: u32| BlobSpec::Enc { dispute: l, penalty: 1000 + l * 10, len: 2049 };
            vec![XOp::Reg(1), XOp::Add { user: 1, loc: 1, blob: enc(1), tsd: 5 }, XOp::Add { user: 1, loc: 2, blob: enc(2), tsd: 5 },
                 XOp::Poll { blocks: vec![vec![1]], fail: None }, XOp::Poll { blocks: vec![vec![1010]], fail: None },
                 XOp::Poll { blocks: vec![vec![]; 99], fail: None }, XOp::Poll { blocks: vec![vec![], vec![]], fail: None },
                 XOp::Get { user: 1, loc: 1 }, XOp::Poll { blocks: vec![vec![]], fail: None }]
        } else if c == 2 {
            // a long backlog delivered in one poll: the penalty is confirmed 105 blocks into it, the process dies once
            // that is recorded, and the whole backlog is processed again from the recorded block (the tracker then
            // carries a confirmation height above the blocks being connected)
            let enc = |l: u32| BlobSpec::Enc { dispute: l, penalty: 1000 + l * 10, len: 260 };
            let mut backlog = vec![vec![]; 120];
            backlog[104] = vec![1010];
            vec![XOp::Reg(1), XOp::Add { user: 1, loc: 1, blob: enc(1), tsd: 5 }, XOp::Poll { blocks: vec![vec![1]], fail: None },
                 XOp::Poll { blocks: backlog, fail: None }, XOp::Get { user: 1, loc: 1 }, XOp::Poll { blocks: vec![vec![]], fail: None }]
        } else {
            gen_history(&mut rng, nops)
        };
        // 1. the uninterrupted run: counts the crash points of every operation
        ARMED.store(usize::MAX, Ordering::SeqCst);
        rep.begin_case(&format!("crash-{seed}-{c}-reference"));
        let mut w = World::new(cfg, 100, &boot, rep);
        let mut points: Vec<Vec<(String, bool)>> = vec![];
        let mut accepted: Vec<BTreeSet<(u32, u32)>> = vec![];
        // what the uninterrupted run has handed to the node by the end of each operation
        let mut sent_upto: Vec<BTreeSet<u32>> = vec![];
        // how many tracker rows each operation of the uninterrupted run writes: when a block writes several, the
        // tower goes through them in the order of a hash map, so which of them a crash in the middle has reached
        // is not determined — those crash points are explored with the monitors only, not compared with the model
        let mut tracker_writes: Vec<usize> = vec![];
        let mut ref_prev = w.live.sys.read_db();
        let mut acc_now = BTreeSet::new();
        for op in &ops {
            reset_counters();
            let out = w.exec(op, rep, None);
            points.push(EVENT_LOG.lock().unwrap().clone());
            if let (XOp::Add { user, loc, .. }, Ok(Outcome::Accepted { .. })) = (op, &out) {
                acc_now.insert((*loc, *user));
            }
            accepted.push(acc_now.clone());
            sent_upto.push(w.sent.clone());
            {
                let now = w.live.sys.read_db();
                let changed = now.trackers.iter().filter(|(k, v)| ref_prev.trackers.get(*k) != Some(*v)).count();
                tracker_writes.push(changed);
                ref_prev = now;
            }
            let d = w.live.sys.dump();
            rep.line("tw dump", &d);
        }
        let reference_final = w.live.sys.read_db();
        rep.end_case(Some(format!("ref:{c}")));
        drop(w);
        // 2a. the process is killed between two operations (nothing in flight), after each operation
        for i in 0..ops.len() {
            restarts += 1;
            rep.begin_case(&format!("crash-{seed}-{c}-after-op{i}"));
            ARMED.store(usize::MAX, Ordering::SeqCst);
            let mut w = World::new(cfg, 100, &boot, rep);
            let mut ok = true;
            for prev in &ops[..=i] {
                if w.exec(prev, rep, None).is_err() {
                    ok = false;
                    break;
                }
            }
            if !ok {
                std::mem::forget(w);
                continue;
            }
            rep.count("kill-between-operations");
            let mut w = match w.restart(rep) {
                Ok(w) => w,
                Err(e) => {
                    rep.fail("C03", "restart_failed", &format!("restart after op {i}: {e}"));
                    continue;
                }
            };
            let mut alive = w.poll(rep, false).is_ok();
            if alive {
                for nxt in ops[i + 1..].iter() {
                    if w.exec(nxt, rep, None).is_err() {
                        alive = false;
                        break;
                    }
                }
            }
            if alive {
                let fin = w.live.sys.read_db();
                rep.line("tw dump", &w.live.sys.dump_from(&fin));
                let ka: BTreeSet<_> = fin.trackers.keys().cloned().collect();
                let kb: BTreeSet<_> = reference_final.trackers.keys().cloned().collect();
                let aa: BTreeSet<_> = fin.appts.keys().cloned().collect();
                let ab: BTreeSet<_> = reference_final.appts.keys().cloned().collect();
                if ka != kb || aa != ab || fin.users != reference_final.users {
                    // is a partially delivered poll the last poll before the kill?
                    let last_poll = ops[..=i].iter().rev().find(|o| matches!(o, XOp::Poll { .. }));
                    let what = if matches!(last_poll, Some(XOp::Poll { fail: Some(_), .. })) { "restart_after_partial_poll_skips_blocks" } else { "diverges_from_uninterrupted_run" };
                    rep.fail("C03", what, &format!("killed after op {i} ({:?}), restarted, caught up: trackers {ka:?} vs {kb:?}; appointments {aa:?} vs {ab:?}; users {:?} vs {:?}", ops[i], fin.users, reference_final.users));
                }
                drop(w);
            } else {
                rep.fail("C03", "operation_after_restart_failed", &format!("an operation aborted after a restart following op {i}"));
                std::mem::forget(w);
            }
            rep.end_case(Some(format!("{c}:after{i}")));
        }
        // 2b. crash at every point of every operation
        for (i, op) in ops.iter().enumerate() {
            let npts = points[i].len();
            // a crash while blocks are being processed is explored twice: the node's chain as it was, and with
            // what the tower had already handed to the node mined in one more block while the tower was down
            for (j, mined) in (0..npts).flat_map(|j| [(j, false), (j, true)]) {
                // (in the long-backlog history a penalty mined early reaches its 100 confirmations before the end, which the
                // uninterrupted run does not: the variant is explored on the other histories)
                if mined && (!matches!(op, XOp::Poll { .. }) || sent_upto[i].is_empty() || c == 2) {
                    // nothing can have been handed to the node by then: the variant is the plain one
                    continue;
                }
                restarts += 1;
                rep.begin_case(&format!("crash-{seed}-{c}-op{i}-pt{j}{}", if mined { "-mined" } else { "" }));
                let mut w = World::new(cfg, 100, &boot, rep);
                let mut ok = true;
                for prev in &ops[..i] {
                    ARMED.store(usize::MAX, Ordering::SeqCst);
                    if w.exec(prev, rep, None).is_err() {
                        ok = false;
                        break;
                    }
                }
                if !ok {
                    rep.fail("C03", "prefix_failed", "an operation before the crash point failed");
                    std::mem::forget(w);
                    continue;
                }
                let before = w.live.sys.read_db();
                // arm: the j-th crash point of this operation
                reset_counters();
                // a crash at an `after` point happens once that write is durable
                let budget = points[i][..=j].iter().filter(|(_, d)| *d).count();
                ARMED.store(j, Ordering::SeqCst);
                if tracker_writes[i] >= 2 {
                    rep.uncompared = true;
                    rep.count("crash-point:order-of-tracker-writes-undetermined");
                }
                let r = w.exec(op, rep, Some(budget));
                ARMED.store(usize::MAX, Ordering::SeqCst);
                rep.count(&format!("crash-at:{}:{}", points[i][j].0, if points[i][j].1 { "after" } else { "before" }));
                if r.is_ok() {
                    rep.fail("C03", "crash_point_not_reached", &format!("operation {i} completed although point {j} was armed"));
                    std::mem::forget(w);
                    continue;
                }
                if mined {
                    if !w.mine_sent_while_down() {
                        // nothing had been handed to the node: same as the plain variant
                        std::mem::forget(w);
                        rep.end_case(None);
                        continue;
                    }
                    rep.count("crash-variant:sent-transactions-mined-while-down");
                }
                // 3. restart
                let mut w = match w.restart(rep) {
                    Ok(w) => w,
                    Err(e) => {
                        rep.fail("C03", "restart_failed", &format!("restart after crash in op {i} point {j}: {e}"));
                        continue;
                    }
                };
                let after = w.live.sys.read_db();
                rep.line("tw dbdump", &w.live.sys.dump_from(&after));
                // never grants slots; costs at most the request in flight
                for u in [1u32, 2] {
                    if let (Some(b), Some(a)) = (balance(&before, u), balance(&after, u)) {
                        let grant = if matches!(op, XOp::Reg(x) if *x == u) { cfg.0 as i64 } else { 0 };
                        let cost = match op {
                            XOp::Add { user, blob, .. } if *user == u => slots_of(w.live.sys.build_blob(blob).0.len()) as i64,
                            _ => 0,
                        };
                        let dropped: i64 = before.appts.iter().filter(|(k, _)| k.1 == u && !after.appts.contains_key(k)).map(|(_, v)| slots_of(v.0.len()) as i64).sum();
                        if a > b + grant {
                            // replacing an appointment by a smaller one returns the difference first
                            let shrinking = match op {
                                XOp::Add { user, loc, blob, .. } if *user == u => before.appts.get(&(*loc, u)).map_or(false, |r| slots_of(r.0.len()) > slots_of(w.live.sys.build_blob(blob).0.len())),
                                _ => false,
                            };
                            let fp = if shrinking { "crash_between_refund_and_shrunk_row" } else { "crash_granted_slots" };
                            rep.fail("C03", fp, &format!("u{u}: available+occupied {b} -> {a} across a crash in {op:?}"));
                        }
                        if a < b - cost - dropped {
                            rep.fail("C03", "crash_cost_exceeds_request", &format!("u{u}: available+occupied {b} -> {a}, request in flight costs {cost}"));
                        }
                    }
                }
                // C02: a tracker (what get_appointment reports as `dispute_responded`) exists only for a penalty the node
                // has been handed or already had: also in the database the process left behind
                {
                    let in_chain: BTreeSet<u32> = w.live.sys.chain.iter().flat_map(|b| b.3.iter().cloned()).collect();
                    for (k, tr) in after.trackers.iter() {
                        if !w.sent.contains(&tr.1) && !in_chain.contains(&tr.1) {
                            rep.fail("C02", "responded_before_the_node_was_given_the_penalty", &format!("after the crash in op {i} ({op:?}) point {j} tracker {k:?} is in the database although penalty t{} was never handed to the node and is not in the chain (handed to the node so far: {:?})", tr.1 * 16, w.sent));
                        }
                    }
                }
                // no dangling records
                for k in after.trackers.keys() {
                    if !after.appts.contains_key(k) {
                        rep.fail("C03", "dangling_tracker", &format!("tracker {k:?} without appointment"));
                    }
                }
                for k in after.appts.keys() {
                    if !after.users.contains_key(&k.1) {
                        rep.fail("C03", "dangling_appointment", &format!("appointment {k:?} without user"));
                    }
                }
                // acknowledged appointments are still held (nothing in these histories expires or completes them,
                // except drops at a breach, which delete the row in the reference run as well)
                if i > 0 {
                    for k in accepted[i - 1].iter() {
                        let held_before = before.appts.contains_key(k);
                        if held_before && !after.appts.contains_key(k) && !matches!(op, XOp::Poll { .. }) {
                            rep.fail("C03", "acknowledged_appointment_lost", &format!("{k:?} was acknowledged and held before the crash, gone after restart"));
                        }
                    }
                }
                // 4. catch up and carry on
                let mut alive = true;
                if w.poll(rep, false).is_err() {
                    rep.fail("C03", "catch_up_failed", &format!("catching up after restart aborted: {}", LAST_PANIC.with(|p| p.borrow().clone())));
                    alive = false;
                }
                if alive {
                    // the interrupted operation is retried by its client / re-polled, then the rest
                    let retry: Vec<XOp> = match op {
                        XOp::Poll { .. } => vec![],
                        other => vec![other.clone()],
                    };
                    for nxt in retry.iter().chain(ops[i + 1..].iter()) {
                        let nxt = match nxt {
                            // blocks of the reference history are already mined: only new ones are added
                            other => other.clone(),
                        };
                        if w.exec(&nxt, rep, None).is_err() {
                            rep.fail("C03", "operation_after_restart_failed", &format!("{nxt:?} aborted after the restart"));
                            alive = false;
                            break;
                        }
                    }
                }
                // no block is ever disconnected in these histories: a dispute transaction handed to the node (which the
                // tower only does for a tracker whose confirmation was reorged out) has no justification
                if let Some(d) = w.sent.iter().find(|t| **t < 1000) {
                    rep.fail("C02", "dispute_submitted_without_reorg", &format!("dispute t{} was submitted to the node although no block was disconnected (crash in op {i} ({op:?}) point {j}, restart, catch-up)", *d * 16));
                }
                if alive {
                    let fin = w.live.sys.read_db();
                    rep.line("tw dump", &w.live.sys.dump_from(&fin));
                    // every breach in the blocks it had not finished processing is answered as in the
                    // uninterrupted run: same responded / watched key sets (a request that died before its
                    // acknowledgement and is retried may legitimately change what follows: only block
                    // processing is compared)
                    let mut ka: BTreeSet<_> = fin.trackers.keys().cloned().collect();
                    let mut kb: BTreeSet<_> = reference_final.trackers.keys().cloned().collect();
                    let mut aa: BTreeSet<_> = fin.appts.keys().cloned().collect();
                    let mut ab: BTreeSet<_> = reference_final.appts.keys().cloned().collect();
                    if mined {
                        // one more block was mined than in the uninterrupted run: requests made after the restart see
                        // another window of recent blocks, so only what had been accepted before the crash is compared
                        let pre: BTreeSet<(u32, u32)> = if i > 0 { accepted[i - 1].clone() } else { BTreeSet::new() };
                        for set in [&mut ka, &mut kb, &mut aa, &mut ab] {
                            set.retain(|k| pre.contains(k));
                        }
                    }
                    // no request was in flight during a poll: balances must be those of the uninterrupted run as well
                    // (slots only, and only of users that existed when the process died: later registrations may happen at
                    // another height when the restart skipped or replayed blocks)
                    let users_differ = !mined && matches!(op, XOp::Poll { .. }) && before.users.keys().any(|u| fin.users.get(u).map(|x| x.0) != reference_final.users.get(u).map(|x| x.0));
                    if users_differ && ka == kb && aa == ab {
                        let prev_poll = ops[..i].iter().rev().find(|o| matches!(o, XOp::Poll { .. }));
                        let partial = matches!(op, XOp::Poll { fail: Some(_), .. }) || matches!(prev_poll, Some(XOp::Poll { fail: Some(_), .. }));
                        rep.fail("C03", if partial { "restart_after_partial_poll_skips_blocks" } else { "crash_during_block_processing_changed_a_balance" }, &format!("after crash in op {i} ({op:?}) point {j} and catching up: users {:?} vs {:?} in the uninterrupted run", fin.users, reference_final.users));
                    }
                    if matches!(op, XOp::Poll { .. }) && (ka != kb || aa != ab) {
                        let prev_poll = ops[..i].iter().rev().find(|o| matches!(o, XOp::Poll { .. }));
                        let partial = matches!(op, XOp::Poll { fail: Some(_), .. }) || matches!(prev_poll, Some(XOp::Poll { fail: Some(_), .. }));
                        // the one divergence with a name of its own: the penalty had been handed to the node, the
                        // process died before the tracker was stored, and the penalty was confirmed while the tower
                        // was down; replaying the block the node answers "already in chain" and the tower records
                        // nothing: the appointment stays watched, no tracker follows the penalty
                        let confirmed: BTreeSet<u32> = w.live.sys.chain.iter().flat_map(|b| b.3.iter().cloned()).collect();
                        let differing: BTreeSet<(u32, u32)> = ka.symmetric_difference(&kb).chain(aa.symmetric_difference(&ab)).cloned().collect();
                        let untracked_confirmed = mined && differing.iter().all(|k| {
                            // not tracked, and its penalty had been handed to the node and got confirmed (the appointment itself
                            // is still held, unless a later request of its owner replaced or dropped it: without a tracker
                            // the tower treats it as an ordinary appointment whose dispute is in the cache)
                            !fin.trackers.contains_key(k) && (fin.appts.contains_key(k) || ops[i + 1..].iter().any(|o| matches!(o, XOp::Add { user, loc, .. } if (*loc, *user) == *k))) &&
                            // (the blob as it was when the process died: without a tracker a later submission may replace it)
                            match before.appts.get(k).or(fin.appts.get(k)).and_then(|a| w.live.sys.blobs.get(&a.0)) {
                                Some(BlobSpec::Enc { penalty, .. }) => w.sent.contains(penalty) && confirmed.contains(penalty),
                                _ => false,
                            }
                        });
                        let what = if partial {
                            "restart_after_partial_poll_skips_blocks"
                        } else if untracked_confirmed {
                            "penalty_sent_then_confirmed_while_down_is_not_tracked"
                        } else {
                            "diverges_from_uninterrupted_run"
                        };
                        rep.fail("C03", what, &format!("after crash in op {i} ({op:?}) point {j}{} and catching up: trackers {ka:?} vs {kb:?}; appointments {aa:?} vs {ab:?}", if mined { " (what the tower had sent was mined while it was down)" } else { "" }));
                    }
                    drop(w);
                } else {
                    std::mem::forget(w);
                }
                rep.end_case(Some(format!("{c}:{i}:{j}{}", if mined { "m" } else { "" })));
            }
        }
    }
    rep.count_n("restarts", restarts);
    teos_common::verif::set_crash_observer(None);
    cleanup_db_dir();
}
