//! Observers for the instrumented `teos::vsync` primitives (hook H5):
//! * `Recorder`: free-running; records the lock-order graph (which lock is acquired while which
//!   others are held), per thread, by lock name;
//! * `Sched`: deterministic scheduler at lock-acquisition granularity: managed threads run one at a
//!   time from one synchronisation point (lock request, condition-variable wait, end) to the next;
//!   the controller picks who goes next, detects circular waits and waits nobody can end.

use std::cell::RefCell;
use std::collections::{BTreeMap, BTreeSet, HashMap};
use std::sync::{Arc, Condvar, Mutex};

use teos::vsync::SyncObserver;

pub fn short_name(type_name: &str) -> &'static str {
    if type_name.contains("HashMap<teos_common::UserId") {
        "users"
    } else if type_name.ends_with("DBM") {
        "db"
    } else if type_name.contains("TxIndex<teos_common::appointment::Locator") {
        "cache"
    } else if type_name.contains("TxIndex<") {
        "tx_index"
    } else if type_name.ends_with("Carrier") {
        "carrier"
    } else if type_name.contains("HashSet<") {
        "reorged"
    } else if type_name == "bool" {
        "reachable"
    } else {
        "other"
    }
}

thread_local! {
    static HELD: RefCell<Vec<(usize, &'static str)>> = RefCell::new(vec![]);
    /// (scheduler id, thread id): a thread leaked by an earlier scheduler is invisible to later ones
    static MANAGED: RefCell<Option<(usize, usize)>> = RefCell::new(None);
}

// ------------------------------------------------------------------------------------ recorder
#[derive(Default)]
pub struct Recorder {
    /// (held, acquired) by short name
    pub edges: Mutex<BTreeSet<(String, String)>>,
    /// locks held while waiting on the condition variable
    pub waits_holding: Mutex<BTreeSet<String>>,
    pub acquisitions: Mutex<u64>,
}

impl SyncObserver for Recorder {
    fn before_lock(&self, _mutex: usize, name: &'static str) {
        let n = short_name(name);
        HELD.with(|h| {
            let h = h.borrow();
            if !h.is_empty() {
                let mut e = self.edges.lock().unwrap();
                for (_, held) in h.iter() {
                    e.insert((held.to_string(), n.to_string()));
                }
            }
        });
    }
    fn acquired(&self, mutex: usize, name: &'static str) {
        HELD.with(|h| h.borrow_mut().push((mutex, short_name(name))));
        *self.acquisitions.lock().unwrap() += 1;
    }
    fn released(&self, mutex: usize, _name: &'static str) {
        HELD.with(|h| {
            let mut h = h.borrow_mut();
            if let Some(p) = h.iter().rposition(|(m, _)| *m == mutex) {
                h.remove(p);
            }
        });
    }
    fn wait_begin(&self, _condvar: usize, _mutex: usize) -> bool {
        HELD.with(|h| {
            let mut w = self.waits_holding.lock().unwrap();
            for (_, n) in h.borrow().iter() {
                w.insert(n.to_string());
            }
        });
        false
    }
    fn wait_end(&self, _condvar: usize, _mutex: usize) {}
    fn notified(&self, _condvar: usize) {}
}

pub fn reset_thread_state() {
    HELD.with(|h| h.borrow_mut().clear());
}

// ------------------------------------------------------------------------------------ scheduler
#[derive(Clone, Debug, PartialEq, Eq)]
pub enum TState {
    NotStarted,
    Running,
    WantLock(usize, &'static str),
    /// waiting on a condition variable (not yet notified)
    Waiting(usize),
    /// notified: may proceed when scheduled
    Woken,
    Finished,
}

#[derive(Clone, Debug)]
pub enum Event {
    Acquire(usize, &'static str),
    Release(usize, &'static str),
    Wait(usize),
    Notify(usize),
    Done(usize),
}

pub struct SchedState {
    pub threads: Vec<TState>,
    pub owner: HashMap<usize, usize>,
    pub names: HashMap<usize, &'static str>,
    pub granted: Option<usize>,
    pub trace: Vec<Event>,
    pub held: Vec<Vec<(usize, &'static str)>>,
    pub edges: BTreeSet<(String, String)>,
    /// when set, managed threads are released from scheduling (teardown after a deadlock)
    pub abandon: bool,
}

pub struct Sched {
    pub id: usize,
    pub st: Mutex<SchedState>,
    pub cv: Condvar,
}

static NEXT_SCHED: std::sync::atomic::AtomicUsize = std::sync::atomic::AtomicUsize::new(1);

#[derive(Debug, Clone, PartialEq, Eq)]
pub enum Stuck {
    /// every unfinished thread wants a lock another unfinished thread holds
    Deadlock(Vec<(usize, String, Vec<String>)>),
    /// threads wait on a condition variable nobody is left to notify
    WaitForever(Vec<(usize, Vec<String>)>),
}

impl Sched {
    pub fn new(n: usize) -> Arc<Sched> {
        Arc::new(Sched {
            id: NEXT_SCHED.fetch_add(1, std::sync::atomic::Ordering::SeqCst),
            st: Mutex::new(SchedState {
                threads: vec![TState::NotStarted; n],
                owner: HashMap::new(),
                names: HashMap::new(),
                granted: None,
                trace: vec![],
                held: vec![vec![]; n],
                edges: BTreeSet::new(),
                abandon: false,
            }),
            cv: Condvar::new(),
        })
    }

    /// called by a managed thread when it starts: parks until first scheduled
    pub fn thread_start(&self, tid: usize) {
        MANAGED.with(|m| *m.borrow_mut() = Some((self.id, tid)));
        let mut st = self.st.lock().unwrap();
        st.threads[tid] = TState::Woken;
        self.cv.notify_all();
        while st.granted != Some(tid) && !st.abandon {
            st = self.cv.wait(st).unwrap();
        }
        st.granted = None;
        st.threads[tid] = TState::Running;
    }

    pub fn thread_end(&self, tid: usize) {
        let mut st = self.st.lock().unwrap();
        st.threads[tid] = TState::Finished;
        st.trace.push(Event::Done(tid));
        MANAGED.with(|m| *m.borrow_mut() = None);
        self.cv.notify_all();
    }

    fn me(&self) -> Option<usize> {
        MANAGED.with(|m| match *m.borrow() {
            Some((sid, tid)) if sid == self.id => Some(tid),
            _ => None,
        })
    }

    /// which threads can be scheduled now
    pub fn enabled(st: &SchedState) -> Vec<usize> {
        let mut v = vec![];
        for (i, t) in st.threads.iter().enumerate() {
            match t {
                TState::WantLock(m, _) => {
                    if !st.owner.contains_key(m) {
                        v.push(i);
                    }
                }
                TState::Woken => v.push(i),
                _ => {}
            }
        }
        v
    }

    /// controller: waits until no managed thread is running; returns the enabled set or how the run is stuck/finished
    pub fn settle(&self) -> Result<Vec<usize>, Option<Stuck>> {
        let mut st = self.st.lock().unwrap();
        loop {
            let busy = st.threads.iter().any(|t| matches!(t, TState::Running | TState::NotStarted)) || st.granted.is_some();
            if !busy {
                break;
            }
            let (g, timeout) = self.cv.wait_timeout(st, std::time::Duration::from_secs(20)).unwrap();
            st = g;
            if timeout.timed_out() {
                // a managed thread is stuck outside the observed primitives
                return Err(Some(Stuck::WaitForever(vec![(usize::MAX, vec!["unobserved-blocking".into()])])));
            }
        }
        let en = Self::enabled(&st);
        if !en.is_empty() {
            return Ok(en);
        }
        if st.threads.iter().all(|t| *t == TState::Finished) {
            return Err(None);
        }
        // stuck: classify
        let wanting: Vec<(usize, String, Vec<String>)> = st
            .threads
            .iter()
            .enumerate()
            .filter_map(|(i, t)| match t {
                TState::WantLock(_, n) => Some((i, short_name(n).to_string(), st.held[i].iter().map(|(_, n)| short_name(n).to_string()).collect())),
                _ => None,
            })
            .collect();
        let waiting: Vec<(usize, Vec<String>)> = st
            .threads
            .iter()
            .enumerate()
            .filter_map(|(i, t)| match t {
                TState::Waiting(_) => Some((i, st.held[i].iter().map(|(_, n)| short_name(n).to_string()).collect())),
                _ => None,
            })
            .collect();
        if !waiting.is_empty() {
            Err(Some(Stuck::WaitForever(waiting)))
        } else {
            Err(Some(Stuck::Deadlock(wanting)))
        }
    }

    pub fn grant(&self, tid: usize) {
        let mut st = self.st.lock().unwrap();
        st.granted = Some(tid);
        self.cv.notify_all();
    }

    /// releases every parked thread (after a deadlock: lets the process clean up)
    pub fn abandon(&self) {
        let mut st = self.st.lock().unwrap();
        st.abandon = true;
        self.cv.notify_all();
    }
}

impl SyncObserver for Sched {
    fn before_lock(&self, mutex: usize, name: &'static str) {
        let tid = match self.me() {
            Some(t) => t,
            None => return,
        };
        let mut st = self.st.lock().unwrap();
        if st.abandon {
            return;
        }
        st.names.insert(mutex, name);
        // lock-order edges
        let held: Vec<String> = st.held[tid].iter().map(|(_, n)| short_name(n).to_string()).collect();
        for h in held {
            st.edges.insert((h, short_name(name).to_string()));
        }
        st.threads[tid] = TState::WantLock(mutex, name);
        self.cv.notify_all();
        while st.granted != Some(tid) && !st.abandon {
            st = self.cv.wait(st).unwrap();
        }
        st.granted = None;
        st.threads[tid] = TState::Running;
    }
    fn acquired(&self, mutex: usize, name: &'static str) {
        if let Some(tid) = self.me() {
            let mut st = self.st.lock().unwrap();
            st.owner.insert(mutex, tid);
            st.held[tid].push((mutex, name));
            st.trace.push(Event::Acquire(tid, name));
        }
    }
    fn released(&self, mutex: usize, name: &'static str) {
        if let Some(tid) = self.me() {
            let mut st = self.st.lock().unwrap();
            st.owner.remove(&mutex);
            if let Some(p) = st.held[tid].iter().rposition(|(m, _)| *m == mutex) {
                st.held[tid].remove(p);
            }
            st.trace.push(Event::Release(tid, name));
        }
    }
    fn wait_begin(&self, condvar: usize, _mutex: usize) -> bool {
        let tid = match self.me() {
            Some(t) => t,
            None => return false,
        };
        let mut st = self.st.lock().unwrap();
        if st.abandon {
            return true;
        }
        st.threads[tid] = TState::Waiting(condvar);
        st.trace.push(Event::Wait(tid));
        self.cv.notify_all();
        while st.granted != Some(tid) && !st.abandon {
            st = self.cv.wait(st).unwrap();
        }
        st.granted = None;
        st.threads[tid] = TState::Running;
        true
    }
    fn wait_end(&self, _condvar: usize, _mutex: usize) {}
    fn notified(&self, condvar: usize) {
        let mut st = self.st.lock().unwrap();
        if let Some(tid) = self.me() {
            st.trace.push(Event::Notify(tid));
        }
        for t in st.threads.iter_mut() {
            if *t == TState::Waiting(condvar) {
                *t = TState::Woken;
            }
        }
    }
}

/// lock-order cycles in an edge set (by name)
pub fn find_cycles(edges: &BTreeSet<(String, String)>) -> Vec<Vec<String>> {
    let mut adj: BTreeMap<&str, Vec<&str>> = BTreeMap::new();
    for (a, b) in edges {
        adj.entry(a).or_default().push(b);
    }
    let mut cycles: BTreeSet<Vec<String>> = BTreeSet::new();
    fn dfs<'a>(n: &'a str, start: &'a str, adj: &BTreeMap<&'a str, Vec<&'a str>>, path: &mut Vec<&'a str>, out: &mut BTreeSet<Vec<String>>) {
        if path.len() > 6 {
            return;
        }
        if let Some(ns) = adj.get(n) {
            for m in ns {
                if *m == start {
                    let mut c: Vec<String> = path.iter().map(|s| s.to_string()).collect();
                    // canonical rotation
                    let min = c.iter().enumerate().min_by(|a, b| a.1.cmp(b.1)).unwrap().0;
                    c.rotate_left(min);
                    out.insert(c);
                } else if !path.contains(m) {
                    path.push(m);
                    dfs(m, start, adj, path, out);
                    path.pop();
                }
            }
        }
    }
    for s in adj.keys() {
        let mut path = vec![*s];
        dfs(s, s, &adj, &mut path, &mut cycles);
    }
    cycles.into_iter().collect()
}
