//! Simulated bitcoind behind `bitcoincore_rpc::Client`: an in-process jsonrpc `Transport`.
//! Replies are scripted per transaction id for the duration of one tower operation (the Lean
//! model takes the same table as its node oracle); every call is logged.

use std::collections::HashMap;
use std::fmt;
use std::sync::{Arc, Mutex};

use bitcoin::consensus;
use bitcoin::hashes::Hash;
use bitcoin::{Transaction, Txid};
use bitcoincore_rpc::jsonrpc;
use bitcoincore_rpc::jsonrpc::client::Transport;
use bitcoincore_rpc::jsonrpc::error::RpcError;
use bitcoincore_rpc::jsonrpc::{Request, Response};
use serde_json::value::RawValue;
use serde_json::{json, Value};

#[derive(Clone, Copy, Debug, PartialEq, Eq)]
pub enum SendR {
    Ok,
    Rpc(i32),
    /// neither an RPC error nor a transport error (an unparsable result)
    Other,
    /// connection refused
    Transport,
}

#[derive(Clone, Copy, Debug, PartialEq, Eq)]
pub enum GetR {
    Mempool,
    Confirmed,
    Rpc(i32),
    Other,
    Transport,
}

impl SendR {
    pub fn token(&self) -> String {
        match self {
            SendR::Ok => "ok".into(),
            SendR::Rpc(c) => format!("r{c}"),
            SendR::Other => "x".into(),
            SendR::Transport => "T".into(),
        }
    }
}

impl GetR {
    pub fn token(&self) -> String {
        match self {
            GetR::Mempool => "mem".into(),
            GetR::Confirmed => "conf".into(),
            GetR::Rpc(c) => format!("r{c}"),
            GetR::Other => "x".into(),
            GetR::Transport => "T".into(),
        }
    }
}

#[derive(Default)]
pub struct NodeState {
    pub send: HashMap<Txid, SendR>,
    pub get: HashMap<Txid, GetR>,
    /// (method, txid) of every call, in call order
    pub log: Vec<(String, Txid)>,
    /// when set, every call fails with a transport error (outage)
    pub down: bool,
    /// calls left before the node goes down (None: no scheduled outage)
    pub down_after: Option<usize>,
    /// number of calls refused while down
    pub refused: usize,
    pub txs: HashMap<Txid, Transaction>,
}

#[derive(Clone)]
pub struct SimNode(pub Arc<Mutex<NodeState>>);

impl SimNode {
    pub fn new() -> Self {
        SimNode(Arc::new(Mutex::new(NodeState::default())))
    }

    pub fn client(&self) -> bitcoincore_rpc::Client {
        bitcoincore_rpc::Client::from_jsonrpc(jsonrpc::client::Client::with_transport(self.clone()))
    }

    pub fn set_tables(&self, send: HashMap<Txid, SendR>, get: HashMap<Txid, GetR>) {
        let mut s = self.0.lock().unwrap();
        s.send = send;
        s.get = get;
    }

    pub fn take_log(&self) -> Vec<(String, Txid)> {
        std::mem::take(&mut self.0.lock().unwrap().log)
    }
}

#[derive(Debug)]
struct Refused;
impl fmt::Display for Refused {
    fn fmt(&self, f: &mut fmt::Formatter) -> fmt::Result {
        write!(f, "connection refused (simulated)")
    }
}
impl std::error::Error for Refused {}

fn ok_response(id: Value, v: Value) -> Response {
    Response {
        result: Some(RawValue::from_string(v.to_string()).unwrap()),
        error: None,
        id,
        jsonrpc: Some("2.0".into()),
    }
}

fn err_response(id: Value, code: i32) -> Response {
    Response {
        result: None,
        error: Some(RpcError { code, message: format!("simulated rpc error {code}"), data: None }),
        id,
        jsonrpc: Some("2.0".into()),
    }
}

impl Transport for SimNode {
    fn send_request(&self, req: Request) -> Result<Response, jsonrpc::Error> {
        let params: Vec<Value> = match req.params {
            Some(p) => serde_json::from_str(p.get()).unwrap_or_default(),
            None => vec![],
        };
        let mut s = self.0.lock().unwrap();
        if let Some(n) = s.down_after {
            if n == 0 {
                s.down = true;
                s.down_after = None;
            } else {
                s.down_after = Some(n - 1);
            }
        }
        if s.down {
            s.refused += 1;
            return Err(jsonrpc::Error::Transport(Box::new(Refused)));
        }
        match req.method {
            "sendrawtransaction" => {
                let hex = params.first().and_then(|v| v.as_str()).unwrap_or("");
                let tx: Transaction = consensus::deserialize(&hex::decode(hex).unwrap_or_default())
                    .expect("harness: tower sent an undecodable transaction");
                let txid = tx.compute_txid();
                s.log.push(("send".into(), txid));
                match s.send.get(&txid).cloned().unwrap_or(SendR::Ok) {
                    SendR::Ok => Ok(ok_response(req.id, json!(txid.to_string()))),
                    SendR::Rpc(c) => Ok(err_response(req.id, c)),
                    SendR::Other => Ok(ok_response(req.id, json!({"not": "a txid"}))),
                    SendR::Transport => Err(jsonrpc::Error::Transport(Box::new(Refused))),
                }
            }
            "getrawtransaction" => {
                let txid: Txid = params
                    .first()
                    .and_then(|v| v.as_str())
                    .and_then(|s| s.parse().ok())
                    .unwrap_or_else(|| Txid::from_slice(&[0; 32]).unwrap());
                s.log.push(("get".into(), txid));
                let hexs = s
                    .txs
                    .get(&txid)
                    .map(|t| hex::encode(consensus::serialize(t)))
                    .unwrap_or_default();
                let base = json!({"hex": hexs, "txid": txid.to_string(), "hash": txid.to_string(), "size": 0,
                                  "vsize": 0, "version": 2, "locktime": 0, "vin": [], "vout": []});
                match s.get.get(&txid).cloned().unwrap_or(GetR::Rpc(-5)) {
                    GetR::Mempool => Ok(ok_response(req.id, base)),
                    GetR::Confirmed => {
                        let mut b = base;
                        b["blockhash"] = json!("00000000000000000000000000000000000000000000000000000000000000aa");
                        b["confirmations"] = json!(3);
                        Ok(ok_response(req.id, b))
                    }
                    GetR::Rpc(c) => Ok(err_response(req.id, c)),
                    GetR::Other => Ok(ok_response(req.id, json!("garbage"))),
                    GetR::Transport => Err(jsonrpc::Error::Transport(Box::new(Refused))),
                }
            }
            other => {
                s.log.push((other.to_string(), Txid::from_slice(&[0; 32]).unwrap()));
                Ok(err_response(req.id, -32601))
            }
        }
    }

    fn send_batch(&self, _: &[Request]) -> Result<Vec<Response>, jsonrpc::Error> {
        Err(jsonrpc::Error::Transport(Box::new(Refused)))
    }

    fn fmt_target(&self, f: &mut fmt::Formatter) -> fmt::Result {
        write!(f, "simnode")
    }
}
