//! Output of a harness run: the op stream for the Lean driver, the implementation's own output
//! stream (same number of lines), and a JSON report (counts, samples, monitor failures).

use serde_json::{json, Value};
use std::collections::{BTreeMap, BTreeSet};
use std::fs;
use std::io::Write;
use std::path::{Path, PathBuf};

#[derive(Clone, Debug)]
pub struct Failure {
    pub property: String,
    /// stable fingerprint: what kind of failure, independent of the seed
    pub fingerprint: String,
    pub detail: String,
    pub case: String,
    /// the operation lines that replay the failure
    pub replay: Vec<String>,
}

pub struct Report {
    pub dir: PathBuf,
    ops: Vec<String>,
    outs: Vec<String>,
    case_start: usize,
    pub case_name: String,
    pub evaluations: u64,
    pub distinct: BTreeSet<String>,
    pub samples: Vec<Value>,
    pub dist: BTreeMap<String, u64>,
    pub failures: Vec<Failure>,
    pub extra: BTreeMap<String, Value>,
    pub max_samples: usize,
    /// lines are recorded for the replay but not compared with the model (the model answers `-`)
    pub uncompared: bool,
}

impl Report {
    pub fn new(dir: &Path) -> Self {
        fs::create_dir_all(dir).unwrap();
        Report {
            dir: dir.to_path_buf(),
            ops: vec![],
            outs: vec![],
            case_start: 0,
            case_name: String::new(),
            evaluations: 0,
            distinct: BTreeSet::new(),
            samples: vec![],
            dist: BTreeMap::new(),
            failures: vec![],
            extra: BTreeMap::new(),
            max_samples: 3,
            uncompared: false,
        }
    }

    /// a report that is only ever merged into another one (parallel cases)
    pub fn detached() -> Self {
        Report {
            dir: PathBuf::new(),
            ops: vec![],
            outs: vec![],
            case_start: 0,
            case_name: String::new(),
            evaluations: 0,
            distinct: BTreeSet::new(),
            samples: vec![],
            dist: BTreeMap::new(),
            failures: vec![],
            extra: BTreeMap::new(),
            max_samples: 3,
            uncompared: false,
        }
    }

    /// append everything `other` recorded (cases run elsewhere), keeping the first / shortest example per fingerprint
    pub fn absorb(&mut self, other: Report) {
        self.ops.extend(other.ops);
        self.outs.extend(other.outs);
        self.case_start = self.ops.len();
        self.evaluations += other.evaluations;
        self.distinct.extend(other.distinct);
        for s in other.samples {
            if self.samples.len() < self.max_samples {
                self.samples.push(s);
            }
        }
        for (k, v) in other.dist {
            *self.dist.entry(k).or_insert(0) += v;
        }
        for f in other.failures {
            if let Some(old) = self.failures.iter_mut().find(|o| o.property == f.property && o.fingerprint == f.fingerprint) {
                if f.replay.len() < old.replay.len() {
                    *old = f;
                }
            } else {
                self.failures.push(f);
            }
        }
        for (k, v) in other.extra {
            self.extra.insert(k, v);
        }
    }

    pub fn begin_case(&mut self, name: &str) {
        self.case_name = name.to_string();
        self.uncompared = false;
        self.case_start = self.ops.len();
        self.line(&format!("case {name}"), &format!("case {name}"));
        self.evaluations += 1;
    }

    /// one operation line and the implementation's canonical answer to it
    pub fn line(&mut self, op: &str, out: &str) {
        debug_assert!(!op.contains('\n') && !out.contains('\n'));
        if self.uncompared {
            self.ops.push(format!("tx {op} => {out}"));
            self.outs.push("-".to_string());
            return;
        }
        self.ops.push(op.to_string());
        self.outs.push(out.to_string());
    }

    pub fn rewrite_last_out(&mut self, out: &str) {
        if let Some(l) = self.outs.last_mut() {
            *l = out.to_string();
        }
    }

    pub fn case_ops(&self) -> Vec<String> {
        self.ops[self.case_start..].to_vec()
    }

    pub fn count(&mut self, key: &str) {
        *self.dist.entry(key.to_string()).or_insert(0) += 1;
    }

    pub fn count_n(&mut self, key: &str, n: u64) {
        *self.dist.entry(key.to_string()).or_insert(0) += n;
    }

    pub fn end_case(&mut self, nontrivial_key: Option<String>) {
        if let Some(k) = nontrivial_key {
            self.distinct.insert(k);
        }
        if self.samples.len() < self.max_samples {
            let ops = self.case_ops();
            let outs = self.outs[self.case_start..].to_vec();
            let n = ops.len().min(40);
            self.samples.push(json!({"case": self.case_name, "ops": ops[..n].to_vec(), "impl_out": outs[..n].to_vec()}));
        }
    }

    pub fn fail(&mut self, property: &str, fingerprint: &str, detail: &str) {
        let f = Failure {
            property: property.to_string(),
            fingerprint: fingerprint.to_string(),
            detail: detail.to_string(),
            case: self.case_name.clone(),
            replay: self.case_ops(),
        };
        // keep the first (and shortest) example per fingerprint, count the rest
        self.count(&format!("monitor_failure:{property}:{fingerprint}"));
        if let Some(old) = self
            .failures
            .iter_mut()
            .find(|o| o.property == f.property && o.fingerprint == f.fingerprint)
        {
            if f.replay.len() < old.replay.len() {
                *old = f;
            }
        } else {
            self.failures.push(f);
        }
    }

    pub fn finish(&self, rule: &str, exhaustive: bool) {
        let mut f = fs::File::create(self.dir.join("ops.txt")).unwrap();
        for l in &self.ops {
            writeln!(f, "{l}").unwrap();
        }
        let mut f = fs::File::create(self.dir.join("impl.out")).unwrap();
        for l in &self.outs {
            writeln!(f, "{l}").unwrap();
        }
        let failures: Vec<Value> = self
            .failures
            .iter()
            .map(|x| {
                json!({"property": x.property, "fingerprint": x.fingerprint, "detail": x.detail,
                       "case": x.case, "replay": x.replay})
            })
            .collect();
        let rep = json!({
            "evaluations": self.evaluations,
            "distinct_nontrivial": self.distinct.len(),
            "rule": rule,
            "exhaustive": exhaustive,
            "samples": self.samples,
            "input_distribution": self.dist,
            "impl_oracle_failures": failures,
            "lines": self.ops.len(),
            "extra": self.extra,
        });
        fs::write(
            self.dir.join("report.json"),
            serde_json::to_string_pretty(&rep).unwrap(),
        )
        .unwrap();
    }
}
