//! A plugin process + its fake towers + observation of the client's state (RPC answers and the
//! sqlite file), for the binary-level scenarios of C05 / C13 / C14.

use std::collections::{BTreeMap, BTreeSet};
use std::path::PathBuf;
use std::time::{Duration, Instant};

use serde_json::{json, Value};

use crate::client::Rows;
use crate::plugin::{AddMode, CallErr, FakeTower, PluginProc, RegMode};

pub fn txid_hex(l: u32) -> String {
    hex::encode([0x40 + l as u8; 32])
}

pub fn penalty_hex(l: u32) -> String {
    use bitcoin::absolute::LockTime;
    use bitcoin::transaction::Version;
    use bitcoin::{Amount, OutPoint, ScriptBuf, Sequence, Transaction, TxIn, TxOut, Witness};
    let tx = Transaction {
        version: Version::TWO,
        lock_time: LockTime::ZERO,
        input: vec![TxIn { previous_output: OutPoint::null(), script_sig: ScriptBuf::new(), sequence: Sequence::MAX, witness: Witness::new() }],
        output: vec![TxOut { value: Amount::from_sat(1000 + l as u64), script_pubkey: ScriptBuf::new() }],
    };
    bitcoin::consensus::encode::serialize_hex(&tx)
}

#[derive(Clone, Debug, PartialEq, Eq, Default)]
pub struct TowerView {
    pub status: String,
    pub pending: BTreeSet<u32>,
    pub invalid: BTreeSet<u32>,
    pub slots: u64,
    pub expiry: u64,
}

#[derive(Clone, Debug, PartialEq, Eq, Default)]
pub struct View {
    pub towers: BTreeMap<u32, TowerView>,
    pub rows: Rows,
}

fn status_short(s: &str) -> &'static str {
    match s {
        "reachable" => "r",
        "temporary_unreachable" => "tu",
        "unreachable" => "u",
        "subscription_error" => "se",
        "misbehaving" => "m",
        _ => "?",
    }
}

fn locs(v: &Value) -> BTreeSet<u32> {
    v.as_array().map(|a| a.iter().filter_map(|x| hex::decode(x.as_str()?).ok().map(|b| (b[0] - 0x40) as u32)).collect()).unwrap_or_default()
}

impl View {
    /// canonical one-line form; `with_status = false` drops the volatile part
    pub fn line(&self) -> String {
        let ts: Vec<String> = self.towers.iter().map(|(t, v)| {
            let f = |s: &BTreeSet<u32>| s.iter().map(|x| x.to_string()).collect::<Vec<_>>().join(",");
            format!("{t}:{}:p={}:i={}", v.status, f(&v.pending), f(&v.invalid))
        }).collect();
        let r = &self.rows;
        let j = |v: Vec<String>| v.join(",");
        format!(
            "towers=[{}] rcpts=[{}] pend=[{}] inval=[{}] bodies=[{}] proofs=[{}]",
            ts.join(";"),
            // the receipt stored with a misbehaviour proof is the evidence, not an acceptance (and on the retry
            // path which locator it belongs to depends on a hash set's iteration order)
            j(r.rcpts.keys().filter(|(t, l)| r.proofs.get(t).map_or(true, |p| p.0 != *l)).map(|(t, l)| format!("{t}/{l}")).collect()),
            j(r.pend.iter().map(|(t, l)| format!("{t}/{l}")).collect()),
            j(r.inval.iter().map(|(t, l)| format!("{t}/{l}")).collect()),
            j(r.bodies.keys().map(|l| l.to_string()).collect()),
            j(r.proofs.keys().map(|t| t.to_string()).collect()),
        )
    }
}

pub struct PWorld {
    pub plugin: PluginProc,
    pub towers: Vec<FakeTower>,
    pub dir: PathBuf,
    pub started: Instant,
}

impl PWorld {
    pub fn new(tag: &str, n_towers: u32, port_base: u16, opts: (u32, u32, u32)) -> PWorld {
        let dir = std::env::temp_dir().join(format!("teos-harness-plugin-{}-{tag}", std::process::id()));
        let _ = std::fs::remove_dir_all(&dir);
        let towers = (0..n_towers).map(|i| FakeTower::start(i, port_base + 10 * i as u16)).collect();
        let plugin = PluginProc::start(&dir, opts);
        PWorld { plugin, towers, dir, started: Instant::now() }
    }

    pub fn db_path(&self) -> PathBuf {
        self.dir.join("watchtowers_db.sql3")
    }

    pub fn register(&mut self, t: u32) -> Result<Value, CallErr> {
        let tw = &self.towers[t as usize];
        let arg = format!("{}@127.0.0.1:{}", tw.id_hex(), tw.port);
        self.plugin.call("registertower", json!([arg]), 15)
    }

    /// the `commitment_revocation` hook; returns the hook's answer (or how it failed)
    pub fn notify(&mut self, l: u32, timeout_s: u64) -> Result<Value, CallErr> {
        let id = self.notify_async(l);
        self.plugin.wait(id, timeout_s)
    }
    pub fn notify_async(&mut self, l: u32) -> u64 {
        self.plugin.send("commitment_revocation", json!({"channel_id": "aa".repeat(32), "commitnum": l, "commitment_txid": txid_hex(l), "penalty_tx": penalty_hex(l)}))
    }

    pub fn retry(&mut self, t: u32) -> Result<Value, CallErr> {
        let id = self.towers[t as usize].id_hex();
        self.plugin.call("retrytower", json!([id]), 10)
    }
    pub fn abandon(&mut self, t: u32) -> Result<Value, CallErr> {
        let id = self.towers[t as usize].id_hex();
        self.plugin.call("abandontower", json!([id]), 10)
    }
    pub fn tower_info(&mut self, t: u32) -> Result<Value, CallErr> {
        let id = self.towers[t as usize].id_hex();
        self.plugin.call("gettowerinfo", json!([id]), 10)
    }

    pub fn set_add(&self, t: u32, m: AddMode) {
        let mut st = self.towers[t as usize].st.lock().unwrap();
        st.add = m;
        st.renewed = false;
    }
    pub fn set_reg(&self, t: u32, m: RegMode) {
        self.towers[t as usize].st.lock().unwrap().reg = m;
    }
    pub fn set_down(&self, t: u32, down: bool) {
        self.towers[t as usize].st.lock().unwrap().down = down;
        std::thread::sleep(Duration::from_millis(30));
    }

    /// the client's file lets one more write to the appointment tables through and refuses the following ones
    pub fn arm_second_write_fault(&self) {
        let Ok(conn) = rusqlite::Connection::open(self.db_path()) else { return };
        let _ = conn.busy_timeout(Duration::from_secs(5));
        let mut sql = String::from("CREATE TABLE IF NOT EXISTS verif_fault (n INTEGER); DELETE FROM verif_fault; INSERT INTO verif_fault VALUES (0);");
        for (i, (table, what)) in [("appointment_receipts", "INSERT"), ("pending_appointments", "DELETE"), ("invalid_appointments", "INSERT"), ("pending_appointments", "INSERT")].iter().enumerate() {
            sql += &format!("CREATE TRIGGER IF NOT EXISTS verif_before_{i} BEFORE {what} ON {table} WHEN (SELECT n FROM verif_fault) >= 1 BEGIN SELECT RAISE(ABORT, 'verif: the process is killed here'); END;");
            sql += &format!("CREATE TRIGGER IF NOT EXISTS verif_after_{i} AFTER {what} ON {table} BEGIN UPDATE verif_fault SET n = n + 1; END;");
        }
        if let Err(e) = conn.execute_batch(&sql) {
            eprintln!("arm_second_write_fault: {e}");
        }
    }

    fn disarm_write_fault(&self) {
        if !self.db_path().exists() {
            return;
        }
        let Ok(conn) = rusqlite::Connection::open(self.db_path()) else { return };
        let _ = conn.busy_timeout(Duration::from_secs(5));
        let mut sql = String::new();
        for i in 0..4 {
            sql += &format!("DROP TRIGGER IF EXISTS verif_before_{i}; DROP TRIGGER IF EXISTS verif_after_{i};");
        }
        sql += "DROP TABLE IF EXISTS verif_fault;";
        let _ = conn.execute_batch(&sql);
    }

    pub fn restart(&mut self) {
        self.plugin.kill();
        self.disarm_write_fault();
        let opts = self.plugin.opts;
        self.plugin = PluginProc::start(&self.dir, opts);
    }

    pub fn view(&mut self) -> Result<View, CallErr> {
        let lt = self.plugin.list_towers()?;
        let mut towers = BTreeMap::new();
        for (t, s) in lt {
            towers.insert(t, TowerView {
                status: status_short(s["status"].as_str().unwrap_or("")).to_string(),
                pending: locs(&s["pending_appointments"]),
                invalid: locs(&s["invalid_appointments"]),
                slots: s["available_slots"].as_u64().unwrap_or(0),
                expiry: s["subscription_expiry"].as_u64().unwrap_or(0),
            });
        }
        let rows = if self.db_path().exists() { Rows::read_lenient(&self.db_path()) } else { Rows::default() };
        Ok(View { towers, rows })
    }

    /// poll until the view has not changed for `quiet` (and at least `min` has passed); None on time-out
    pub fn settle(&mut self, min: Duration, quiet: Duration, max: Duration) -> Option<View> {
        let t0 = Instant::now();
        let mut last: Option<View> = None;
        let mut since = Instant::now();
        loop {
            let v = self.view().ok();
            if v != last {
                last = v;
                since = Instant::now();
            } else if since.elapsed() >= quiet && t0.elapsed() >= min {
                return last;
            }
            if t0.elapsed() > max {
                return None;
            }
            std::thread::sleep(Duration::from_millis(150));
        }
    }

    /// poll until the view equals `want` (compared through `View::line`) and stays so for `quiet`
    pub fn wait_for(&mut self, want: &str, quiet: Duration, max: Duration) -> Result<View, Option<View>> {
        let t0 = Instant::now();
        let mut ok_since: Option<Instant> = None;
        let mut last = None;
        loop {
            let v = self.view().ok();
            let matches = v.as_ref().map_or(false, |x| x.line() == want);
            last = v.or(last);
            if matches {
                let s = *ok_since.get_or_insert_with(Instant::now);
                if s.elapsed() >= quiet {
                    return Ok(last.unwrap());
                }
            } else {
                ok_since = None;
            }
            if t0.elapsed() > max {
                return Err(last);
            }
            std::thread::sleep(Duration::from_millis(120));
        }
    }
}

impl Drop for PWorld {
    fn drop(&mut self) {
        self.plugin.kill();
        let _ = std::fs::remove_dir_all(&self.dir);
    }
}
