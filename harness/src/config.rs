//! C20: the real `from_file` + `Opt::from_iter` + `patch_with_options` + `verify` against the
//! generated Lean model, exhaustively per field (file present/absent × command line given/not),
//! all 8 credential combinations (each placed in the file and on the command line), every
//! accepted network name plus unknown ones, explicit and implicit ports; plus random joint draws.

use std::collections::BTreeMap;
use std::path::PathBuf;

use structopt::StructOpt;
use teos::config::{self, Config, Opt};

use crate::report::Report;
use crate::rng::Rng;

fn tmp_dir() -> PathBuf {
    let base = if std::path::Path::new("/dev/shm").is_dir() { "/dev/shm" } else { "/tmp" };
    let d = PathBuf::from(format!("{base}/teos-verif-cfg-{}", std::process::id()));
    std::fs::create_dir_all(&d).unwrap();
    d
}

fn toml_value(field: &str, v: &str, defaults: &serde_json::Value) -> String {
    match &defaults[field] {
        serde_json::Value::String(_) => format!("{field} = \"{v}\""),
        _ => format!("{field} = {v}"),
    }
}

/// effective config for the given file fields and command-line fields (before `verify`)
fn effective(file: &BTreeMap<String, String>, cli: &BTreeMap<String, String>, defaults: &serde_json::Value) -> Option<Config> {
    let dir = tmp_dir();
    let path = dir.join("teos.toml");
    let body: Vec<String> = file.iter().map(|(k, v)| toml_value(k, v, defaults)).collect();
    if file.is_empty() {
        let _ = std::fs::remove_file(&path);
    } else {
        std::fs::write(&path, body.join("\n")).unwrap();
    }
    let mut conf: Config = config::from_file(&path);
    let mut args = vec!["teosd".to_string()];
    for (k, v) in cli {
        let name = format!("--{}", k.replace('_', ""));
        match &defaults[k.as_str()] {
            serde_json::Value::Bool(_) => {
                if v == "true" {
                    args.push(name);
                }
            }
            _ => {
                args.push(name);
                args.push(v.clone());
            }
        }
    }
    let opt = Opt::from_iter_safe(args).ok()?;
    conf.patch_with_options(opt);
    Some(conf)
}

fn show(v: &serde_json::Value) -> String {
    let s = match v {
        serde_json::Value::String(s) => s.clone(),
        other => other.to_string(),
    };
    if s.is_empty() { "@empty".into() } else { s }
}

fn tok(v: Option<&String>) -> String {
    match v {
        None => "-".into(),
        Some(s) if s.is_empty() => "@empty".into(),
        Some(s) => s.clone(),
    }
}

pub fn run(seed: u64, thorough: bool, rep: &mut Report) {
    let defaults = serde_json::json!(&Config::default());
    let fields: Vec<String> = defaults.as_object().unwrap().keys().cloned().collect();
    let has_cli = |f: &str| Opt::from_iter_safe(vec!["teosd".to_string(), format!("--{}", f.replace('_', "")), "1".into()]).is_ok()
        || Opt::from_iter_safe(vec!["teosd".to_string(), format!("--{}", f.replace('_', ""))]).is_ok();
    // ---- per field, exhaustively
    rep.begin_case("config-per-field");
    for f in &fields {
        let is_bool = defaults[f.as_str()].is_boolean();
        let is_num = defaults[f.as_str()].is_number();
        let file_vals: Vec<Option<String>> = if is_bool {
            vec![None, Some("true".into()), Some("false".into())]
        } else if is_num {
            vec![None, Some("1111".into())]
        } else {
            vec![None, Some("fileval".into())]
        };
        let cli_vals: Vec<Option<String>> = if !has_cli(f) {
            vec![None]
        } else if is_bool {
            vec![None, Some("true".into())]
        } else if is_num {
            vec![None, Some("2222".into())]
        } else {
            vec![None, Some("clival".into())]
        };
        for fv in &file_vals {
            for cv in &cli_vals {
                let mut file = BTreeMap::new();
                let mut cli = BTreeMap::new();
                if let Some(v) = fv {
                    file.insert(f.clone(), v.clone());
                }
                if let Some(v) = cv {
                    cli.insert(f.clone(), v.clone());
                }
                let conf = effective(&file, &cli, &defaults).expect("cli parses");
                let got = serde_json::json!(&conf);
                rep.line(&format!("cf eff {f} {} {}", tok(fv.as_ref()), tok(cv.as_ref())), &show(&got[f.as_str()]));
                rep.count(&format!("field:{}", if has_cli(f) { "with-cli" } else { "file-only" }));
                // monitor: the statement itself
                let want = if f == "overwrite_key" || f == "force_update" {
                    cv.clone().unwrap_or_else(|| "false".into())
                } else if is_bool {
                    if cv.as_deref() == Some("true") { "true".into() } else { fv.clone().unwrap_or_else(|| show(&defaults[f.as_str()])) }
                } else {
                    cv.clone().or_else(|| fv.clone()).unwrap_or_else(|| show(&defaults[f.as_str()]))
                };
                if show(&got[f.as_str()]) != want {
                    rep.fail("C20", &format!("precedence:{f}"), &format!("{f}: file {fv:?} cli {cv:?} -> {}, expected {want}", show(&got[f.as_str()])));
                }
                // independence: nothing else moved
                for g in &fields {
                    if g != f && got[g.as_str()] != defaults[g.as_str()] {
                        rep.fail("C20", &format!("not-independent:{f}"), &format!("setting {f} changed {g}"));
                    }
                }
            }
        }
    }
    rep.end_case(Some("per-field".into()));
    // ---- credentials: 8 combinations × where each value comes from
    rep.begin_case("config-auth");
    for mask in 0..8u32 {
        for place in 0..8u32 {
            let mut file = BTreeMap::new();
            let mut cli = BTreeMap::new();
            let names = ["btc_rpc_user", "btc_rpc_password", "btc_rpc_cookie"];
            for (i, n) in names.iter().enumerate() {
                if mask >> i & 1 == 1 {
                    if place >> i & 1 == 1 {
                        cli.insert(n.to_string(), "x".to_string());
                    } else {
                        file.insert(n.to_string(), "x".to_string());
                    }
                }
            }
            let mut conf = effective(&file, &cli, &defaults).unwrap();
            let ok = conf.verify().is_ok();
            let e = |i: u32| if mask >> i & 1 == 1 { 0 } else { 1 };
            rep.line(&format!("cf auth {} {} {}", e(0), e(1), e(2)), if ok { "ok" } else { "refused" });
            let want = mask == 0b011 || mask == 0b100;
            if ok != want {
                rep.fail("C20", "auth_not_exactly_one", &format!("user/password/cookie set = {:03b}: verify {}", mask, if ok { "accepted" } else { "refused" }));
            }
            rep.count("auth-combination");
        }
    }
    rep.end_case(Some("auth".into()));
    // ---- networks and ports
    rep.begin_case("config-network");
    let nets = ["mainnet", "testnet", "signet", "regtest", "main", "test", "bitcoin", "net", "MAINNET", "testnet4", "", "regtestnet", "signetnet"];
    for n in nets {
        for port in [0u32, 8332, 4242] {
            for via_cli in [false, true] {
                let mut file = BTreeMap::new();
                let mut cli = BTreeMap::new();
                file.insert("btc_rpc_user".to_string(), "u".to_string());
                file.insert("btc_rpc_password".to_string(), "p".to_string());
                let tgt = if via_cli { &mut cli } else { &mut file };
                tgt.insert("btc_network".to_string(), n.to_string());
                if port != 0 {
                    tgt.insert("btc_rpc_port".to_string(), port.to_string());
                }
                if via_cli && n.is_empty() {
                    continue;
                }
                let mut conf = match effective(&file, &cli, &defaults) {
                    Some(c) => c,
                    None => continue,
                };
                let res = conf.verify();
                let out = match res {
                    Ok(()) => format!("ok {} {}", conf.btc_network, conf.btc_rpc_port),
                    Err(_) => "refused".into(),
                };
                rep.line(&format!("cf net {} {port}", if n.is_empty() { "@empty" } else { n }), &out);
                let table: BTreeMap<&str, (&str, u32)> = [("mainnet", ("main", 8332)), ("testnet", ("test", 18332)), ("signet", ("signet", 38332)), ("regtest", ("regtest", 18443)), ("main", ("main", 8332)), ("test", ("test", 18332))].into_iter().collect();
                let want = match table.get(n) {
                    Some((nn, d)) => format!("ok {nn} {}", if port == 0 { *d } else { port }),
                    None => "refused".into(),
                };
                if out != want {
                    rep.fail("C20", "network_or_port", &format!("network {n:?} port {port}: {out}, expected {want}"));
                }
                rep.count("network-case");
            }
        }
    }
    rep.end_case(Some("network".into()));
    // ---- random joint draws: several fields in the file and on the command line at once
    let mut rng = Rng::new(seed);
    let draws = if thorough { 3000 } else { 300 };
    rep.begin_case("config-joint");
    for _ in 0..draws {
        let mut file = BTreeMap::new();
        let mut cli = BTreeMap::new();
        for f in &fields {
            let is_bool = defaults[f.as_str()].is_boolean();
            let is_num = defaults[f.as_str()].is_number();
            if rng.chance(1, 3) {
                file.insert(f.clone(), if is_bool { ["true", "false"][rng.below(2) as usize].to_string() } else if is_num { format!("{}", 1000 + rng.below(50)) } else { format!("f{}", rng.below(9)) });
            }
            if has_cli(f) && rng.chance(1, 3) {
                cli.insert(f.clone(), if is_bool { "true".to_string() } else if is_num { format!("{}", 2000 + rng.below(50)) } else { format!("c{}", rng.below(9)) });
            }
        }
        let conf = match effective(&file, &cli, &defaults) {
            Some(c) => c,
            None => continue,
        };
        let got = serde_json::json!(&conf);
        for f in &fields {
            rep.line(&format!("cf eff {f} {} {}", tok(file.get(f)), tok(cli.get(f))), &show(&got[f.as_str()]));
            // monitor: the statement itself, field by field, whatever else is set in the same draw
            let is_bool = defaults[f.as_str()].is_boolean();
            let (fv, cv) = (file.get(f).cloned(), cli.get(f).cloned());
            let want = if f == "overwrite_key" || f == "force_update" {
                cv.clone().unwrap_or_else(|| "false".into())
            } else if is_bool {
                if cv.as_deref() == Some("true") { "true".into() } else { fv.clone().unwrap_or_else(|| show(&defaults[f.as_str()])) }
            } else {
                cv.clone().or_else(|| fv.clone()).unwrap_or_else(|| show(&defaults[f.as_str()]))
            };
            if show(&got[f.as_str()]) != want {
                rep.fail("C20", &format!("precedence-joint:{f}"), &format!("{f}: file {fv:?} cli {cv:?} -> {}, expected {want} (file {file:?}, command line {cli:?})", show(&got[f.as_str()])));
            }
        }
        rep.count("joint-draw");
    }
    rep.end_case(Some("joint".into()));
    let _ = std::fs::remove_dir_all(tmp_dir());
}
