import TeosVerif.Props.C12
#print axioms Teos.C12.rpcAttempt_sends
#print axioms Teos.C12.no_submission_dropped
#print axioms Teos.C12.api_503_iff_flag_down
#print axioms Teos.C12.transport_error_is_noticed
#print axioms Teos.C12.failed_poll_is_noticed
#print axioms Teos.C12.request_path_recovers
#print axioms Teos.C12.request_path_blocks_chain
#print axioms Teos.C12.request_path_blocks_chain_forever
#print axioms Teos.C12.block_path_self_wait
#print axioms Teos.C12.bad_states_reachable
#print axioms Teos.C12.poll_partial_progress_kept
#print axioms Teos.C12.a_successful_poll_ends_the_outage
#print axioms Teos.C12.outage_noticed_means_flag_down
