import TeosVerif.Props.C04
#print axioms Teos.C04.completion_iff_100
#print axioms Teos.C04.irrevocably_resolved_is_100
#print axioms Teos.C04.confirmation_recorded
#print axioms Teos.C04.disconnection_marks
#print axioms Teos.C04.reorg_dispute_rejected
#print axioms Teos.C04.reorg_penalty_rejected
#print axioms Teos.C04.reorg_resubmitted
#print axioms Teos.C04.reorg_sends_dispute_then_penalty
#print axioms Teos.C04.rebroadcast_cadence
#print axioms Teos.C04.retry_period_is_6
#print axioms Teos.C04.rebroadcast_outcome
#print axioms Teos.C04.dropped_without_refund
#print axioms Teos.C04.completed_is_forgotten
#print axioms Teos.C04.refund_is_one_write
