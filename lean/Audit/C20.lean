import TeosVerif.Props.C20
#print axioms Teos.C20.precedence_option
#print axioms Teos.C20.precedence_flag
#print axioms Teos.C20.precedence_file_only
#print axioms Teos.C20.one_shot_cli_only
#print axioms Teos.C20.only_those_two_are_cli_only
#print axioms Teos.C20.every_cli_option_is_patched
#print axioms Teos.C20.fields_independent
#print axioms Teos.C20.auth_exactly_one
#print axioms Teos.C20.network_known
#print axioms Teos.C20.network_accepted_iff
#print axioms Teos.C20.port_default
#print axioms Teos.C20.documented_defaults
