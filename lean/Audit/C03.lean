import TeosVerif.Props.C03
#print axioms Teos.C03.setSlots_isSome
#print axioms Teos.C03.foldl_setSlots
#print axioms Teos.C03.apply_preserves_integrity
#print axioms Teos.C03.durable_inv_every_prefix
#print axioms Teos.C03.crash_keeps_integrity
#print axioms Teos.C03.empty_consistent
#print axioms Teos.C03.storeUser_faithful
#print axioms Teos.C03.updateUser_faithful
#print axioms Teos.C03.storeAppt_faithful
#print axioms Teos.C03.storeTracker_faithful
#print axioms Teos.C03.refund_is_atomic_with_deletion
#print axioms Teos.C03.charge_precedes_store
#print axioms Teos.C03.shrinking_update_refund_precedes_row
#print axioms Teos.C03.lkb_written_last
#print axioms Teos.C03.partial_poll_records_undelivered_tip
#print axioms Teos.C03.no_dangling_records_ever
#print axioms Teos.C03.restart_is_consistent
