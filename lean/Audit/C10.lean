import TeosVerif.Props.C10
#print axioms Teos.C10.late_add_sees_block
#print axioms Teos.C10.late_add_takes_triggered_path
#print axioms Teos.C10.breachStep_handles
#print axioms Teos.C10.early_add_found_by_block
#print axioms Teos.C10.accepted_then_block_finds_it
#print axioms Teos.C10.second_identical_add_charges_nothing
#print axioms Teos.C10.slot_updates_commute
#print axioms Teos.C10.resubmission_charged_once
#print axioms Teos.C10.updateUser_appts
#print axioms Teos.C10.topup_and_charge_commute
#print axioms Teos.C10.no_orphan_record
