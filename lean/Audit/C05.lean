import TeosVerif.Props.C05
#print axioms Teos.C05.one_operation_never_loses
#print axioms Teos.C05.guarded_take
#print axioms Teos.C05.never_lost
#print axioms Teos.C05.move_accepted
#print axioms Teos.C05.move_rejected
#print axioms Teos.C05.hook_records
#print axioms Teos.C05.event_never_loses
#print axioms Teos.C05.abandon_inv
#print axioms Teos.C05.abandon_only_that_tower
#print axioms Teos.C05.notify_records_all
#print axioms Teos.C05.holdAfter_records_all
#print axioms Teos.C05.all_due_recorded
#print axioms Teos.C05.all_due_recorded_from_start
#print axioms Teos.C05.tidy_run
#print axioms Teos.C05.exactly_one_at_stable_points
#print axioms Teos.C05.record_call_sites_are_the_modelled_ones
#print axioms Teos.C05.the_retrier_records_before_it_releases
