import TeosVerif.Props.C11
#print axioms Teos.C11.rank_respecting_no_deadlock
#print axioms Teos.C11.step_good
#print axioms Teos.C11.reach_good
#print axioms Teos.C11.deadlock_free_forever
#print axioms Teos.C11.tower_ops_rank_respecting
#print axioms Teos.C11.tower_never_deadlocks
#print axioms Teos.C11.old_orders_have_no_rank
#print axioms Teos.C11.reads_never_abort
#print axioms Teos.C11.register_never_aborts
#print axioms Teos.C11.refused_request_never_aborts
#print axioms Teos.C11.aborted_is_final
#print axioms Teos.C11.tower_never_aborts
#print axioms Teos.C11.data_consistent_forever
#print axioms Teos.C11.step_keeps_invariant
#print axioms Teos.C11.fresh_database_consistent
