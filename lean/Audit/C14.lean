import TeosVerif.Props.C14
#print axioms Teos.C14.registration_recorded_iff
#print axioms Teos.C14.bad_registration_not_recorded
#print axioms Teos.C14.wrong_signer_flags
#print axioms Teos.C14.wrong_signer_flags_on_retry
#print axioms Teos.C14.misbehaving_gets_nothing
#print axioms Teos.C14.misbehaving_is_sticky
#print axioms Teos.C14.misbehaving_not_retried
#print axioms Teos.C14.every_reply_handled_on_notification
#print axioms Teos.C14.every_reply_handled_on_retry
#print axioms Teos.C14.every_reply_handled_on_register
#print axioms Teos.C14.classify_total
#print axioms Teos.C14.flagging_call_sites_are_the_modelled_ones
#print axioms Teos.C14.misbehaving_is_final
#print axioms Teos.C14.flagging_establishes_the_flag
