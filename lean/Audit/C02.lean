import TeosVerif.Props.C02
#print axioms Teos.C02.carrier_submits_only_its_argument
#print axioms Teos.C02.breach_submits_only_its_penalty
#print axioms Teos.C02.loop_submits_only_decrypted_penalties
#print axioms Teos.C02.only_matching_locators_are_disputes
#print axioms Teos.C02.no_send_for_purged
#print axioms Teos.C02.listener_order_is_modelled
#print axioms Teos.C02.reorg_resubmits_only_tracker_txs
#print axioms Teos.C02.rebroadcast_only_tracker_penalty
#print axioms Teos.C02.responded_implies_node_has
#print axioms Teos.C02.disconnect_updates_cache
