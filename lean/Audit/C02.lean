import TeosVerif.Props.C02
#print axioms Teos.C02.carrier_submits_only_its_argument
#print axioms Teos.C02.breach_submits_only_its_penalty
#print axioms Teos.C02.loop_submits_only_decrypted_penalties
#print axioms Teos.C02.only_matching_locators_are_disputes
#print axioms Teos.C02.no_send_for_purged
#print axioms Teos.C02.listener_order_is_modelled
#print axioms Teos.C02.reorg_resubmits_only_tracker_txs
#print axioms Teos.C02.rebroadcast_only_tracker_penalty
#print axioms Teos.C02.responded_implies_node_has
#print axioms Teos.C02.disconnect_updates_cache
#print axioms Teos.C02.start_inv
#print axioms Teos.C02.every_broadcast_is_justified
#print axioms Teos.C02.next_operation_submits_only_for_held_appointments
#print axioms Teos.C02.responded_only_when_justified
#print axioms Teos.C02.held_appointments_were_accepted
#print axioms Teos.C02.restart_keeps_justification
#print axioms Teos.C02.send_call_sites_are_the_modelled_ones
