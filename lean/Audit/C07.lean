import TeosVerif.Props.C07
#print axioms Teos.C07.slots_formula
#print axioms Teos.C07.formula_shape_is_modelled
#print axioms Teos.C07.slotsOf_eq
#print axioms Teos.C07.slotsOf_is_ceil
#print axioms Teos.C07.at_least_one_slot
#print axioms Teos.C07.slots_formula_bound_tight
#print axioms Teos.C07.charge_is_diff
#print axioms Teos.C07.charge_conserves
#print axioms Teos.C07.no_refund_no_change
#print axioms Teos.C07.refund_step
#print axioms Teos.C07.refund_only_on_completion
#print axioms Teos.C07.registration_grants
#print axioms Teos.C07.wire_equals_memory_register
#print axioms Teos.C07.memory_equals_disk_forever
#print axioms Teos.C07.refund_persists_what_memory_holds
