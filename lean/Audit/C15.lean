import TeosVerif.Props.C15
#print axioms Teos.C15.grpcReply_internal
#print axioms Teos.C15.faultCode_documented
#print axioms Teos.C15.respond_documented
#print axioms Teos.C15.routed_error_documented
#print axioms Teos.C15.refused_before_the_tower
#print axioms Teos.C15.forwarded_is_well_formed
#print axioms Teos.C15.abort_same
#print axioms Teos.C15.register_refused_no_change
#print axioms Teos.C15.add_refused_no_change
#print axioms Teos.C15.reads_no_change
