import TeosVerif.Props.C17
#print axioms Teos.C17.recipe_symmetric
#print axioms Teos.C17.decrypt_encrypt
#print axioms Teos.C17.decrypt_some_is_seal
#print axioms Teos.C17.decrypt_some_is_encrypt
#print axioms Teos.C17.modified_ciphertext_fails
#print axioms Teos.C17.other_id_reduction
#print axioms Teos.C17.locator_is_prefix16
#print axioms Teos.C17.sign_recovers
#print axioms Teos.C17.verify_iff_recover
#print axioms Teos.C17.verify_is_recover_in_source
#print axioms Teos.C17.signer_unique
#print axioms Teos.C17.forgery_reduction
