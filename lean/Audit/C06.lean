import TeosVerif.Props.C06
#print axioms Teos.C06.auth_sound
#print axioms Teos.C06.authCheck_error_kind
#print axioms Teos.C06.success_implies_authenticated
#print axioms Teos.C06.reject_no_change
#print axioms Teos.C06.isolation_frame
#print axioms Teos.C06.own_other_appointments_untouched
#print axioms Teos.C06.reads_change_nothing
#print axioms Teos.C06.shared_locator_independent
#print axioms Teos.C06.get_reads_own_key
#print axioms Teos.C06.sub_lists_own_locators
#print axioms Teos.C06.acceptedBy_authenticated
#print axioms Teos.C06.accepted_origin
#print axioms Teos.C06.every_held_appointment_was_submitted_by_its_owner
