import TeosVerif.Props.C01
#print axioms Teos.C01.breach_answered
#print axioms Teos.C01.taken_implies_tracked
#print axioms Teos.C01.responded_reads_back
#print axioms Teos.C01.invalid_iff
#print axioms Teos.C01.only_that_appointment_is_dropped
#print axioms Teos.C01.every_matching_row_visited
#print axioms Teos.C01.late_appointment_answered
#print axioms Teos.C01.late_undecryptable_not_stored
#print axioms Teos.C01.every_breach_in_a_block_is_answered
#print axioms Teos.C01.breaches_answered_in_every_history
#print axioms Teos.C01.only_breached_appointments_are_touched
#print axioms Teos.C01.breach_call_sites_are_the_modelled_ones
#print axioms Teos.C01.every_tracker_carries_its_appointments_breach
#print axioms Teos.C01.cache_holds_only_connected_transactions
#print axioms Teos.C01.boot_lookups_cover_the_most_recent_blocks
