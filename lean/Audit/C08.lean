import TeosVerif.Props.C08
#print axioms Teos.C08.reg_receipt_binds
#print axioms Teos.C08.appt_receipt_binds
#print axioms Teos.C08.receipt_only_if_taken_stored
#print axioms Teos.C08.readback
#print axioms Teos.C08.update_in_place
#print axioms Teos.C08.length_filter_split
#print axioms Teos.C08.admin_view_partitions
#print axioms Teos.C08.admin_user_is_what_the_user_sees
#print axioms Teos.C08.stored_version_is_the_last_accepted
#print axioms Teos.C08.get_appointment_returns_the_last_accepted_version
#print axioms Teos.C08.accepted_row_is_the_submitted_blob
