import TeosVerif.Props.C08
#print axioms Teos.C08.reg_receipt_binds
#print axioms Teos.C08.appt_receipt_binds
#print axioms Teos.C08.receipt_only_if_taken_stored
#print axioms Teos.C08.readback
#print axioms Teos.C08.update_in_place
#print axioms Teos.C08.length_filter_split
#print axioms Teos.C08.admin_view_partitions
#print axioms Teos.C08.admin_user_is_what_the_user_sees
