import TeosVerif.Props.C19
#print axioms Teos.C19.inv_reachable
#print axioms Teos.C19.window_eq
#print axioms Teos.C19.index_refines_window
#print axioms Teos.C19.winLookup_some_mem
#print axioms Teos.C19.no_stale
#print axioms Teos.C19.height_true
#print axioms Teos.C19.window_length_connect
#print axioms Teos.C19.window_length_disconnect
#print axioms Teos.C19.exact_last_N_when_full
#print axioms Teos.C19.full_stays_full
#print axioms Teos.C19.full_after_bootstrap
#print axioms Teos.C19.full_statement_fails
#print axioms Teos.C19.the_tower_boots_its_lookups_from_the_most_recent_blocks
