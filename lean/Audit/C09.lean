import TeosVerif.Props.C09
#print axioms Teos.C09.usable_iff_below_expiry
#print axioms Teos.C09.expired_error_states_expiry
#print axioms Teos.C09.first_registration
#print axioms Teos.C09.renewal_arith
#print axioms Teos.C09.renewal_refused_at_max
#print axioms Teos.C09.purged_iff
#print axioms Teos.C09.purge_never_early_never_others
#print axioms Teos.C09.purge_cascades
#print axioms Teos.C09.height_follows_chain
#print axioms Teos.C09.nobody_outlives_expiry_plus_grace
#print axioms Teos.C09.only_the_gatekeeper_moves_windows
#print axioms Teos.C09.expiry_invariant_step
