import TeosVerif.Props.C13
#print axioms Teos.C13.runRetrier_done
#print axioms Teos.C13.runRetrier_stuck
#print axioms Teos.C13.addReceipt_proofs
#print axioms Teos.C13.addReceipt_pending
#print axioms Teos.C13.manual_retry_gate
#print axioms Teos.C13.manual_retry_documented_states
#print axioms Teos.C13.sendAll_accepted
#print axioms Teos.C13.delivers_after_recovery
#print axioms Teos.C13.finish_delivery
#print axioms Teos.C13.reregistration_keeps_pending
#print axioms Teos.C13.delivers_after_renewal
#print axioms Teos.C13.run_returns_to_backoff
#print axioms Teos.C13.gives_up_keeps_data
#print axioms Teos.C13.unreachable_tower_not_contacted
#print axioms Teos.C13.new_retrier_takes_all_pending
