import TeosVerif.Driver.TxIndexDrv
import TeosVerif.Driver.TowerDrv
import TeosVerif.Driver.SlotsDrv
import TeosVerif.Driver.ConfigDrv
import TeosVerif.Driver.LocksDrv
import TeosVerif.Driver.OutageDrv
import TeosVerif.Driver.ClientDrv
import TeosVerif.Driver.PluginDrv
import TeosVerif.Driver.HttpDrv
import TeosVerif.Driver.WireDrv
/- The model driver: one operation per input line, one canonical output line per operation. -/
open Teos Teos.Drv

structure DState where
  ti : TiState := {}
  tw : TwState := {}
  ou : Teos.Outage.St := {}
  cl : Teos.Client.Client := Teos.Client.Client.fresh
  pl : Teos.Plugin.St := {}
  lastOut : String := ""
  unavailable : Bool := false

def step (st : DState) (line : String) : DState × String :=
  match words line with
  | "case" :: rest => ({}, "case " ++ joinWith " " rest)
  | "ti" :: rest => let (t, o) := tiStep st.ti rest; ({ st with ti := t }, o)
  | "sl" :: rest => (st, slStep rest)
  | "cf" :: rest => (st, cfStep rest)
  | "cc" :: rest => (st, ccStep rest)
  | "ou" :: rest => let (t, o) := ouStep st.ou rest; ({ st with ou := t }, o)
  | "pl" :: rest => let (t, o) := plStep st.pl rest; ({ st with pl := t }, o)
  | "px" :: _ => (st, "-")
  | "tx" :: _ => (st, "-")
  | "cl" :: rest => let (t, o) := clStep st.cl rest; ({ st with cl := t }, o)
  | ["ht", "last"] => (st, htLast st.lastOut)
  | ["ht", "unavailable", v] => ({ st with unavailable := v = "1" }, "ok")
  | "ht" :: "req" :: rest => (st, htReq st.unavailable rest)
  | "hx" :: _ => (st, "-")
  | "wi" :: rest => (st, wiStep rest)
  | "tw" :: rest =>
    -- with bitcoind flagged unreachable every public request is refused before it is looked at
    if st.unavailable && (rest.head? = some "reg" || rest.head? = some "add" || rest.head? = some "get" || rest.head? = some "sub")
    then ({ st with lastOut := "unavailable" }, "unavailable")
    else let (t, o) := twStep st.tw rest; ({ st with tw := t, lastOut := o }, o)
  | _ => (st, "bad-op")

partial def loop (h : IO.FS.Stream) (out : IO.FS.Stream) (st : DState) : IO Unit := do
  let line ← h.getLine
  if line.isEmpty then return ()
  let (st', o) := step st line
  out.putStrLn o
  loop h out st'

def main : IO Unit := do
  let out ← IO.getStdout
  loop (← IO.getStdin) out {}
