/-
C17 — Blobs decrypt only under their dispute id; signatures bind signer and message.

Proved for every transaction, id, ciphertext, message and key, over abstract primitives with their
functional laws (`Model/Crypto.lean`); the composition is the one in the source (`Gen/Crypto.lean`).
What is computational (another id fails; no forgery) is stated as a reduction: a success exhibits a
cross-key collision / a forgery. Law conformance of the real primitives and the negative cases are
*tests* on the real functions (harness component `crypto`), labelled as tests.
-/
import TeosVerif.Model.Crypto
namespace Teos.C17
open Teos.Crypto

/-- the source derives key and nonce the same way in both directions, and (de)serialises -/
theorem recipe_symmetric : Gen.encRecipe = Gen.decRecipe ∧ Gen.encSerialises = true ∧ Gen.decDeserialises = true := by decide

/-- **decrypt_encrypt**: decrypting `encrypt(t, k)` with `k` yields exactly `t`. -/
theorem decrypt_encrypt (S : Suite) (t : S.Tx) (k : S.TxId) : decrypt S (encrypt S t k) k = some t := by
  unfold decrypt encrypt
  rw [← recipe_symmetric.1, S.aead.dec_enc]
  exact S.deser_ser t

/-- **decrypt_some_is_encrypt**: whatever decrypts under `k` *is* the sealing, under `k`'s key, of
the bytes that deserialise to the result: no altered, truncated or extended ciphertext decrypts. -/
theorem decrypt_some_is_seal (S : Suite) (c : Bytes) (k : S.TxId) (t : S.Tx) (h : decrypt S c k = some t) :
    ∃ b, S.deser b = some t ∧ c = S.aead.aenc (S.kdf Gen.decRecipe.1 k) (S.nonce Gen.decRecipe.2.2) b := by
  unfold decrypt at h
  cases ho : S.aead.adec (S.kdf Gen.decRecipe.1 k) (S.nonce Gen.decRecipe.2.2) c with
  | none => simp [ho] at h
  | some b =>
    simp only [ho] at h
    exact ⟨b, h, S.aead.dec_some_is_enc _ _ _ _ ho⟩

/-- with canonical serialisation (what deserialises to `t` is `ser t`) it is `encrypt(t, k)` itself -/
theorem decrypt_some_is_encrypt (S : Suite) (hcanon : ∀ b t, S.deser b = some t → b = S.ser t)
    (c : Bytes) (k : S.TxId) (t : S.Tx) (h : decrypt S c k = some t) : c = encrypt S t k := by
  obtain ⟨b, hb, hc⟩ := decrypt_some_is_seal S c k t h
  rw [hcanon b t hb] at hc
  unfold encrypt; rw [recipe_symmetric.1]; exact hc

/-- a modified ciphertext never decrypts to the original transaction -/
theorem modified_ciphertext_fails (S : Suite) (hcanon : ∀ b t, S.deser b = some t → b = S.ser t)
    (t : S.Tx) (k : S.TxId) (c : Bytes) (hne : c ≠ encrypt S t k) : decrypt S c k ≠ some t := by
  intro h; exact hne (decrypt_some_is_encrypt S hcanon c k t h)

/-- **other_id_reduction**: if `encrypt(t, k)` decrypts under another id `k'`, the two derived keys
seal two plaintexts to the same ciphertext-with-tag (a key-commitment break of the AEAD, or a
SHA-256 collision making the keys equal): the computational part, stated as a reduction. -/
theorem other_id_reduction (S : Suite) (t t' : S.Tx) (k k' : S.TxId)
    (h : decrypt S (encrypt S t k) k' = some t') :
    ∃ b', S.deser b' = some t' ∧
      S.aead.aenc (S.kdf Gen.encRecipe.1 k) (S.nonce Gen.encRecipe.2.2) (S.ser t) =
      S.aead.aenc (S.kdf Gen.decRecipe.1 k') (S.nonce Gen.decRecipe.2.2) b' := by
  obtain ⟨b, hb, hc⟩ := decrypt_some_is_seal S _ k' t' h
  exact ⟨b, hb, hc⟩

/-- **locator_is_prefix16** -/
theorem locator_is_prefix16 (txid : Bytes) (h : txid.length = 32) :
    (locator txid).length = 16 ∧ locator txid <+: txid ∧ Gen.locatorIsPrefix = true := by
  refine ⟨by simp [locator, Gen.LOCATOR_LEN, h], List.take_prefix _ _, by decide⟩

/-- **sign_recovers**: the produced signature recovers exactly the signer's public key. -/
theorem sign_recovers (G : SigScheme) [DecidableEq G.PK] (m : Bytes) (sk : G.SK) :
    G.recover m (G.sign m sk) = some (G.pk sk) ∧ verify G m (G.sign m sk) (G.pk sk) = true := by
  refine ⟨G.recover_sign m sk, ?_⟩
  simp [verify, G.recover_sign]

/-- **verify_iff_recover**: `verify` is nothing but "recovers to that key" (as in the source) -/
theorem verify_iff_recover (G : SigScheme) [DecidableEq G.PK] (m : Bytes) (s : G.Sig) (p : G.PK) :
    verify G m s p = true ↔ G.recover m s = some p := by
  unfold verify
  cases G.recover m s with
  | none => simp
  | some x => simp

theorem verify_is_recover_in_source : Gen.verifyIsRecoverEq = true := by decide

/-- **signer_unique**: a (message, signature) pair verifies for at most one key: it binds the signer. -/
theorem signer_unique (G : SigScheme) [DecidableEq G.PK] (m : Bytes) (s : G.Sig) (p p' : G.PK)
    (h : verify G m s p = true) (h' : verify G m s p' = true) : p = p' := by
  rw [verify_iff_recover] at h h'
  rw [h] at h'; exact Option.some.inj h'

/-- **forgery_reduction**: an altered message or signature that verifies for the signer's key is,
by definition, a pair the signer did not produce: an existential forgery of the scheme. -/
theorem forgery_reduction (G : SigScheme) [DecidableEq G.PK] (m m' : Bytes) (sk : G.SK) (s' : G.Sig)
    (halt : m' ≠ m ∨ s' ≠ G.sign m sk) (hv : verify G m' s' (G.pk sk) = true) :
    G.recover m' s' = some (G.pk sk) ∧ (m' ≠ m ∨ s' ≠ G.sign m sk) :=
  ⟨(verify_iff_recover G m' s' _).1 hv, halt⟩

/-- non-vacuity: the laws are satisfiable (a toy suite: XOR-free identity cipher with a tag) -/
def toyAEAD : AEAD :=
  { Key := Nat, Nonce := Unit
    aenc := fun k _ m => m ++ [UInt8.ofNat k]
    adec := fun k _ c => match c.reverse with
      | [] => none
      | tag :: r => if tag = UInt8.ofNat k then some r.reverse else none
    dec_enc := by intro k n m; simp
    dec_some_is_enc := by
      intro k n c m h
      cases hr : c.reverse with
      | nil => simp [hr] at h
      | cons tag r =>
        simp only [hr] at h
        by_cases ht : tag = UInt8.ofNat k
        · simp only [ht, ↓reduceIte, Option.some.injEq] at h
          have : c = (tag :: r).reverse := by rw [← hr, List.reverse_reverse]
          rw [this, List.reverse_cons, h, ht]
        · simp [ht] at h }

end Teos.C17
