/-
C05 — The client never loses an appointment, whatever the towers do.

Model: `Model/Client.lean` (store + summaries) and `Model/Plugin.lean` (notification handler,
retriers, commands, restart). Lemmas: `Lemmas/Plugin.lean`.

Two levels. (1) Every `WTClient` operation, one database transaction each: a record of
(tower, locator) — receipt, pending or invalid row — survives every operation except an abandon
of that tower and a release of that very pair, and a release is only ever issued right after the
receipt or the rejection was stored; hence it survives every operation sequence *and every
prefix of it followed by a reload* (a kill between any two transactions). (2) The plugin's
events at stable points: after a notification every tower that is registered and not proven
misbehaving has the appointment recorded, and no later event except abandoning the tower
removes it.
-/
import TeosVerif.Lemmas.Plugin
import TeosVerif.Gen.PluginCalls
import TeosVerif.Lemmas.Tidy

namespace Teos.C05
open Teos.Client Teos.Plugin

/-! ### level 1: operations and crash points -/

/-- a single operation (= one transaction) never loses a record, unless it abandons the tower or
releases that very pair while the pending row is the only record -/
theorem one_operation_never_loses (c : Client) (op : Op) (t : TowerId) (l : Loc)
    (hr : recorded c.store t l) (hab : op ≠ .abandon t)
    (hun : op = .unpend t l → (c.store.rcpts t l).isSome = true ∨ (t, l) ∈ c.store.invalid) :
    recorded (c.step op).1.store t l :=
  recorded_step c op t l hr hab hun

/-- the discipline of the two call sites of `remove_pending_appointment` (Retrier::run): the
release of `(t, l)` comes after its receipt or its rejection has been stored; `abandon t` does
not occur. Anything else, in any order, any number of times — reloads (= restarts after a kill)
included. -/
def Guarded (t : TowerId) (l : Loc) : Client → List Op → Prop
  | _, [] => True
  | c, op :: rest =>
    op ≠ .abandon t ∧
    (op = .unpend t l → (c.store.rcpts t l).isSome = true ∨ (t, l) ∈ c.store.invalid) ∧
    Guarded t l (c.step op).1 rest

theorem guarded_take (t : TowerId) (l : Loc) : ∀ (ops : List Op) (c : Client) (k : Nat),
    Guarded t l c ops → Guarded t l c (ops.take k) := by
  intro ops
  induction ops with
  | nil => intro c k h; simpa using h
  | cons op rest ih =>
    intro c k h
    cases k with
    | zero => simp [Guarded]
    | succ k => exact ⟨h.1, h.2.1, ih _ k h.2.2⟩

/-- **never lost, at all times**: along any guarded operation sequence the record is there after
every prefix — that is, at every transaction boundary, which is where a SIGKILL can leave the
file (a reload changes nothing in the file). -/
theorem never_lost (t : TowerId) (l : Loc) : ∀ (ops : List Op) (c : Client),
    recorded c.store t l → Guarded t l c ops → ∀ k, recorded (c.run (ops.take k)).store t l := by
  intro ops
  induction ops with
  | nil => intro c hr _ k; simpa [Client.run] using hr
  | cons op rest ih =>
    intro c hr hg k
    cases k with
    | zero => simpa [Client.run] using hr
    | succ k =>
      simp only [List.take_succ_cons, Client.run, List.foldl_cons]
      exact ih _ (recorded_step c op t l hr hg.1 hg.2.1) hg.2.2 k

/-- the move pending → accepted as the retrier performs it: recorded after the first write,
and after the second the receipt is there and the pending row is gone -/
theorem move_accepted (c : Client) (h : Inv c) (t : TowerId) (sm : Summary)
    (ht : c.towers t = some sm) (l : Loc) :
    let c1 := (c.addReceipt t l 0 rcpt).1
    let c2 := (c1.removePending t l).1
    recorded c1.store t l ∧ (c2.store.rcpts t l).isSome = true ∧ (t, l) ∉ c2.store.pending := by
  intro c1 c2
  have hr1 : (c1.store.rcpts t l).isSome = true := addReceipt_recorded h ht l 0 rcpt
  refine ⟨Or.inl hr1, ?_, ?_⟩
  · have hk : (c1.towers t).isSome = true := addReceipt_known c t l 0 rcpt t (by simp [ht])
    show ((c1.removePending t l).1.store.rcpts t l).isSome = true
    unfold Client.removePending
    split
    · exact hr1
    · simpa [Client.setSummary, deletePending_rcpts] using hr1
  · have hk : (c1.towers t).isSome = true := addReceipt_known c t l 0 rcpt t (by simp [ht])
    show (t, l) ∉ (c1.removePending t l).1.store.pending
    unfold Client.removePending
    split
    · rename_i hn; rw [hn] at hk; cases hk
    · simp [Client.setSummary, deletePending_pending]

/-- the move pending → invalid -/
theorem move_rejected (c : Client) (h : Inv c) (t : TowerId) (sm : Summary)
    (ht : c.towers t = some sm) (l : Loc) :
    let c1 := (c.addInvalid t l body).1
    let c2 := (c1.removePending t l).1
    recorded c1.store t l ∧ (t, l) ∈ c2.store.invalid ∧ (t, l) ∉ c2.store.pending := by
  intro c1 c2
  have hr1 : (t, l) ∈ c1.store.invalid := addInvalid_recorded h ht l body
  have hk : (c1.towers t).isSome = true := addInvalid_known c t l body t (by simp [ht])
  refine ⟨Or.inr (Or.inr hr1), ?_, ?_⟩
  · show (t, l) ∈ (c1.removePending t l).1.store.invalid
    unfold Client.removePending
    split
    · exact hr1
    · simpa [Client.setSummary, deletePending_invalid] using hr1
  · show (t, l) ∉ (c1.removePending t l).1.store.pending
    unfold Client.removePending
    split
    · rename_i hn; rw [hn] at hk; cases hk
    · simp [Client.setSummary, deletePending_pending]

/-! ### level 2: the plugin's events -/

/-- **the handler records**: whatever the tower answers (accept, refused connection, subscription
error, any other error, unparsable body, wrong signer), after the tower's turn the appointment
is accepted, pending or invalid for it — or the tower is proven misbehaving. -/
theorem hook_records (s : St) (t : TowerId) (l : Loc) (h : Inv s.client) (sm : Summary)
    (ht : s.client.towers t = some sm) :
    recorded (hookTower s t l).1.client.store t l ∨
      ((hookTower s t l).1.client.store.proofs t).isSome = true := by
  obtain ⟨row, r, a1, a2, a3, a4, a5, a6, a7, a8, a9⟩ := h.sync_some t sm ht
  have after_status : ∀ st, st ≠ TStatus.misbehaving →
      (t, l) ∈ ((s.client.setStatus t st).addPending t l body).1.store.pending := by
    intro st hst
    have hi := h.setStatus t st hst
    have hk : ((s.client.setStatus t st).towers t).isSome = true := by
      rw [setStatus_towers]; simp [ht]
    obtain ⟨sm', hs'⟩ := Option.isSome_iff_exists.mp hk
    exact addPending_recorded hi hs' l body
  unfold hookTower
  simp only [ht]
  by_cases hdone : ((s.client.store.rcpts t l).isSome || sm.invalid.contains l) = true
  · simp only [hdone, ↓reduceIte]
    left
    simp only [Bool.or_eq_true] at hdone
    rcases hdone with hd | hd
    · exact Or.inl hd
    · right; right
      rw [a8, List.contains_iff_mem] at hd
      exact (mem_locsOf _ _ _).mp hd
  · simp only [hdone, Bool.false_eq_true, ↓reduceIte]
    cases hst : sm.status with
    | misbehaving => right; exact a9.mp hst
    | unreachable => left; right; left; exact addPending_recorded h ht l body
    | tempUnreachable => left; right; left; exact addPending_recorded h ht l body
    | subscriptionError => left; right; left; exact addPending_recorded h ht l body
    | reachable =>
      simp only
      cases hc : classify (s.beh t) with
      | accepted => left; left; exact addReceipt_recorded h ht l 0 rcpt
      | connErr => left; right; left; exact after_status _ (by intro e; cases e)
      | unparsable => left; right; left; exact after_status _ (by intro e; cases e)
      | subErr => left; right; left; exact after_status _ (by intro e; cases e)
      | rejected => left; right; right; exact addInvalid_recorded h ht l body
      | wrongSigner => right; exact (flagMisbehaving_status h ht _ _).2

/-- every event other than an abandon keeps every record and every proof -/
theorem event_never_loses (s : St) (ev : Ev) (hab : ∀ t, ev ≠ .abandon t) (h : Inv s.client)
    (t : TowerId) (l : Loc) :
    Inv (s.step ev).1.client ∧
    (recorded s.client.store t l → recorded (s.step ev).1.client.store t l) ∧
    ((s.client.store.proofs t).isSome = true → ((s.step ev).1.client.store.proofs t).isSome = true) :=
  let k := keeps_step s ev hab
  ⟨k.inv h, k.recd h t l, k.flagd h t⟩

theorem abandon_inv (s : St) (t0 : TowerId) (h : Inv s.client) : Inv (s.abandon t0).1.client := by
  unfold St.abandon
  split
  · exact h
  · exact h.removeTower t0

/-- abandoning a tower only affects that tower -/
theorem abandon_only_that_tower (s : St) (t0 : TowerId) (h : Inv s.client) (t : TowerId) (l : Loc)
    (hne : t ≠ t0) :
    Inv (s.abandon t0).1.client ∧
    (recorded s.client.store t l → recorded (s.abandon t0).1.client.store t l) := by
  unfold St.abandon
  split
  · exact ⟨h, id⟩
  · refine ⟨h.removeTower t0, fun hr => ?_⟩
    simp only [St.withClient]
    unfold Client.removeTower
    split
    · exact hr
    · exact removeTowerRecord_recorded _ t0 t l (fun e => hne e.symm) hr

/-- **after a notification everybody has it**: every tower listed when the notification arrives
ends up with the appointment recorded, or proven misbehaving — whatever each tower answers, and
whatever the retriers started by the handler do afterwards. -/
theorem notify_records_all (s : St) (l : Loc) (h : Inv s.client) (t : TowerId) (ht : t < s.n)
    (hk : (s.client.towers t).isSome = true) :
    recorded (s.notify l).client.store t l ∨ ((s.notify l).client.store.proofs t).isSome = true := by
  -- the towers before `t`, then `t`, then the towers after `t`
  obtain ⟨pre, post, hsplit⟩ := List.append_of_mem (List.mem_range.mpr ht)
  unfold St.notify
  rw [hsplit, List.foldl_append, List.foldl_cons]
  let f := fun acc x => notifyTower acc x l
  let s1 := pre.foldl f s
  have k1 : Keeps s.client s1.client := keeps_foldl f (fun a x => keeps_notifyTower a x l) _ s
  have h1 : Inv s1.client := k1.inv h
  have hk1 : (s1.client.towers t).isSome = true := k1.known h t hk
  obtain ⟨sm1, hs1⟩ := Option.isSome_iff_exists.mp hk1
  -- the tower's own turn
  have hturn : recorded (notifyTower s1 t l).client.store t l ∨
      ((notifyTower s1 t l).client.store.proofs t).isSome = true := by
    have hh := hook_records s1 t l h1 sm1 hs1
    have kh := keeps_hookTower s1 t l
    unfold notifyTower
    split
    · rename_i s2 heq
      rw [heq] at hh kh
      split
      · exact hh
      · have kr := keeps_retry (s2.consumeIf (asked s1 t l) t) t (s2.pendingOf t)
        rw [consumeIf_client] at kr
        rcases hh with hh | hh
        · exact Or.inl (kr.recd (kh.inv h1) t l hh)
        · exact Or.inr (kr.flagd (kh.inv h1) t hh)
    · rename_i s2 heq
      rw [heq] at hh
      rw [consumeIf_client]
      exact hh
  -- the remaining towers
  have k2 : Keeps s1.client (notifyTower s1 t l).client := keeps_notifyTower s1 t l
  have k3 := keeps_foldl f (fun a x => keeps_notifyTower a x l) post (notifyTower s1 t l)
  rcases hturn with hr | hp
  · exact Or.inl (k3.recd (k2.inv h1) t l hr)
  · exact Or.inr (k3.flagd (k2.inv h1) t hp)

/-- the same when one tower is down as the notification arrives and comes back holding requests -/
theorem holdAfter_records_all (s : St) (t0 : TowerId) (l : Loc) (h : Inv s.client) (t : TowerId) (ht : t < s.n)
    (hk : (s.client.towers t).isSome = true) :
    recorded (s.holdAfter t0 l).client.store t l ∨ ((s.holdAfter t0 l).client.store.proofs t).isSome = true := by
  obtain ⟨pre, post, hsplit⟩ := List.append_of_mem (List.mem_range.mpr ht)
  unfold St.holdAfter
  simp only
  rw [hsplit, List.foldl_append, List.foldl_cons]
  generalize hd : ({ s with beh := fun x => if x = t0 then { s.beh t0 with down := true, hold := true } else s.beh x } : St) = down
  have hdc : down.client = s.client := by rw [← hd]
  have k1 : Keeps down.client (pre.foldl (holdTurn t0 l) down).client :=
    keeps_foldl (holdTurn t0 l) (fun a x => keeps_holdTurn t0 l a x) _ down
  generalize pre.foldl (holdTurn t0 l) down = s1 at k1
  have h1 : Inv s1.client := k1.inv (by rw [hdc]; exact h)
  have hk1 : (s1.client.towers t).isSome = true := k1.known (by rw [hdc]; exact h) t (by rw [hdc]; exact hk)
  obtain ⟨sm1, hs1⟩ := Option.isSome_iff_exists.mp hk1
  have hturn : recorded (holdTurn t0 l s1 t).client.store t l ∨
      ((holdTurn t0 l s1 t).client.store.proofs t).isSome = true := by
    unfold holdTurn
    split
    · rename_i e
      subst e
      have hh := hook_records s1 t l h1 sm1 hs1
      have kh := keeps_hookTower s1 t l
      generalize hookTower s1 t l = r at hh kh
      obtain ⟨s2, start⟩ := r
      simp only at hh kh ⊢
      split
      · have kr : Keeps s2.client
            (({ s2 with beh := fun y => if y = t then { s2.beh t with down := false } else s2.beh y } : St).retry t
              (({ s2 with beh := fun y => if y = t then { s2.beh t with down := false } else s2.beh y } : St).pendingOf t)).client := by
          refine keeps_retry' s2 _ ?_ t _
          rfl
        rcases hh with hh | hh
        · exact Or.inl (kr.recd (kh.inv h1) t l hh)
        · exact Or.inr (kr.flagd (kh.inv h1) t hh)
      · exact hh
    · -- an ordinary turn: as in `notify_records_all`
      have hh := hook_records s1 t l h1 sm1 hs1
      have kh := keeps_hookTower s1 t l
      unfold notifyTower
      split
      · rename_i s2 heq
        rw [heq] at hh kh
        split
        · exact hh
        · have kr := keeps_retry (s2.consumeIf (asked s1 t l) t) t (s2.pendingOf t)
          rw [consumeIf_client] at kr
          rcases hh with hh | hh
          · exact Or.inl (kr.recd (kh.inv h1) t l hh)
          · exact Or.inr (kr.flagd (kh.inv h1) t hh)
      · rename_i s2 heq
        rw [heq] at hh
        rw [consumeIf_client]
        exact hh
  have k2 : Keeps s1.client (holdTurn t0 l s1 t).client := keeps_holdTurn t0 l s1 t
  have k3 := keeps_foldl (holdTurn t0 l) (fun a x => keeps_holdTurn t0 l a x) post (holdTurn t0 l s1 t)
  rcases hturn with hr | hp
  · exact Or.inl (k3.recd (k2.inv h1) t l hr)
  · exact Or.inr (k3.flagd (k2.inv h1) t hp)

/-! ### every history -/

/-- the appointments the client owes each tower: a notification adds one per listed tower, an
abandon drops the tower's -/
def dueAfter (s : St) (ev : Ev) (due : List (TowerId × Loc)) : List (TowerId × Loc) :=
  match ev with
  | .notify l => due ++ ((List.range s.n).filter (fun t => (s.client.towers t).isSome)).map (·, l)
  | .holdAfter _ l => due ++ ((List.range s.n).filter (fun t => (s.client.towers t).isSome)).map (·, l)
  | .abandon t => due.filter (fun d => d.1 ≠ t)
  | _ => due

def runEvents : St → List (TowerId × Loc) → List Ev → St × List (TowerId × Loc)
  | s, due, [] => (s, due)
  | s, due, ev :: rest => runEvents (s.step ev).1 (dueAfter s ev due) rest

/-- **C05 at stable points, for every history**: after any sequence of registrations,
notifications (repeated ones included), changes of tower behaviour, manual retries, abandons and
restarts, every appointment the client was notified of is recorded — accepted, pending or
invalid — for every tower it was registered with at the time, unless that tower has been
abandoned since or is proven misbehaving. -/
theorem all_due_recorded : ∀ (evs : List Ev) (s : St) (due : List (TowerId × Loc)),
    Inv s.client →
    (∀ d ∈ due, recorded s.client.store d.1 d.2 ∨ (s.client.store.proofs d.1).isSome = true) →
    let r := runEvents s due evs
    Inv r.1.client ∧
    ∀ d ∈ r.2, recorded r.1.client.store d.1 d.2 ∨ (r.1.client.store.proofs d.1).isSome = true := by
  intro evs
  induction evs with
  | nil => intro s due h hd; exact ⟨h, hd⟩
  | cons ev rest ih =>
    intro s due h hd
    simp only [runEvents]
    apply ih
    · cases ev with
      | abandon t0 => exact abandon_inv s t0 h
      | register t => exact (keeps_step s (.register t) (by intro _ e; cases e)).inv h
      | notify l => exact (keeps_step s (.notify l) (by intro _ e; cases e)).inv h
      | setBeh t b => exact (keeps_step s (.setBeh t b) (by intro _ e; cases e)).inv h
      | retry t => exact (keeps_step s (.retry t) (by intro _ e; cases e)).inv h
      | restart => exact (keeps_step s .restart (by intro _ e; cases e)).inv h
      | release t m => exact (keeps_step s (.release t m) (by intro _ e; cases e)).inv h
      | holdAfter t l => exact (keeps_step s (.holdAfter t l) (by intro _ e; cases e)).inv h
    · intro d hdm
      cases ev with
      | notify l =>
        simp only [dueAfter, List.mem_append, List.mem_map, List.mem_filter, List.mem_range] at hdm
        have k := keeps_step s (.notify l) (by intro _ e; cases e)
        rcases hdm with hdm | ⟨t, ⟨ht, hkn⟩, rfl⟩
        · rcases hd d hdm with hr | hp
          · exact Or.inl (k.recd h _ _ hr)
          · exact Or.inr (k.flagd h _ hp)
        · exact notify_records_all s l h t ht hkn
      | abandon t0 =>
        simp only [dueAfter, List.mem_filter, ne_eq, decide_eq_true_eq] at hdm
        obtain ⟨hdm, hne⟩ := hdm
        rcases hd d hdm with hr | hp
        · exact Or.inl ((abandon_only_that_tower s t0 h d.1 d.2 hne).2 hr)
        · right
          show (((s.abandon t0).1).client.store.proofs d.1).isSome = true
          unfold St.abandon
          split
          · exact hp
          · simp only [St.withClient]
            unfold Client.removeTower
            split
            · exact hp
            · simp [Store.removeTowerRecord, hne, hp]
      | register t =>
        have k := keeps_step s (.register t) (by intro _ e; cases e)
        rcases hd d hdm with hr | hp
        · exact Or.inl (k.recd h _ _ hr)
        · exact Or.inr (k.flagd h _ hp)
      | setBeh t b =>
        have k := keeps_step s (.setBeh t b) (by intro _ e; cases e)
        rcases hd d hdm with hr | hp
        · exact Or.inl (k.recd h _ _ hr)
        · exact Or.inr (k.flagd h _ hp)
      | retry t =>
        have k := keeps_step s (.retry t) (by intro _ e; cases e)
        rcases hd d hdm with hr | hp
        · exact Or.inl (k.recd h _ _ hr)
        · exact Or.inr (k.flagd h _ hp)
      | restart =>
        have k := keeps_step s .restart (by intro _ e; cases e)
        rcases hd d hdm with hr | hp
        · exact Or.inl (k.recd h _ _ hr)
        · exact Or.inr (k.flagd h _ hp)
      | release t m =>
        have k := keeps_step s (.release t m) (by intro _ e; cases e)
        rcases hd d hdm with hr | hp
        · exact Or.inl (k.recd h _ _ hr)
        · exact Or.inr (k.flagd h _ hp)
      | holdAfter t0 l =>
        simp only [dueAfter, List.mem_append, List.mem_map, List.mem_filter, List.mem_range] at hdm
        have k := keeps_step s (.holdAfter t0 l) (by intro _ e; cases e)
        rcases hdm with hdm | ⟨t, ⟨ht, hkn⟩, rfl⟩
        · rcases hd d hdm with hr | hp
          · exact Or.inl (k.recd h _ _ hr)
          · exact Or.inr (k.flagd h _ hp)
        · exact holdAfter_records_all s t0 l h t ht hkn

/-- from an empty data directory -/
theorem all_due_recorded_from_start (evs : List Ev) :
    let r := runEvents {} [] evs
    ∀ d ∈ r.2, recorded r.1.client.store d.1 d.2 ∨ (r.1.client.store.proofs d.1).isSome = true :=
  (all_due_recorded evs {} [] Inv.fresh (by intro d hd; cases hd)).2

/-! ### the statement says "exactly one": where that holds and where it does not -/

/-- between the two writes of a move the appointment is in two classes at once (the mechanism
the code uses on purpose: add the new record before deleting the old). A kill exactly there
leaves both rows in the file; the next start re-sends the appointment and the move completes.
This is the only way two classes coexist in the model. -/
example :
    let c0 := (Client.fresh.run
      [.register 0 0 { slots := 10, start := 1, expiry := 100, sig := 1 },
       .pending 0 7 { blob := 0, tsd := 42 }])
    let c1 := (c0.addReceipt 0 7 0 rcpt).1
    (c1.store.rcpts 0 7).isSome = true ∧ (0, 7) ∈ c1.store.pending ∧
    (((c1.reload.removePending 0 7).1.store.rcpts 0 7).isSome = true ∧
      (0, 7) ∉ (c1.reload.removePending 0 7).1.store.pending) := by
  decide

/-- non-vacuity: a tower that refuses connections, then the notification, then a manual retry
once it is back: recorded as pending first, accepted afterwards -/
example :
    let s0 : St := ({} : St)
    let s1 := (s0.step (.register 0)).1
    let s2 := (s1.step (.setBeh 0 { down := true })).1
    let s3 := (s2.step (.notify 5)).1
    let s4 := (s3.step (.setBeh 0 {})).1
    let s5 := (s4.step (.retry 0)).1
    (0, 5) ∈ s3.client.store.pending ∧ s3.status 0 = some .unreachable ∧
    (s5.client.store.rcpts 0 5).isSome = true ∧ s5.client.store.pending = [] ∧
    s5.status 0 = some .reachable := by
  decide


/-! ### exactly one, at every stable point of every history -/

theorem tidy_run : ∀ (evs : List Ev) (s : St) (due : List (TowerId × Loc)), TidyS s →
    TidyS (runEvents s due evs).1 := by
  intro evs
  induction evs with
  | nil => intro s due h; exact h
  | cons ev rest ih => intro s due h; exact ih _ _ (step_tidy s ev h)

/-- **exactly one of accepted / pending / invalid**: after any history of registrations,
notifications (repeated ones included), changes of tower behaviour, manual retries, abandons and
restarts, for every appointment the client owes a tower that is listed and not proven
misbehaving, exactly one of the three records exists in the file. (At stable points: between the
two writes of a move both exist, see below.) -/
theorem exactly_one_at_stable_points (evs : List Ev) :
    let r := runEvents {} [] evs
    ∀ d ∈ r.2, ∀ sm, r.1.client.towers d.1 = some sm → sm.status ≠ .misbehaving →
      let R := (r.1.client.store.rcpts d.1 d.2).isSome = true
      let P := (d.1, d.2) ∈ r.1.client.store.pending
      let I := (d.1, d.2) ∈ r.1.client.store.invalid
      (R ∧ ¬P ∧ ¬I) ∨ (¬R ∧ P ∧ ¬I) ∨ (¬R ∧ ¬P ∧ I) := by
  intro r d hd sm hs hm R P I
  have ht := tidy_run evs {} [] TidyS.init
  have hrec := (all_due_recorded evs {} [] Inv.fresh (by intro d hd; cases hd)).2 d hd
  obtain ⟨_, _, _, _, _, _, _, _, a7, a8, a9⟩ := ht.inv.sync_some d.1 sm hs
  obtain ⟨a, b, c, _⟩ := ht.tidy d.1 sm hs hm
  have hP : P ↔ d.2 ∈ sm.pending := by rw [a7]; exact (mem_locsOf _ _ _).symm
  have hI : I ↔ d.2 ∈ sm.invalid := by rw [a8]; exact (mem_locsOf _ _ _).symm
  have hnp : ¬ ((r.1.client.store.proofs d.1).isSome = true) := fun hp => hm (a9.mpr hp)
  have hrec' : R ∨ P ∨ I := by
    rcases hrec with h | h
    · exact h
    · exact absurd h hnp
  by_cases hR : R
  · left
    exact ⟨hR, fun hp => a d.2 ⟨hR, hP.mp hp⟩, fun hi => b d.2 ⟨hR, hI.mp hi⟩⟩
  · by_cases hPP : P
    · right; left
      exact ⟨hR, hPP, fun hi => c d.2 ⟨hP.mp hPP, hI.mp hi⟩⟩
    · right; right
      rcases hrec' with h | h | h
      · exact absurd h hR
      · exact absurd h hPP
      · exact ⟨hR, hPP, h⟩

/-- **record_call_sites_are_the_modelled_ones** (tie to the source, regenerated on every run): appointments
are recorded as pending only by the notification handler (three places: connection/unparsable reply,
subscription error, tower not reachable), as invalid by the handler and by `Retrier::run`, as accepted
by the same two; a pending record is removed only by `Retrier::run` (after the receipt or the invalid
record has been written: twice); a tower's data is dropped only by `abandon_tower`. -/
theorem record_call_sites_are_the_modelled_ones :
    Gen.PluginCalls.addPending = [("main", "on_commitment_revocation", ""), ("main", "on_commitment_revocation", ""),
      ("main", "on_commitment_revocation", "")] ∧
    Gen.PluginCalls.addInvalid = [("main", "on_commitment_revocation", ""), ("retrier", "run", "")] ∧
    Gen.PluginCalls.addReceipt = [("main", "on_commitment_revocation", ""), ("retrier", "run", "")] ∧
    Gen.PluginCalls.removePending = [("retrier", "run", ""), ("retrier", "run", "")] ∧
    Gen.PluginCalls.removeTower = [("main", "abandon_tower", "")] := by
  decide

/-- **the_retrier_records_before_it_releases** (tie to the source, regenerated on every run): in `Retrier::run` the
record of the tower's answer is written first — the receipt, or the invalid record — and the pending copy is released
after it, in both branches. Each of the four calls is its own committed transaction, so the client can die between
any two of them; with this order what it finds on restart is the appointment recorded twice (answered and still
pending: it is sent again), never not at all. The model's `sendAll` has the same order and `Keeps` is proved at every
one of these transaction boundaries (`Lemmas/Plugin`); the other order loses the appointment (harness scenarios
`kill-between-writes-*`). -/
theorem the_retrier_records_before_it_releases :
    Gen.PluginCalls.retrierRunOrder =
      ["add_appointment_receipt", "remove_pending_appointment", "add_invalid_appointment", "remove_pending_appointment"] := by
  decide

end Teos.C05
