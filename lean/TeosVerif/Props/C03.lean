/-
C03 — Tower crash at any instant and restart loses no acknowledged work.

The database is the sequence of its durable writes (`Db.log`); a crash keeps a prefix of the writes
of the operation in flight (`crashDb`). The theorems are about *every* write sequence and *every*
prefix, so they cover every operation, history and crash instant at once. What memory looks like after
the restart, and that catching up re-delivers the unfinished blocks with the same result, is compared
with the real bootstrap path on every durable-write point of generated histories (correspondence).

The clause "every breach in blocks it had not finished processing is answered" is FALSE of the code
when a poll delivered only part of the announced chain (a block download failed): the last known
block is recorded ahead of what was delivered (`partial_poll_records_undelivered_tip`, known finding).
-/
import TeosVerif.Model.Crash
import TeosVerif.Lemmas.TowerJust
import TeosVerif.Lemmas.Tower
import TeosVerif.Lemmas.TowerInv

namespace Teos.C03
open Teos

theorem setSlots_isSome (d : Db) (u : User) (n : Nat) (x : User) :
    ((d.setSlots u n).users x).isSome = (d.users x).isSome := by
  unfold Db.setSlots
  cases h : d.users u with
  | none => rfl
  | some i =>
    simp only
    by_cases e : x = u
    · subst e; simp [h]
    · simp [e]

theorem foldl_setSlots (bs : List (User × Nat)) : ∀ (d : Db),
    (bs.foldl (fun d (b : User × Nat) => d.setSlots b.1 b.2) d).appts = d.appts ∧
    (bs.foldl (fun d (b : User × Nat) => d.setSlots b.1 b.2) d).trackers = d.trackers ∧
    (∀ x, ((bs.foldl (fun d (b : User × Nat) => d.setSlots b.1 b.2) d).users x).isSome = (d.users x).isSome) := by
  induction bs with
  | nil => intro d; exact ⟨rfl, rfl, fun _ => rfl⟩
  | cons b r ih =>
    intro d
    simp only [List.foldl_cons]
    obtain ⟨h1, h2, h3⟩ := ih (d.setSlots b.1 b.2)
    refine ⟨by rw [h1]; simp, by rw [h2]; simp, fun x => by rw [h3 x, setSlots_isSome]⟩

/-- **apply_preserves_integrity**: whatever single write sqlite commits, referential integrity
holds afterwards (it refuses an appointment without user, a tracker without appointment, and
cascades deletions). This is independent of which operation issued the write. -/
theorem apply_preserves_integrity (d : Db) (w : DbWrite) (h : DurableInv d) : DurableInv (w.apply d) := by
  obtain ⟨h1, h2⟩ := h
  cases w with
  | storeUser u i =>
    simp only [DbWrite.apply]
    cases hu : d.users u with
    | some _ => exact ⟨h1, h2⟩
    | none =>
      refine ⟨fun k a ha => ?_, h2⟩
      simp only
      by_cases e : a.user = u
      · simp [e]
      · simp only [if_neg e]; exact h1 k a ha
  | updateUser u i =>
    simp only [DbWrite.apply]
    cases hu : d.users u with
    | none => exact ⟨h1, h2⟩
    | some _ =>
      refine ⟨fun k a ha => ?_, h2⟩
      simp only
      by_cases e : a.user = u
      · simp [e]
      · simp only [if_neg e]; exact h1 k a ha
  | storeAppt k a =>
    simp only [DbWrite.apply]
    cases hk : d.appts k with
    | some _ => simp only; exact ⟨h1, h2⟩
    | none =>
      cases hu : d.users a.user with
      | none => simp only; exact ⟨h1, h2⟩
      | some ui =>
        simp only
        refine ⟨fun k' a' ha' => ?_, fun k' t ht => ?_⟩
        · by_cases e : k' = k
          · simp only [e, ↓reduceIte, Option.some.injEq] at ha'
            subst ha'; simp [hu]
          · simp only [if_neg e] at ha'; exact h1 k' a' ha'
        · by_cases e : k' = k
          · simp [e]
          · simp only [if_neg e]; exact h2 k' t ht
  | updateAppt k a =>
    simp only [DbWrite.apply]
    cases hk : d.appts k with
    | none => exact ⟨h1, h2⟩
    | some old =>
      simp only
      refine ⟨fun k' a' ha' => ?_, fun k' t ht => ?_⟩
      · by_cases e : k' = k
        · simp only [e, ↓reduceIte, Option.some.injEq] at ha'
          subst ha'; exact h1 k old hk
        · simp only [if_neg e] at ha'; exact h1 k' a' ha'
      · by_cases e : k' = k
        · simp [e]
        · simp only [if_neg e]; exact h2 k' t ht
  | storeTracker k t =>
    simp only [DbWrite.apply]
    cases hk : d.trackers k with
    | some _ => simp only; exact ⟨h1, h2⟩
    | none =>
      cases ha : d.appts k with
      | none => simp only; exact ⟨h1, h2⟩
      | some a =>
        simp only
        refine ⟨h1, fun k' t' ht' => ?_⟩
        by_cases e : k' = k
        · subst e; simp [ha]
        · simp only [if_neg e] at ht'; exact h2 k' t' ht'
  | updateTracker k st =>
    simp only [DbWrite.apply]
    cases hk : d.trackers k with
    | none => exact ⟨h1, h2⟩
    | some t =>
      simp only
      refine ⟨h1, fun k' t' ht' => ?_⟩
      by_cases e : k' = k
      · subst e; exact h2 k' t hk
      · simp only [if_neg e] at ht'; exact h2 k' t' ht'
  | removeAppts ks balances =>
    simp only [DbWrite.apply]
    obtain ⟨f1, f2, f3⟩ := foldl_setSlots balances (d.dropAppts ks)
    refine ⟨fun k a ha => ?_, fun k t ht => ?_⟩
    · rw [f1] at ha
      rw [f3]
      simp only [Db.dropAppts] at ha ⊢
      by_cases e : k ∈ ks
      · simp [e] at ha
      · simp only [if_neg e] at ha; exact h1 k a ha
    · rw [f2] at ht
      rw [f1]
      simp only [Db.dropAppts] at ht ⊢
      by_cases e : k ∈ ks
      · simp [e] at ht
      · simp only [if_neg e] at ht ⊢; exact h2 k t ht
  | removeUsers us =>
    simp only [DbWrite.apply]
    refine ⟨fun k a ha => ?_, fun k t ht => ?_⟩
    · cases hk : d.appts k with
      | none => simp [hk] at ha
      | some a0 =>
        simp only [hk] at ha
        by_cases e : a0.user ∈ us
        · simp [e] at ha
        · simp only [e, decide_false, Bool.false_eq_true, ↓reduceIte, Option.some.injEq] at ha
          subst ha
          simp only [if_neg e]; exact h1 k a0 hk
    · cases hk : d.appts k with
      | none =>
        simp only [hk, Bool.false_eq_true, ↓reduceIte] at ht
        have := h2 k t ht
        simp [hk] at this
      | some a0 =>
        simp only [hk] at ht ⊢
        by_cases e : a0.user ∈ us
        · simp [e] at ht
        · simp [e]
  | lastKnown b => exact ⟨h1, h2⟩

/-- **durable_inv_every_prefix**: start from a consistent file; let an operation issue any sequence
of writes; kill the process after any number `k` of them: the file is consistent. No tracker without
its appointment, no appointment without its user — at every crash instant of every operation. -/
theorem durable_inv_every_prefix (before : Db) (ws : List DbWrite) (k : Nat) (h : DurableInv before) :
    DurableInv (replay before (ws.take k)) := by
  unfold replay
  generalize ws.take k = l
  induction l generalizing before with
  | nil => exact h
  | cons w r ih => exact ih (w.apply before) (apply_preserves_integrity before w h)

theorem crash_keeps_integrity (before after : Db) (k : Nat) (h : DurableInv before) :
    DurableInv (crashDb before after k) := by
  have := durable_inv_every_prefix before (after.log.drop before.log.length) k h
  exact ⟨this.1, this.2⟩

/-- the empty database (first start) is consistent -/
theorem empty_consistent : DurableInv Db.empty := ⟨fun _ _ h => by simp [Db.empty] at h, fun _ _ h => by simp [Db.empty] at h⟩

/-- **log_is_faithful** (per write kind): what a model operation does to the tables through each
of its mutators is exactly what replaying the logged write does, and exactly one write is logged. -/
theorem storeUser_faithful (d d' : Db) (u : User) (i : UserInfo) (h : d.storeUser u i = some d') :
    d'.users = ((DbWrite.storeUser u i).apply d).users ∧ d'.appts = d.appts ∧ d'.trackers = d.trackers ∧
    d'.log = d.log ++ [.storeUser u i] := by
  unfold Db.storeUser at h
  cases hu : d.users u with
  | some _ => simp [hu] at h
  | none =>
    simp only [hu, Option.some.injEq] at h
    subst h
    simp [DbWrite.apply, hu]

theorem updateUser_faithful (d : Db) (u : User) (i : UserInfo) (ui : UserInfo) (hu : d.users u = some ui) :
    (d.updateUser u i).users = ((DbWrite.updateUser u i).apply d).users ∧
    (d.updateUser u i).log = d.log ++ [.updateUser u i] := by
  simp [Db.updateUser, DbWrite.apply, hu]

theorem storeAppt_faithful (d d' : Db) (k : Uuid) (a : Appt) (h : d.storeAppt k a = some d') :
    d'.appts = ((DbWrite.storeAppt k a).apply d).appts ∧ d'.users = d.users ∧ d'.trackers = d.trackers ∧
    d'.log = d.log ++ [.storeAppt k a] := by
  unfold Db.storeAppt at h
  cases hk : d.appts k with
  | some _ => simp [hk] at h
  | none =>
    cases hu : d.users a.user with
    | none => simp [hk, hu] at h
    | some ui =>
      simp only [hk, hu, Option.some.injEq] at h
      subst h
      simp [DbWrite.apply, hk, hu]

theorem storeTracker_faithful (d d' : Db) (k : Uuid) (t : Tracker) (h : d.storeTracker k t = some d') :
    d'.trackers = ((DbWrite.storeTracker k t).apply d).trackers ∧ d'.users = d.users ∧ d'.appts = d.appts ∧
    d'.log = d.log ++ [.storeTracker k t] := by
  unfold Db.storeTracker at h
  by_cases hacc : t.status.accepted = true
  · simp only [hacc, Bool.not_true, Bool.false_eq_true, ↓reduceIte] at h
    cases hk : d.trackers k with
    | some _ => simp [hk] at h
    | none =>
      cases ha : d.appts k with
      | none => simp [hk, ha] at h
      | some a =>
        simp only [hk, ha, Option.some.injEq] at h
        subst h
        simp [DbWrite.apply, hk, ha]
  · simp [hacc] at h

/-- **refund_is_atomic_with_deletion**: the refunding deletion is one write carrying both the
deleted keys and the refunded balances: no crash instant lies between them (a crash never grants
slots for an appointment that is still there, nor forgets the refund of one that is gone). -/
theorem refund_is_atomic_with_deletion (d : Db) (ks : List Uuid) (balances : List (User × Nat)) :
    (d.removeApptsRefund ks balances).log = d.log ++ [.removeAppts ks balances] ∧
    (d.removeApptsRefund ks balances).users = ((DbWrite.removeAppts ks balances).apply d).users ∧
    (d.removeApptsRefund ks balances).appts = ((DbWrite.removeAppts ks balances).apply d).appts ∧
    (d.removeApptsRefund ks balances).trackers = ((DbWrite.removeAppts ks balances).apply d).trackers := by
  simp [Db.removeApptsRefund, DbWrite.apply]

/-- **charge_precedes_store**: an accepted new appointment (no recent dispute) is two writes, the
charge first, the row second. A crash between them costs the user exactly the slots of the request
in flight and nothing else; before the first or after the second nothing is lost. -/
theorem charge_precedes_store (s : Tower) (node : Node) (signer : Option User) (loc : Loc) (blob : Blob)
    (tsd usig : Nat) (u : User) (ui : UserInfo)
    (ha : authCheck s signer = .ok (u, ui)) (hmu : s.mem.users u = some ui) (hdu : s.db.users u = some ui)
    (hnt : s.db.trackers (loc, u) = none) (hna : s.db.appts (loc, u) = none)
    (hfit : slotsOf blob.len ≤ ui.slots) (hc : s.mem.cache.get loc = none) :
    (addAppointment s node signer loc blob tsd usig).1.db.log =
      s.db.log ++ [.updateUser u { ui with slots := ui.slots - slotsOf blob.len },
                   .storeAppt (loc, u) { loc := loc, user := u, blob := blob, tsd := tsd, usig := usig, start := s.mem.wHeight }] := by
  have hd : decide (((slotsOf blob.len : Nat) : Int) - ((slotsOf 0 : Nat) : Int) ≤ (ui.slots : Int)) = true := by
    apply decide_eq_true
    have : slotsOf 0 = 0 := by decide
    omega
  have e : ((ui.slots : Int) - (((slotsOf blob.len : Nat) : Int) - ((slotsOf 0 : Nat) : Int))).toNat = ui.slots - slotsOf blob.len := by
    have : slotsOf 0 = 0 := by decide
    omega
  have hc' : s.mem.cache.index loc = none := hc
  simp [addAppointment, ha, hnt, addUpdateAppointment, hmu, hna, Gen.slotsFit, hd, e, Db.updateUser, hdu,
    TxIndex.get, hc', storeAppointment, Db.storeAppt]

set_option maxRecDepth 40000 in
/-- **shrinking_update_refund_precedes_row** (negative): replacing an appointment by a smaller one
writes the returned slots first and the smaller blob second; the prefix of length one has the
refund *and* the large blob: this crash instant grants a slot (known finding). Witness: 2049 → 330 bytes. -/
theorem shrinking_update_refund_precedes_row :
    let cfg : Cfg := { slots := 3, duration := 10, grace := 3 }
    let node : Node := { send := fun _ => .ok, get := fun _ => .rpc (-5) }
    let s0 := (register cfg (boot Db.empty 100 []) 7).1
    let s := (addAppointment s0 node (some 7) 4 (.junk 1 2049) 0 0).1
    let s' := (addAppointment s node (some 7) 4 (.junk 2 330) 0 1).1
    ((s.db.users 7).map (·.slots) = some 1) ∧
    (((crashDb s.db s'.db 1).users 7).map (·.slots) = some 2) ∧
    (((crashDb s.db s'.db 1).appts (4, 7)).map (·.blob.len) = some 2049) := by
  refine ⟨rfl, rfl, rfl⟩

/-- **lkb_written_last**: a poll records the last known block after the listeners have handled
every block it delivered: it is the last durable write of the poll. -/
theorem lkb_written_last (cfg : Cfg) (s : Tower) (node : Node) (blocks : List (Nat × Nat × List TxId)) (tip : Nat) :
    ∃ l, (pollBlocks cfg s node blocks tip).1.db.log = l ++ [.lastKnown tip] ∧
      (pollBlocks cfg s node blocks tip).1.db.lastKnown = some tip := by
  unfold pollBlocks
  simp only
  generalize (blocks.foldl _ (s, [])) = acc
  obtain ⟨s1, log⟩ := acc
  exact ⟨s1.db.log, rfl, rfl⟩

/-- **partial_poll_records_undelivered_tip** (negative): when only part of the announced chain was
delivered, the recorded block is still the announced tip: after a crash the undelivered blocks are
skipped. Witness: one block delivered, tip two blocks further. -/
theorem partial_poll_records_undelivered_tip :
    let cfg : Cfg := { slots := 2, duration := 100, grace := 3 }
    let node : Node := { send := fun _ => .ok, get := fun _ => .rpc (-5) }
    let s := boot Db.empty 100 []
    (pollBlocks cfg s node [(101, 101, [])] 103).1.db.lastKnown = some 103 ∧
    (pollBlocks cfg s node [(101, 101, [])] 103).1.mem.wHeight = 101 := by
  constructor <;> rfl

/-- **already_in_chain_leaves_no_tracker** (negative, general): when the node answers a penalty with
"already in chain" — the penalty is confirmed but not in the responder's index, e.g. because it was handed
to the node, the process died before the tracker was stored, and it was mined while the tower was down —
replaying the breach records nothing: no tracker is created and the appointment is not marked invalid, so
it stays "being watched" although it has been responded to. -/
theorem already_in_chain_leaves_no_tracker (s : Tower) (node : Node) (k : Uuid) (d p : TxId) (a : Appt)
    (inv : List Uuid) (log : List Rpc)
    (ha : s.db.appts k = some a) (hd : a.blob.decrypt d = some p) (hi : s.mem.txIndex.get p = none)
    (hm : s.mem.receipts p = none) (hg : node.get p = .found true)
    (hs : node.send p = .rpc Gen.RPC_VERIFY_ALREADY_IN_CHAIN) :
    (breachStep node d (s, inv, log) k).1.db.trackers = s.db.trackers ∧
    (breachStep node d (s, inv, log) k).1.db.appts = s.db.appts ∧
    (breachStep node d (s, inv, log) k).2.1 = inv := by
  have hv : sendVerdict s.mem.cHeight (node.send p) = .irrevocablyResolved := by
    rw [hs]; rfl
  have hmp : carrierInMempool node p = false := by unfold carrierInMempool; rw [hg]; rfl
  have hb : handleBreach s node k d p a.user =
      ({ s with mem := (carrierSend s.mem node p).1 }, .irrevocablyResolved, .get p :: (carrierSend s.mem node p).2.2) := by
    unfold handleBreach
    simp only [hi, hmp, Bool.false_eq_true, ↓reduceIte]
    have : (carrierSend s.mem node p).2.1 = .irrevocablyResolved := by
      rw [carrierSend_fresh s.mem node p hm]; exact hv
    simp [this, CStatus.accepted]
  unfold breachStep
  simp only [ha, hd, hb, CStatus.isRejected, Bool.false_eq_true, ↓reduceIte]
  exact ⟨trivial, trivial, trivial⟩

set_option maxRecDepth 20000 in
/-- non-vacuity of `durable_inv_every_prefix`: an actual operation log, cut in the middle -/
example :
    let cfg : Cfg := { slots := 3, duration := 10, grace := 3 }
    let node : Node := { send := fun _ => .ok, get := fun _ => .rpc (-5) }
    let s := (register cfg (boot Db.empty 100 []) 7).1
    let s' := (addAppointment s node (some 7) 4 (.enc 64 80 300) 20 5).1
    s'.db.log.length = s.db.log.length + 2 ∧
    ((crashDb s.db s'.db 1).users 7).map (·.slots) = some 2 ∧ (crashDb s.db s'.db 1).appts (4, 7) = none := by
  refine ⟨rfl, rfl, rfl⟩


/-! ### history level: what every restart finds -/

/-- **no history leaves dangling records**: whatever the tower did before it died — any history of
operations from a consistent database — the file it leaves has every appointment attached to an
existing user and every tracker attached to an existing appointment with a storable status, so the
next bootstrap starts from a consistent database again (and `tinv_boot` applies to it). Together
with `durable_inv_every_prefix` (a crash keeps a prefix of the committed writes, each of which keeps
the integrity) this covers a death at any instant. -/
theorem no_dangling_records_ever (cfg : Cfg) (db : Db) (height : Nat) (blocks : List (Nat × List TxId))
    (hdb : DbInv db) (hnd : (blocks.map (·.1)).Nodup) (hist : List (Node × Op))
    (hv : HistoryValid cfg (boot db height blocks) hist) :
    DbInv (runHistory cfg (boot db height blocks) hist).db :=
  (tinv_history cfg hist _ (tinv_boot db height blocks hdb hnd) hv).db

/-- restarting on that file gives a state satisfying the invariant again, whatever the chain -/
theorem restart_is_consistent (cfg : Cfg) (s : Tower) (h : TInv s) (height : Nat)
    (blocks : List (Nat × List TxId)) (hnd : (blocks.map (·.1)).Nodup) :
    TInv (boot s.db height blocks) :=
  tinv_boot s.db height blocks h.db hnd

/-! ### histories with restarts -/

/-- one item of a history that may stop and start the tower: an operation with the node behaviour it meets, or
a restart on the same database with whatever recent blocks the node then hands to the bootstrap -/
inductive Item where
  | op (node : Node) (o : Op)
  | restart (height : Nat) (blocks : List (Nat × List TxId))

def stepR (cfg : Cfg) (s : Tower) : Item → Tower
  | .op node o => (step cfg s node o).1
  | .restart h bl => boot s.db h bl

def runR (cfg : Cfg) (s : Tower) (items : List Item) : Tower := items.foldl (stepR cfg) s

def ItemValid (s : Tower) : Item → Prop
  | .op _ o => OpValid s o
  | .restart _ bl => (bl.map (·.1)).Nodup

def ValidR (cfg : Cfg) : Tower → List Item → Prop
  | _, [] => True
  | s, it :: rest => ItemValid s it ∧ ValidR cfg (stepR cfg s it) rest

/-- **consistent_through_restarts**: the tower's invariant (no abort, referential integrity of the file,
memory = file for the users, index consistent with the blocks fed) holds after ANY history in which the
process is also stopped and started again any number of times, at any point, on any recent blocks -/
theorem consistent_through_restarts (cfg : Cfg) : ∀ (items : List Item) (s : Tower), TInv s →
    ValidR cfg s items → TInv (runR cfg s items)
  | [], _, h, _ => h
  | it :: rest, s, h, hv => by
    unfold runR
    simp only [List.foldl_cons]
    have h1 : TInv (stepR cfg s it) := by
      cases it with
      | op node o => exact tinv_step cfg s node o h hv.1
      | restart ht bl => exact tinv_boot s.db ht bl h.db hv.1
    exact consistent_through_restarts cfg rest _ h1 hv.2

/-- … and what is held stays justified: after any such history every tracker row still has its appointment
row, whose blob decrypts to the tracker's penalty under a dispute seen in a connected block or in the recent
blocks handed to a bootstrap -/
theorem justified_through_restarts (cfg : Cfg) : ∀ (items : List Item) (s : Tower) (seen : List TxId),
    Just s seen → ∃ seen', (∀ x, x ∈ seen → x ∈ seen') ∧ Just (runR cfg s items) seen'
  | [], s, seen, h => ⟨seen, fun _ hx => hx, h⟩
  | it :: rest, s, seen, h => by
    unfold runR
    simp only [List.foldl_cons]
    cases it with
    | op node o =>
      have so := stepOk_step cfg s seen node o h
      obtain ⟨seen', hs, hj⟩ := justified_through_restarts cfg rest (step cfg s node o).1 (seen ++ opTxs o) so.just
      exact ⟨seen', fun x hx => hs x (List.mem_append.2 (Or.inl hx)), hj⟩
    | restart ht bl =>
      have hb : Just (boot s.db ht bl) (seen ++ bl.flatMap (·.2)) :=
        just_boot s.db ht bl _ (h.trk.mono (fun x hx => List.mem_append.2 (Or.inl hx)))
          (fun b hb x hx => List.mem_append.2 (Or.inr (List.mem_flatMap.2 ⟨b, hb, hx⟩)))
      obtain ⟨seen', hs, hj⟩ := justified_through_restarts cfg rest (boot s.db ht bl) _ hb
      exact ⟨seen', fun x hx => hs x (List.mem_append.2 (Or.inl hx)), hj⟩

end Teos.C03
