/-
C12 — A bitcoind outage never drops a response and the tower recovers by itself.

The reachability protocol is modelled in `Model/Outage.lean` and compared, act by act, with the
real Carrier / ChainMonitor / InternalAPI running under the deterministic scheduler (hook H5).
PARTIAL, and the full statement is FALSE of the code in two situations that are proved here as
negative theorems and reproduced on the real code (known findings):
  * `block_path_self_wait`: when the outage hits while the *chain thread* is answering a breach, that
    thread waits for a signal only it can send: the tower never resumes;
  * `request_path_blocks_chain`: when it hits on the *request path* and a block is mined before the
    node is back, the waiting request holds the locator-cache lock the block needs.
What does hold: no submission is ever dropped (the carrier either delivers or keeps waiting), the API
answers 503 exactly while the flag is down, and the request path recovers by itself when no block
was mined meanwhile; a failed block download keeps the progress made.
-/
import TeosVerif.Model.Outage
import TeosVerif.Lemmas.OutageInv
namespace Teos.C12
open Teos.Outage

theorem rpcAttempt_sends (s : St) : (rpcAttempt s).1.sends = s.sends := by
  unfold rpcAttempt
  cases h : s.rpcDownAfter with
  | none => simp only; split <;> rfl
  | some n =>
    cases n with
    | zero => simp only; split <;> rfl
    | succ m => simp only; split <;> rfl

/-- **no_submission_dropped**: a thread working through its RPCs never gives one up: it ends with
nothing left, or waiting with the rest still to do; the penalty is counted sent exactly when the
last RPC got through. -/
theorem no_submission_dropped (fuel : Nat) : ∀ (s : St) (rem : Nat),
    let r := runRpcs s rem fuel
    r.2.1 ≤ rem ∧ (r.2.1 = 0 ∨ r.2.2 = true) ∧
    r.1.sends = s.sends + (if rem > 0 ∧ r.2.1 = 0 then 1 else 0) := by
  induction fuel with
  | zero =>
    intro s rem
    simp only [runRpcs]
    refine ⟨Nat.le_refl _, ?_, ?_⟩
    · by_cases h : rem = 0 <;> simp [h]
    · by_cases h : rem = 0 <;> simp [h]
  | succ f ih =>
    intro s rem
    cases rem with
    | zero => simp [runRpcs]
    | succ r =>
      simp only [runRpcs]
      by_cases hf : s.flag = true
      · simp only [hf, Bool.not_true, Bool.false_eq_true, ↓reduceIte]
        cases hat : rpcAttempt s with
        | mk s1 ok =>
          have hs1 : s1.sends = s.sends := by
            have := rpcAttempt_sends s
            rw [hat] at this; exact this
          cases ok with
          | true =>
            simp only [↓reduceIte]
            by_cases hr : r = 0
            · subst hr
              have := ih { s1 with sends := s1.sends + 1, trackers := s1.trackers + 1 } 0
              simp only [runRpcs] at this ⊢
              cases f <;> simp [runRpcs, hs1]
            · simp only [hr, ↓reduceIte]
              have := ih s1 r
              simp only at this
              obtain ⟨h1, h2, h3⟩ := this
              refine ⟨by omega, h2, ?_⟩
              rw [h3, hs1]
              have hr' : r > 0 := by omega
              simp [hr']
          | false =>
            simp only [Bool.false_eq_true, ↓reduceIte]
            have := ih { s1 with flag := false } (r + 1)
            simp only at this
            obtain ⟨h1, h2, h3⟩ := this
            exact ⟨h1, h2, by rw [h3]; simp [hs1]⟩
      · have hf' : s.flag = false := by simpa using hf
        simp [hf']

/-- **api_503_after_noticed**: the public API answers `service unavailable` exactly while the flag
is down… -/
theorem api_503_iff_flag_down (s : St) : apiStatus s = 503 ↔ s.flag = false := by
  unfold apiStatus; cases s.flag <;> simp

/-- …and a transport error on an RPC is what brings the flag down (the thread then waits) -/
theorem transport_error_is_noticed (s : St) (r fuel : Nat) (hf : s.flag = true)
    (herr : (rpcAttempt s).2 = false) :
    (runRpcs s (r + 1) (fuel + 2)).1.flag = false ∧ (runRpcs s (r + 1) (fuel + 2)).2.2 = true ∧
    (runRpcs s (r + 1) (fuel + 2)).2.1 = r + 1 := by
  cases hat : rpcAttempt s with
  | mk s1 ok =>
    rw [hat] at herr
    simp only at herr
    subst herr
    simp [runRpcs, hf, hat]

/-- a failed poll (node unreachable) brings it down as well -/
theorem failed_poll_is_noticed (s : St) (hc : s.chain = .idle) (hn : s.nodeUp = false) :
    (step s .poll).flag = false := by
  simp [step, hc, hn]

/-- **request_path_recovers**: outage during an API-thread submission, no block mined meanwhile:
once the node is back, the next poll raises the flag and wakes the request, which retries the very
same call, delivers the penalty and records the tracker — without operator action. -/
theorem request_path_recovers (s : St) (ha : s.api = .wait) (hr : s.apiRem = 1 ∨ s.apiRem = 2)
    (hc : s.chain = .idle) (hp : s.pending = []) (hn : s.nodeUp = true) (hd : s.rpcDown = false)
    (hda : s.rpcDownAfter = none) :
    let s2 := step (step s .poll) .apiRun
    s2.api = .done ∧ s2.flag = true ∧ s2.sends = s.sends + 1 ∧ s2.trackers = s.trackers + 1 := by
  rcases hr with h | h <;>
    simp [step, hc, hn, hp, deliver, ha, h, runRpcs, rpcAttempt, hd, hda]

/-- the state in which the request path can never recover: the request waits (holding the cache
lock), the node is back, and an undelivered block stands between the poll and its `notify_all` -/
def RequestBlocksChain (s : St) : Prop :=
  s.api = .wait ∧ s.flag = false ∧ s.pending ≠ [] ∧ s.failAt = none ∧ s.nodeUp = true ∧
  (s.chain = .idle ∨ s.chain = .blocked)

/-- **request_path_blocks_chain** (negative): from such a state no poll, no continuation of the
request and no probe changes anything: the tower is stuck for good although the node is reachable. -/
theorem request_path_blocks_chain (s : St) (h : RequestBlocksChain s) (a : Act)
    (ha : a = .poll ∨ a = .apiRun ∨ a = .probe) : RequestBlocksChain (step s a) ∧ (step s a).api = .wait := by
  obtain ⟨h1, h2, h3, h4, h5, h6⟩ := h
  have hold : apiHoldsCache s = true := by simp [apiHoldsCache, h1]
  rcases ha with rfl | rfl | rfl
  · rcases h6 with hc | hc
    · cases hp : s.pending with
      | nil => exact absurd hp h3
      | cons d rest =>
        have : step s .poll = { s with chain := .blocked } := by
          simp [step, hc, h5, deliver, hp, h4, hold]
        rw [this]
        exact ⟨⟨h1, h2, by simpa [hp] using h3, h4, h5, Or.inr rfl⟩, h1⟩
    · have : step s .poll = s := by simp [step, hc, hold]
      rw [this]; exact ⟨⟨h1, h2, h3, h4, h5, Or.inr hc⟩, h1⟩
  · have : step s .apiRun = s := by simp [step, h1]
    rw [this]; exact ⟨⟨h1, h2, h3, h4, h5, h6⟩, h1⟩
  · exact ⟨⟨h1, h2, h3, h4, h5, h6⟩, h1⟩

/-- forever: whatever sequence of polls / continuations / probes follows -/
theorem request_path_blocks_chain_forever (acts : List Act) (hacts : ∀ a ∈ acts, a = .poll ∨ a = .apiRun ∨ a = .probe) :
    ∀ s, RequestBlocksChain s → (acts.foldl step s).api = .wait ∧ (acts.foldl step s).flag = false := by
  induction acts with
  | nil => intro s h; exact ⟨h.1, h.2.1⟩
  | cons a r ih =>
    intro s h
    simp only [List.foldl_cons]
    exact ih (fun x hx => hacts x (List.mem_cons_of_mem _ hx)) _
      (request_path_blocks_chain s h a (hacts a (by simp))).1

/-- the state reached when the outage hits the chain thread in the middle of a breach -/
def ChainSelfWait (s : St) : Prop := s.chain = .wait ∧ s.flag = false ∧ (s.api = .idle ∨ s.api = .done)

/-- **block_path_self_wait** (negative): the chain thread waits for the flag; polling is what raises
the flag; the chain thread is the one that polls. Nothing the node, the miners or clients do helps. -/
theorem block_path_self_wait (s : St) (h : ChainSelfWait s) (a : Act)
    (ha : a = .poll ∨ a = .apiRun ∨ a = .probe ∨ a = .nodeUp ∨ (∃ d, a = .mine d)) :
    ChainSelfWait (step s a) := by
  obtain ⟨h1, h2, h3⟩ := h
  rcases ha with rfl | rfl | rfl | rfl | ⟨d, rfl⟩
  · simp [step, h1, ChainSelfWait, h2, h3]
  · have : step s .apiRun = s := by
      rcases h3 with h3 | h3 <;> simp [step, h3]
    rw [this]; exact ⟨h1, h2, h3⟩
  · exact ⟨h1, h2, h3⟩
  · exact ⟨h1, h2, h3⟩
  · exact ⟨h1, h2, h3⟩

/-- both bad states are reachable from a healthy tower (the scenarios replayed on the real code) -/
theorem bad_states_reachable :
    RequestBlocksChain ([Act.nodeDown, .apiStart, .apiRun, .mine false, .nodeUp, .poll].foldl step {}) ∧
    ChainSelfWait ([Act.mine true, .rpcDownAfter 0, .poll, .nodeUp].foldl step {}) := by
  constructor
  · refine ⟨by decide, by decide, by decide, by decide, by decide, by decide⟩
  · refine ⟨by decide, by decide, by decide⟩

/-- **poll_partial_progress_kept**: a block whose download fails stops the delivery there: the blocks
before it stay delivered (their breaches answered), the failed one and its successors stay pending
for the next poll, and the poll itself counts as successful (flag up). -/
theorem poll_partial_progress_kept (s : St) (rest : List Bool) (hp : s.pending = false :: rest)
    (hf : s.failAt = some 1) (ha : s.api = .idle) (hc : s.chain = .idle) (hn : s.nodeUp = true) :
    (step s .poll).pending = rest ∧ (step s .poll).flag = true := by
  cases rest with
  | nil => simp [step, hc, hn, deliver, hp, hf, apiHoldsCache, ha]
  | cons d r => simp [step, hc, hn, deliver, hp, hf, apiHoldsCache, ha]

/-! ### the poll that ends an outage (seventh-round seed: a poll that finds the tip it already knows) -/

/-- **a_successful_poll_ends_the_outage**: a poll made with the node up by an idle chain thread raises the flag
(the public API answers 200 again) whatever it finds to deliver — nothing at all (the tip it already recorded, or a
worse one), blocks without a dispute, or a download that fails half-way — and whatever the flag was before. (Blocks
that carry a dispute need RPCs, whose outcome `no_submission_dropped` and `outage_noticed_means_flag_down` cover; an
API thread inside its critical section is the known finding `request_path_blocks_chain`.) -/
theorem a_successful_poll_ends_the_outage (s : St) (hc : s.chain = .idle) (hn : s.nodeUp = true)
    (hq : ∀ d ∈ s.pending, d = false) (ha : apiHoldsCache s = false) (hl : s.pending.length < 16) :
    (step s .poll).flag = true ∧ apiStatus (step s .poll) = 200 := by
  have h : (step s .poll).flag = true := by
    simp only [step, hc, hn]
    exact deliver_quiet_raises_flag 16 s 0 hq ha hl
  exact ⟨h, by simp [apiStatus, h]⟩

/-- non-vacuity, and the history of the seventh-round seed: a download fails in the middle of a three-block poll,
the node then goes away and a poll notices (flag down, 503); the node comes back with nothing new mined, and the poll
that delivers the two remaining blocks — finding the tip already recorded — ends the outage. -/
example :
    let s := [Act.mine false, .mine false, .mine false, .failBlock 1, .poll, .nodeDown, .poll, .nodeUp].foldl step ({} : St)
    s.flag = false ∧ s.chain = .idle ∧ s.nodeUp = true ∧ (∀ d ∈ s.pending, d = false) ∧ apiHoldsCache s = false ∧
    s.pending.length = 2 ∧ (step s .poll).flag = true ∧ (step s .poll).pending = [] := by decide


/-! ### every reachable state of the protocol model: a noticed outage is a flagged outage (`Lemmas/OutageInv`) -/

/-- **outage_noticed_means_flag_down**: in every state the protocol model reaches, by ANY sequence of acts (node down /
up / behind, RPC interface failing at any later call, blocks mined, block downloads failing, API requests started and
run, polls, probes), a thread parked in the carrier's wait — on the request path or inside block processing — implies
that the reachability flag is down, i.e. the public API answers `service unavailable` (with `api_503_iff_flag_down`):
from the moment the tower has noticed the outage it takes on no new work. -/
theorem outage_noticed_means_flag_down (acts : List Act) :
    let s := acts.foldl step ({} : St)
    (s.api = .wait → apiStatus s = 503) ∧ (s.chain = .wait → apiStatus s = 503) := by
  have h : ∀ (acts : List Act) (s0 : St), NoticedB s0 → NoticedB (acts.foldl step s0) := by
    intro acts
    induction acts with
    | nil => intro s0 h; exact h
    | cons a rest ih => intro s0 h; exact ih _ (noticedB_step s0 a h)
  have h0 : NoticedB ({} : St) := ⟨⟨fun ha => (by cases ha), fun hw => (by cases hw)⟩, by decide⟩
  obtain ⟨⟨n1, n2⟩, _⟩ := h acts _ h0
  exact ⟨fun ha => (api_503_iff_flag_down _).mpr (n1 ha), fun hw => (api_503_iff_flag_down _).mpr (n2 hw)⟩

/-- non-vacuity: both premises are reachable -/
example :
    (([Act.nodeDown, .apiStart, .apiRun].foldl step ({} : St)).api = .wait) ∧
    (([Act.mine true, .rpcDownAfter 0, .poll].foldl step ({} : St)).chain = .wait) := by decide

end Teos.C12
