/-
C16 — Client and tower agree on every byte of the wire format.

Both sides use the *same* generated message types (teos-common's protobuf structs with the serde
attributes injected by build.rs), so agreement reduces to: (1) each field adapter is a
round trip, (2) status names are a round trip, (3) the signed byte layouts determine their
fields, (4) the client's untagged `ApiResponse<T> | ApiError` can never confuse the two.
The tables (`Gen.Wire`) are regenerated from the sources on every run, so a renamed field, a
changed adapter, a new status or a reordered layout re-checks (or breaks) these theorems.
serde_json's own printing/parsing of strings and numbers is trusted and exercised by the
correspondence run (real client code -> real router -> real client code).
-/
import TeosVerif.Model.Wire

namespace Teos.C16
open Teos.Wire

/-! ### hex -/

theorem hexVal_hexDigit : ∀ n, n < 16 → hexVal (hexDigit n) = some n := by decide

/-- **hex fields survive the trip**: for all byte strings (every length, empty included) -/
theorem hex_roundtrip : ∀ (bs : List Nat), (∀ b ∈ bs, b < 256) → hexDecode (hexEncode bs) = some bs := by
  intro bs
  induction bs with
  | nil => intro _; rfl
  | cons b bs ih =>
    intro h
    have hb : b < 256 := h b (by simp)
    have h1 : hexVal (hexDigit (b / 16)) = some (b / 16) := hexVal_hexDigit _ (by omega)
    have h2 : hexVal (hexDigit (b % 16)) = some (b % 16) := hexVal_hexDigit _ (by omega)
    simp only [hexEncode, hexDecode, h1, h2, ih (fun x hx => h x (by simp [hx]))]
    congr 2
    omega

/-- what `hex::decode` accepts is of even length: an odd-length string is refused (the tower
answers WRONG_FIELD_FORMAT), never silently truncated -/
theorem hex_odd_refused : ∀ (s : List Char), s.length % 2 = 1 → hexDecode s = none
  | [], h => by simp at h
  | [_], _ => rfl
  | a :: b :: rest, h => by
    have hr : rest.length % 2 = 1 := by simp only [List.length_cons] at h; omega
    have := hex_odd_refused rest hr
    simp only [hexDecode, this]
    split <;> simp_all

/-- **byte-reversed transaction ids survive the trip** -/
theorem be_roundtrip (bs : List Nat) (h : ∀ b ∈ bs, b < 256) : beDecode (beEncode bs) = some bs := by
  unfold beDecode beEncode
  rw [hex_roundtrip bs.reverse (fun b hb => h b (List.mem_reverse.mp hb))]
  simp

/-- … and the reversal is real: the printed id is not the internal byte order (unless it is a
palindrome), so both sides must apply it -/
example : beEncode [1, 2] ≠ hexEncode [1, 2] := by decide

theorem vec_roundtrip : ∀ (vs : List (List Nat)), (∀ v ∈ vs, ∀ b ∈ v, b < 256) →
    vecDecode (vecEncode vs) = some vs := by
  intro vs
  induction vs with
  | nil => intro _; rfl
  | cons v vs ih =>
    intro h
    simp only [vecEncode, List.map_cons, vecDecode, hex_roundtrip v (h v (by simp))]
    have := ih (fun x hx => h x (by simp [hx]))
    simp only [vecEncode] at this
    rw [this]

/-! ### status names -/

/-- **every status the tower can print is parsed back to itself by the client** (table from
appointment.rs; adding a status without its name on both sides breaks this) -/
theorem status_roundtrip :
    ∀ p ∈ Gen.Wire.statusShow, statusParse p.2 = some p.1 := by decide

/-- the names are distinct, and the three protobuf values all have a name -/
theorem status_names_total :
    (Gen.Wire.statusShow.map (·.2)).Nodup ∧ ∀ n, n < 3 → (statusShow n).isSome = true := by decide

/-! ### numbers -/

theorem be32_roundtrip (n : Nat) (h : n < 4294967296) : unbe32 (be32 n) = some n := by
  simp only [be32, unbe32, Option.some.injEq]
  omega

theorem be32_length (n : Nat) : (be32 n).length = 4 := rfl

/-! ### the signed byte strings determine their fields -/

/-- field values of the sizes the layout prescribes -/
inductive AllSized : List Kind → List (List Nat) → Prop where
  | nil : AllSized [] []
  | cons {k ks v vs} : WellSized k v → AllSized ks vs → AllSized (k :: ks) (v :: vs)


theorem serialize_length_fixed : ∀ (ks : List Kind) (vs : List (List Nat)) (n : Nat),
    fixedTotal ks = some n → AllSized ks vs → (serialize vs).length = n := by
  intro ks
  induction ks with
  | nil =>
    intro vs n h hw
    cases hw
    simp only [fixedTotal, Option.some.injEq] at h
    simp [serialize, ← h]
  | cons k ks ih =>
    intro vs n h hw
    cases hw with
    | cons hk hrest =>
      cases k with
      | var => simp [fixedTotal] at h
      | fixed m =>
        simp only [fixedTotal, Option.map_eq_some_iff] at h
        obtain ⟨n', hn', rfl⟩ := h
        simp only [serialize, List.length_append, ih _ n' hn' hrest]
        simp only [WellSized] at hk
        omega

/-- **a layout with at most one variable-length field is injective**: two well-sized field lists
with the same bytes are the same fields — the signature over `to_vec` binds every field -/
theorem serialize_injective : ∀ (ks : List Kind) (vs ws : List (List Nat)),
    decodable ks = true → AllSized ks vs → AllSized ks ws →
    serialize vs = serialize ws → vs = ws := by
  intro ks
  induction ks with
  | nil => intro vs ws _ hv hw _; cases hv; cases hw; rfl
  | cons k ks ih =>
    intro vs ws hd hv hw he
    cases hv with
    | cons hk1 hr1 =>
      cases hw with
      | cons hk2 hr2 =>
        rename_i v vs' w ws'
        simp only [serialize] at he
        cases k with
        | fixed m =>
          simp only [WellSized] at hk1 hk2
          have hlen : v.length = w.length := by omega
          obtain ⟨e1, e2⟩ := List.append_inj he hlen
          subst e1
          simp only [decodable] at hd
          rw [ih vs' ws' hd hr1 hr2 e2]
        | var =>
          simp only [decodable, Option.isSome_iff_exists] at hd
          obtain ⟨n, hn⟩ := hd
          have l1 := serialize_length_fixed ks vs' n hn hr1
          have l2 := serialize_length_fixed ks ws' n hn hr2
          obtain ⟨e1, e2⟩ := List.append_inj' he (by omega)
          subst e1
          -- the tail is all fixed-size fields
          have hd' : decodable ks = true := by
            clear ih he hr1 hr2 l1 l2
            induction ks generalizing n with
            | nil => rfl
            | cons k ks ih2 =>
              cases k with
              | var => simp [fixedTotal] at hn
              | fixed m =>
                simp only [fixedTotal, Option.map_eq_some_iff] at hn
                obtain ⟨n', hn', _⟩ := hn
                simp only [decodable]
                exact ih2 n' hn'
          rw [ih vs' ws' hd' hr1 hr2 e2]

/-- **the three signed layouts of the sources are all injective** (`Appointment::to_vec`,
`RegistrationReceipt::to_vec`, `AppointmentReceipt::to_vec`, as extracted) -/
theorem signed_layouts_decodable :
    ∀ l ∈ Gen.Wire.layouts, decodable (l.2.map (fun f => kindOf f.2)) = true := by decide

/-- and none of them is empty: every one binds at least its fixed fields -/
theorem signed_layouts_nonempty : ∀ l ∈ Gen.Wire.layouts, l.2 ≠ [] := by decide

/-! ### field adapters: every bytes field has one, on both sides the same -/

/-- every `bytes` field of every message travels through a hex adapter (a missing attribute
would make serde print a JSON array of numbers on one side while the documentation and any
other client speak hex) -/
theorem every_bytes_field_has_an_adapter :
    ∀ m ∈ Gen.Wire.messages, ∀ f ∈ m.2,
      (f.2 = "bytes" ∨ f.2 = "repeated bytes") →
      (Gen.Wire.adapters.lookup f.1 = some "hex" ∨ Gen.Wire.adapters.lookup f.1 = some "hexBE" ∨
       Gen.Wire.adapters.lookup f.1 = some "vecHex") := by decide

/-- the status field goes through the name adapter -/
theorem status_field_named :
    (Gen.Wire.adapters.filter (fun a => a.1 = "status")).map (·.2) = ["status"] := by decide

/-! ### the client's untagged answer -/

/-- the four messages the tower answers with -/
def responseNames : List String :=
  ["AddAppointmentResponse", "GetAppointmentResponse", "RegisterResponse", "GetSubscriptionInfoResponse"]

def responseMessages : List (String × List (String × String)) :=
  Gen.Wire.messages.filter (fun m => responseNames.contains m.1)

/-- all four are defined in the .proto files -/
theorem responses_defined : responseMessages.map (·.1) = responseNames := by decide

/-- **an error object is never taken for a response**: every response message has a required
field that `{error, error_code}` does not carry, so serde's first attempt (`Response(T)`) fails
on an error body and the second (`Error`) applies -/
theorem error_never_parses_as_response :
    ∀ m ∈ responseMessages, parsesAs (m.2.map (·.1)) Gen.Wire.apiErrorFields = false := by decide

/-- … and a response is tried first, so a well-formed response is never reported as an error
even if it happened to carry extra keys -/
theorem response_tried_first : Gen.Wire.apiResponseVariants = ["Response", "Error"] := by decide

/-- a response body does parse as its own message (required = its own keys) -/
theorem response_parses_as_itself :
    ∀ m ∈ responseMessages, parsesAs (m.2.map (·.1)) (m.2.map (·.1)) = true := by decide

/-- non-vacuity: a concrete appointment's signed bytes -/
example : serialize [List.replicate 16 7, [1, 2, 3], be32 42] =
    List.replicate 16 7 ++ [1, 2, 3, 0, 0, 0, 42] := by decide


/-- **signed_messages_of_two_request_kinds_overlap** (negative; an observation about the protocol, outside C06 and C16 as
stated): each signed layout is injective on its own, but the message spaces of different requests are not disjoint. The
21 bytes of `"get subscription info"` — what `get_subscription_info` signs — are also `Appointment::to_vec()` of the
appointment with locator `"get subscription"`, the one-byte blob `" "` and `to_self_delay = 0x696e666f`: a signature
captured from a read request is a valid `add_appointment` signature for that (useless, slot-consuming) appointment.
There is no domain separation between request kinds. -/
theorem signed_messages_of_two_request_kinds_overlap :
    let msg : List Nat := [103, 101, 116, 32, 115, 117, 98, 115, 99, 114, 105, 112, 116, 105, 111, 110, 32, 105, 110, 102, 111]
    ∃ loc blob tsd, loc.length = 16 ∧ tsd < 2 ^ 32 ∧ serialize [loc, blob, be32 tsd] = msg :=
  ⟨[103, 101, 116, 32, 115, 117, 98, 115, 99, 114, 105, 112, 116, 105, 111, 110], [32], 1768842863,
    by decide, by decide, by decide⟩

end Teos.C16
