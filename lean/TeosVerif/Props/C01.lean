/-
C01 — Every breach of an accepted appointment is answered with its penalty.

Stated on the per-appointment step of the two loops of `Watcher::handle_breaches` (`breachStep`)
and on `Responder::handle_breach`, for every state, appointment, dispute and node behaviour; the
loops visit every appointment row whose locator matches (`uuidsWithLoc`), which the lifting lemma
`every_matching_row_visited` states; the block-level and history-level statements at the end
(`every_breach_in_a_block_is_answered`, `breaches_answered_in_every_history`,
`only_breached_appointments_are_touched`) compose them over both loops. Agreement of the loops with
the real code is what the correspondence run checks (same histories, same databases, same RPC logs).
-/
import TeosVerif.Lemmas.Tower
import TeosVerif.Gen.Calls
import TeosVerif.Lemmas.TowerBreach
import TeosVerif.Lemmas.TowerInv
import TeosVerif.Lemmas.TowerJust

namespace Teos.C01
open Teos

/-- was the node consulted about / given transaction `p` in this log -/
def asked (log : List Rpc) (p : TxId) : Prop := Rpc.get p ∈ log ∨ Rpc.send p ∈ log

/-- **breach_answered**: handling a breach either finds the penalty in the 100-block index, or
finds it in the node's mempool, or submits it (`sendrawtransaction`, unless the very same
transaction was already submitted while handling this block) — before returning. -/
theorem breach_answered (s : Tower) (node : Node) (k : Uuid) (d p : TxId) (u : User)
    (hna : (handleBreach s node k d p u).1.aborted = none) (hs : s.aborted = none) :
    (s.mem.txIndex.get p).isSome ∨
    (Rpc.get p ∈ (handleBreach s node k d p u).2.2 ∧
      (carrierInMempool node p = true ∨ Rpc.send p ∈ (handleBreach s node k d p u).2.2 ∨
        (s.mem.receipts p).isSome)) := by
  unfold handleBreach at hna ⊢
  cases hi : s.mem.txIndex.get p with
  | some b => exact Or.inl rfl
  | none =>
    right
    simp only [hi] at hna ⊢
    by_cases hm : carrierInMempool node p = true
    · simp [hm]
    · simp only [hm, Bool.false_eq_true, ↓reduceIte]
      refine ⟨by simp, Or.inr ?_⟩
      unfold carrierSend
      cases hr : s.mem.receipts p with
      | some r => exact Or.inr rfl
      | none => left; simp

/-- **taken_implies_tracked**: if the node takes the penalty (confirmed within the index, in the
mempool, or accepted now) a tracker with exactly that dispute and penalty is recorded for the
appointment (which from then on reads as `dispute_responded`, see `responded_reads_back`). -/
theorem taken_implies_tracked (s : Tower) (node : Node) (k : Uuid) (d p : TxId) (u : User) (a : Appt)
    (hrow : s.db.appts k = some a) (hnt : s.db.trackers k = none)
    (hacc : (handleBreach s node k d p u).2.1.accepted = true) :
    (handleBreach s node k d p u).1.db.trackers k =
      some { dispute := d, penalty := p, status := (handleBreach s node k d p u).2.1, user := u } := by
  unfold handleBreach at hacc ⊢
  cases hi : s.mem.txIndex.get p with
  | some b =>
    simp only [hi] at hacc ⊢
    cases hh : s.mem.txIndex.getHeight b with
    | none => simp [hh, CStatus.accepted] at hacc
    | some h =>
      simp only [hh]
      simp [addTracker, Db.storeTracker, CStatus.accepted, hnt, hrow]
  | none =>
    simp only [hi] at hacc ⊢
    by_cases hm : carrierInMempool node p = true
    · simp only [hm, ↓reduceIte]
      simp [addTracker, Db.storeTracker, CStatus.accepted, hnt, hrow]
    · simp only [hm, Bool.false_eq_true, ↓reduceIte] at hacc ⊢
      simp only [hacc, ↓reduceIte]
      simp [addTracker, Db.storeTracker, hacc, hnt, hrow]

/-- **responded_reads_back**: an appointment with a tracker is reported as `dispute_responded`
with exactly the tracker's dispute and penalty. -/
theorem responded_reads_back (s : Tower) (signer : Option User) (loc : Loc) (u : User) (ui : UserInfo)
    (t : Tracker) (a : Appt) (ha : authCheck s signer = .ok (u, ui))
    (ht : s.db.trackers (loc, u) = some t) (hrow : s.db.appts (loc, u) = some a) :
    getAppointment s signer loc = .tracker t.dispute t.penalty := by
  unfold getAppointment; rw [ha]; simp [ht, hrow]

/-- **refused_or_undecryptable_is_dropped**: one iteration of the breach loop marks the
appointment for deletion exactly when the blob does not decrypt under the dispute id or the node
rejects the penalty; `-27 already in chain` is neither (the appointment stays, unresponded). -/
theorem invalid_iff (s : Tower) (node : Node) (d : TxId) (inv : List Uuid) (log : List Rpc) (k : Uuid)
    (a : Appt) (hrow : s.db.appts k = some a) :
    (breachStep node d (s, inv, log) k).2.1 =
      match a.blob.decrypt d with
      | none => inv ++ [k]
      | some p => if (handleBreach s node k d p a.user).2.1.isRejected then inv ++ [k] else inv := by
  unfold breachStep
  simp only [hrow]
  cases a.blob.decrypt d with
  | none => rfl
  | some p => simp only; split <;> rfl

/-- the invalid ones are then deleted, without refund, and only they: -/
theorem only_that_appointment_is_dropped (s : Tower) (node : Node) (k : Uuid) (d p : TxId) (u : User) :
    FrameK k s (handleBreach s node k d p u).1 ∧
    FrameK k s (deleteAppointments (handleBreach s node k d p u).1 [k] false) :=
  ⟨frame_handleBreach s node k d p u,
   (frame_handleBreach s node k d p u).trans (frame_deleteAppointments_single_norefund k _)⟩

/-- **every_matching_row_visited**: the rows the loop iterates over for a dispute `d` are exactly
the stored appointments whose locator is the locator of `d` (held users only: a purged user's
rows were removed by the gatekeeper, which runs first). -/
theorem every_matching_row_visited (s : Tower) (d : TxId) (k : Uuid) :
    k ∈ s.db.uuidsWithLoc (locOf d) ↔ (k ∈ s.db.apptKeys ∧ (s.db.appts k).isSome ∧ k.1 = locOf d) := by
  unfold Db.uuidsWithLoc Db.liveAppts
  simp only [List.mem_filter, decide_eq_true_eq]
  constructor
  · rintro ⟨⟨h1, h2⟩, h3⟩; exact ⟨h1, h2, h3⟩
  · rintro ⟨h1, h2, h3⟩; exact ⟨⟨h1, h2⟩, h3⟩

/-- **late_appointment_answered**: an accepted appointment whose dispute is in the locator cache
is decrypted and handed to the responder before the receipt is produced: the reply's RPC log is
that of `handle_breach`. -/
theorem late_appointment_answered (s : Tower) (node : Node) (k : Uuid) (a : Appt) (d p : TxId)
    (hdec : a.blob.decrypt d = some p) :
    (storeTriggeredAppointment s node k a d).2 =
      (handleBreach (storeAppointment s k a) node k d p a.user).2.2 := by
  unfold storeTriggeredAppointment
  simp only [hdec]
  split <;> rfl

/-- an undecryptable late appointment is not stored (the slot stays charged), nothing is asked of the
node, and the version it would have replaced, if any, is dropped with it -/
theorem late_undecryptable_not_stored (s : Tower) (node : Node) (k : Uuid) (a : Appt) (d : TxId)
    (hdec : a.blob.decrypt d = none) :
    (storeTriggeredAppointment s node k a d).2 = [] ∧
    (storeTriggeredAppointment s node k a d).1.db.appts k = none ∧
    (storeTriggeredAppointment s node k a d).1.mem = s.mem := by
  simp only [storeTriggeredAppointment, hdec, deleteAppointments, Bool.false_eq_true, ↓reduceIte, true_and]
  rw [Db.removeAppts_appts]
  simp

set_option maxRecDepth 20000 in
/-- non-vacuity: a stored appointment, its dispute mined, the node accepts the penalty -/
example :
    let cfg : Cfg := { slots := 3, duration := 10, grace := 3 }
    let node : Node := { send := fun _ => .ok, get := fun _ => .rpc (-5) }
    let s := (register cfg (boot Db.empty 100 []) 7).1
    let s1 := (addAppointment s node (some 7) 4 (.enc 64 80 300) 20 5).1
    let r := connectBlock cfg s1 node 200 101 [64]
    r.2 = [.get 80, .send 80] ∧ getAppointment r.1 (some 7) 4 = .tracker 64 80 := ⟨rfl, rfl⟩

/-! ### a whole block, a whole history -/

/-- **every_breach_in_a_block_is_answered**: when a block is connected, for EVERY appointment still held
once the gatekeeper has purged expired users (any number of them, any users, shared locators), whose
locator is the locator of a transaction of the block and whose blob decrypts under that transaction id,
the penalty has been dealt with before the watcher finishes the block: it is in the responder's
100-block index, or the node was asked about it and it is in the mempool, was submitted now, or had
been submitted since the previous block. No assumption on the node's answers or on aborts. -/
theorem every_breach_in_a_block_is_answered (cfg : Cfg) (s : Tower) (node : Node) (b height : Nat)
    (txs : List TxId) (d p : TxId) (k : Uuid) (a : Appt) (hdm : d ∈ txs)
    (hk : k ∈ (gkConnect cfg s height).db.apptKeys) (ha : (gkConnect cfg s height).db.appts k = some a)
    (hl : k.1 = locOf d) (hd : a.blob.decrypt d = some p) :
    Answered (gkConnect cfg s height) node (connectBlock cfg s node b height txs).2 p := by
  have h := watcherConnect_answers (gkConnect cfg s height) node b height txs d p k a hdm hk ha hl hd
  unfold connectBlock
  simp only
  exact h.mono (fun r hr => List.mem_append.2 (Or.inl hr))

/-- **breaches_answered_in_every_history**: the same in the state reached by ANY valid history from a
consistent database (there the key list is known to cover every row): every breach of a held
appointment in the next block is answered within that block. -/
theorem breaches_answered_in_every_history (cfg : Cfg) (db : Db) (height0 : Nat) (blocks : List (Nat × List TxId))
    (hdb : DbInv db) (hnd : (blocks.map (·.1)).Nodup) (hist : List (Node × Op))
    (hv : HistoryValid cfg (boot db height0 blocks) hist)
    (node : Node) (b height : Nat) (txs : List TxId) (d p : TxId) (k : Uuid) (a : Appt) (hdm : d ∈ txs) :
    let s := runHistory cfg (boot db height0 blocks) hist
    (gkConnect cfg s height).db.appts k = some a → k.1 = locOf d → a.blob.decrypt d = some p →
    Answered (gkConnect cfg s height) node (connectBlock cfg s node b height txs).2 p := by
  intro s ha hl hd
  have hinv := tinv_history cfg hist _ (tinv_boot db height0 blocks hdb hnd) hv
  have hgk := (tinv_gkConnect cfg s height hinv).1
  exact every_breach_in_a_block_is_answered cfg s node b height txs d p k a hdm
    (hgk.db.appt_keys k (by rw [ha]; rfl)) ha hl hd

/-- **only_breached_appointments_are_touched**: while handling a block the watcher leaves every
appointment and tracker whose locator is not the locator of a transaction of that block exactly as it
was ("only that appointment is dropped"), whatever the other appointments, the node or the blobs do. -/
theorem only_breached_appointments_are_touched (s : Tower) (node : Node) (b height : Nat) (txs : List TxId)
    (k' : Uuid) (hk' : ∀ d, d ∈ txs → k'.1 ≠ locOf d) :
    (watcherConnect s node b height txs).1.db.appts k' = s.db.appts k' ∧
    (watcherConnect s node b height txs).1.db.trackers k' = s.db.trackers k' :=
  watcherConnect_untouched s node b height txs k' hk'

/-- non-vacuity: two users with the same locator, a third with another; one block breaches both -/
example :
    let cfg : Cfg := { slots := 3, duration := 10, grace := 3 }
    let node : Node := { send := fun _ => .ok, get := fun _ => .rpc (-5) }
    let s0 := (register cfg (register cfg (boot Db.empty 100 []) 7).1 8).1
    let s1 := (addAppointment s0 node (some 7) 4 (.enc 64 80 300) 20 5).1
    let s2 := (addAppointment s1 node (some 8) 4 (.enc 64 81 300) 20 5).1
    let r := connectBlock cfg s2 node 200 101 [64]
    Rpc.send 80 ∈ r.2 ∧ Rpc.send 81 ∈ r.2 := by decide

/-- **breach_call_sites_are_the_modelled_ones** (tie to the source, regenerated on every run): the
responder is handed breaches only by `Watcher::handle_breaches` and `store_triggered_appointment`;
trackers are created only by `handle_breach` (through `add_tracker`, the only caller of the database's
`store_tracker`); the mempool is consulted only there. -/
theorem breach_call_sites_are_the_modelled_ones :
    Gen.Calls.handleBreach = [("watcher", "store_triggered_appointment", ""), ("watcher", "handle_breaches", "")] ∧
    Gen.Calls.addTracker = [("responder", "handle_breach", "")] ∧
    Gen.Calls.storeTracker = [("responder", "add_tracker", "")] ∧
    Gen.Calls.carrierInMempool = [("carrier", "in_mempool", ""), ("responder", "handle_breach", "")] ∧
    Gen.Calls.getRaw = [("carrier", "in_mempool", "")] := by
  decide


/-! ### every reachable state: what a tracker carries -/

/-- **every_tracker_carries_its_appointments_breach**: after ANY history (requests, blocks, reorgs, any node
behaviour, aborts included, no validity hypothesis) from an empty database, every tracker the tower holds is the
response to a breach of exactly the appointment stored under the same key: the appointment row is there, the
tracker's dispute is a transaction of a connected block carrying that appointment's locator, and the tracker's
penalty is exactly what the appointment's blob decrypts to under that dispute — "responded to with exactly that
data", for every reachable state. -/
theorem every_tracker_carries_its_appointments_breach (cfg : Cfg) (height : Nat) (blocks : List (Nat × List TxId))
    (hist : List (Node × Op)) (k : Uuid) (t : Tracker) :
    let start : Tower × Ghost := (boot Db.empty height blocks, { seen := blocks.flatMap (·.2), accepted := [], sent := [] })
    (runG cfg start hist).1.db.trackers k = some t →
    ∃ a, (runG cfg start hist).1.db.appts k = some a ∧ a.blob.decrypt t.dispute = some t.penalty ∧
      t.dispute ∈ (runG cfg start hist).2.seen ∧ locOf t.dispute = k.1 := by
  intro start h
  have hinv : GInv start := by
    refine ⟨just_boot _ _ _ _ (fun k t h => by cases h) ?_, ?_, fun tx h => by cases h⟩
    · intro b hb x hx
      exact List.mem_flatMap.2 ⟨b, hb, hx⟩
    · intro k b h
      obtain ⟨a, ha, _⟩ := h
      cases ha
  exact (ginv_runG cfg hist start hinv).just.trk k t h

/-- …and every entry of the locator cache is a transaction of a connected block, filed under its own locator -/
theorem cache_holds_only_connected_transactions (cfg : Cfg) (height : Nat) (blocks : List (Nat × List TxId))
    (hist : List (Node × Op)) (l : Loc) (d : TxId) :
    let start : Tower × Ghost := (boot Db.empty height blocks, { seen := blocks.flatMap (·.2), accepted := [], sent := [] })
    (runG cfg start hist).1.mem.cache.index l = some d →
    d ∈ (runG cfg start hist).2.seen ∧ locOf d = l := by
  intro start h
  have hinv : GInv start := by
    refine ⟨just_boot _ _ _ _ (fun k t h => by cases h) ?_, ?_, fun tx h => by cases h⟩
    · intro b hb x hx
      exact List.mem_flatMap.2 ⟨b, hb, hx⟩
    · intro k b h
      obtain ⟨a, ha, _⟩ := h
      cases ha
  exact (ginv_runG cfg hist start hinv).just.cache l d h

/-- **boot_lookups_cover_the_most_recent_blocks**: whatever the database, height and block list
(oldest first), the model's start-up builds the watcher's look-up from the six most recent blocks
and the responder's from all of them. -/
theorem boot_lookups_cover_the_most_recent_blocks (db : Db) (h : Nat) (blocks : List (Nat × List TxId)) :
    (boot db h blocks).mem.cache =
      TxIndex.new ((blocks.drop (blocks.length - 6)).map fun b => (b.1, b.2.map fun t => (locOf t, t))) h ∧
    (boot db h blocks).mem.txIndex =
      TxIndex.new (blocks.map fun b => (b.1, b.2.map fun t => (t, b.1))) h :=
  ⟨rfl, rfl⟩

end Teos.C01
