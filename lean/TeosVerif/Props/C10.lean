/-
C10 — Concurrent requests and block events behave as if executed one at a time.

What the locks make atomic (hook H5 traces, `Model/LockTraces.lean`): `add_appointment` holds the
locator-cache lock from its tracker check to its insertion (section A); `Watcher::filtered_block_connected`
holds it from the cache update to the end of the breach handling (section B). A and B exclude each
other, so every interleaving runs them in one of two orders. The theorems below are the two halves
of "never silently left unwatched" (A before B: B finds the stored row; B before A: A finds the
dispute in the cache), "charged once" (the second of two identical submissions is charged nothing)
and "no record without its owner" (the foreign keys). Which sections really are atomic on the real
code, and that every schedule of two or three operations ends in a state some sequential order
gives, is searched by the schedule exploration under the deterministic scheduler (not a proof).
End to end, for every state of the tower invariant: `accepted_then_block_finds_it` /
`accepted_then_block_answers_it` (A then the whole of B: the penalty is dealt with by that block's
handler) and `block_then_late_add_is_triggered` / `block_then_late_add_answers_it` (the whole of B then A: the
triggered path, and the penalty dealt with within the submission's own RPCs).
PARTIAL: the model is at critical-section granularity; tokio scheduling, the relaxed atomics of the
height counters (start_block / in-mempool-since stamps may mix two heights) are outside it.
-/
import TeosVerif.Lemmas.Tower
import TeosVerif.Lemmas.TowerInv
import TeosVerif.Lemmas.TowerJust
import TeosVerif.Lemmas.TowerBreach
import TeosVerif.Props.C08

namespace Teos.C10
open Teos TxIndex

/-- **late_add_sees_block** (B before A): once the cache has been updated with a block, it answers
for every locator of that block (unless the very same locator is being evicted with the oldest
block, excluded by locator uniqueness, C19) — so the submission takes the "already triggered" path. -/
theorem late_add_sees_block (c : TxIndex Loc TxId) (b : Nat) (txs : List TxId) (d : TxId) (hd : d ∈ txs)
    (hkeep : ∀ h rest, (c.blocks ++ [b]) = h :: rest →
        Gen.txIndexIsFull (c.blocks ++ [b]).length c.size = true →
        locOf d ∉ ((if h = b then some (txs.map locOf) else c.txIn h).getD [])) :
    ∃ d', (c.update b (txs.map fun t => (locOf t, t))).get (locOf d) = some d' ∧ locOf d' = locOf d := by
  -- the block's own data binds the locator
  have hl : ∀ (l : List TxId), d ∈ l → ∃ d', TxIndex.lookup (locOf d) (l.map fun t => (locOf t, t)) = some d' ∧ locOf d' = locOf d := by
    intro l
    induction l with
    | nil => intro h; cases h
    | cons x r ih =>
      intro h
      simp only [List.map_cons, TxIndex.lookup]
      by_cases e : locOf x = locOf d
      · exact ⟨x, by simp [e], e⟩
      · rw [if_neg e]
        rcases List.mem_cons.1 h with h | h
        · exact absurd (by rw [h]) e
        · exact ih h
  obtain ⟨d', hlook, hloc⟩ := hl txs hd
  refine ⟨d', ?_, hloc⟩
  unfold TxIndex.update TxIndex.get
  simp only [TxIndex.isFull]
  by_cases hf : Gen.txIndexIsFull (c.blocks ++ [b]).length c.size = true
  · simp only [hf, ↓reduceIte]
    unfold TxIndex.removeOldest
    simp only
    cases hb : c.blocks ++ [b] with
    | nil => simp at hb
    | cons h rest =>
      simp only
      have := hkeep h rest hb hf
      have e : (List.map (fun x => x.1) (List.map (fun t => (locOf t, t)) txs)) = txs.map locOf := by
        simp [List.map_map, Function.comp_def]
      rw [e]
      rw [if_neg this, hlook]
  · simp only [hf, Bool.false_eq_true, ↓reduceIte, hlook]

/-- the submission then decrypts and hands the penalty to the responder before answering (C01
`late_appointment_answered`), or drops an undecryptable blob -/
theorem late_add_takes_triggered_path (s : Tower) (node : Node) (signer : Option User) (loc : Loc)
    (blob : Blob) (tsd usig : Nat) (u : User) (ui : UserInfo) (d : TxId)
    (ha : authCheck s signer = .ok (u, ui)) (hnt : s.db.trackers (loc, u) = none)
    (s1 : Tower) (avail : Nat) (hch : addUpdateAppointment s u (loc, u) blob.len = (s1, some avail))
    (hc : s1.mem.cache.get loc = some d) :
    (addAppointment s node signer loc blob tsd usig).1 =
      (storeTriggeredAppointment s1 node (loc, u)
        { loc := loc, user := u, blob := blob, tsd := tsd, usig := usig, start := s.mem.wHeight } d).1 := by
  unfold addAppointment
  simp [ha, hnt, hch, hc]

theorem addTracker_cache (s : Tower) (k : Uuid) (t : Tracker) : (addTracker s k t).mem.cache = s.mem.cache := by
  unfold addTracker; split <;> rfl

theorem handleBreach_cache (s : Tower) (node : Node) (k : Uuid) (d p : TxId) (u : User) :
    (handleBreach s node k d p u).1.mem.cache = s.mem.cache := by
  unfold handleBreach
  split
  · split
    · exact (shrink_abort s _).cache
    · exact addTracker_cache _ _ _
  · split
    · exact addTracker_cache _ _ _
    · simp only
      split
      · rw [addTracker_cache]; exact carrierSend_cache _ _ _
      · exact carrierSend_cache _ _ _

theorem breachStep_cache (node : Node) (d : TxId) (acc : Tower × List Uuid × List Rpc) (k : Uuid) :
    (breachStep node d acc k).1.mem.cache = acc.1.mem.cache := by
  obtain ⟨s, inv, log⟩ := acc
  unfold breachStep
  simp only
  split
  · exact (shrink_abort s _).cache
  · split
    · have := handleBreach_cache s node k d ‹_› ‹Appt›.user
      split <;> exact this
    · rfl

theorem foldl_cache {α : Type} (f : Tower × List Uuid × List Rpc → α → Tower × List Uuid × List Rpc)
    (hf : ∀ acc a, (f acc a).1.mem.cache = acc.1.mem.cache) (l : List α) (acc : Tower × List Uuid × List Rpc) :
    (l.foldl f acc).1.mem.cache = acc.1.mem.cache := by
  induction l generalizing acc with
  | nil => rfl
  | cons x r ih => simp only [List.foldl_cons]; rw [ih, hf]

theorem handleBreaches_cache (s : Tower) (node : Node) (ds : List TxId) :
    (handleBreaches s node ds).1.mem.cache = s.mem.cache := by
  unfold handleBreaches
  exact foldl_cache _ (fun acc d => by unfold disputeStep; exact foldl_cache _ (breachStep_cache node d) _ acc) ds _

/-- the cache after `Watcher::filtered_block_connected` is the old cache updated with the block:
the breach handling and the deletions that follow do not touch it -/
theorem watcherConnect_cache (s : Tower) (node : Node) (b height : Nat) (txs : List TxId) :
    (watcherConnect s node b height txs).1.mem.cache = s.mem.cache.update b (txs.map fun t => (locOf t, t)) := by
  unfold watcherConnect
  simp only
  split
  · rw [handleBreaches_cache]
  · rw [(shrink_deleteAppointments _ _ false).cache, handleBreaches_cache]

/-- **block_then_late_add_is_triggered** (B before A, end to end): once `filtered_block_connected`
has run for a block containing the dispute `d` — breach handling and deletions included — a
submission for `d`'s locator that gets through authentication and the charge takes the
"already triggered" path with a transaction of that very locator (locators being unique, C19:
with `d` itself): it is decrypted and handed to the responder before the reply, never stored
unwatched. `hkeep` as in `late_add_sees_block` (the locator is not being evicted with the oldest block). -/
theorem block_then_late_add_is_triggered (s : Tower) (node : Node) (b height : Nat) (txs : List TxId) (d : TxId)
    (hd : d ∈ txs)
    (hkeep : ∀ h rest, (s.mem.cache.blocks ++ [b]) = h :: rest →
        Gen.txIndexIsFull (s.mem.cache.blocks ++ [b]).length s.mem.cache.size = true →
        locOf d ∉ ((if h = b then some (txs.map locOf) else s.mem.cache.txIn h).getD []))
    (signer : Option User) (blob : Blob) (tsd usig : Nat) (u : User) (ui : UserInfo)
    (ha : authCheck (watcherConnect s node b height txs).1 signer = .ok (u, ui))
    (hnt : (watcherConnect s node b height txs).1.db.trackers (locOf d, u) = none)
    (s1 : Tower) (avail : Nat)
    (hch : addUpdateAppointment (watcherConnect s node b height txs).1 u (locOf d, u) blob.len = (s1, some avail)) :
    ∃ d', locOf d' = locOf d ∧
      (addAppointment (watcherConnect s node b height txs).1 node signer (locOf d) blob tsd usig).1 =
        (storeTriggeredAppointment s1 node (locOf d, u)
          { loc := locOf d, user := u, blob := blob, tsd := tsd, usig := usig,
            start := (watcherConnect s node b height txs).1.mem.wHeight } d').1 := by
  obtain ⟨d', hget, hloc⟩ := late_add_sees_block s.mem.cache b txs d hd hkeep
  have hc1 : s1.mem.cache = (watcherConnect s node b height txs).1.mem.cache := by
    have := (shrink_addUpdateAppointment (watcherConnect s node b height txs).1 u (locOf d, u) blob.len).cache
    rw [hch] at this; exact this
  refine ⟨d', hloc, ?_⟩
  exact late_add_takes_triggered_path _ node signer (locOf d) blob tsd usig u ui d' ha hnt s1 avail hch
    (by rw [hc1, watcherConnect_cache]; exact hget)

/-- one iteration of the breach loop on `k` leaves `k` either with a tracker, or marked invalid
(to be deleted), or the run aborted -/
def Handled (k : Uuid) (acc : Tower × List Uuid × List Rpc) : Prop :=
  (acc.1.db.trackers k).isSome ∨ k ∈ acc.2.1 ∨ acc.1.aborted.isSome

theorem breachStep_handles (node : Node) (d : TxId) (s : Tower) (inv : List Uuid) (log : List Rpc)
    (k : Uuid) (a : Appt) (hrow : s.db.appts k = some a) (hnt : s.db.trackers k = none) :
    Handled k (breachStep node d (s, inv, log) k) ∨
    (∃ p, a.blob.decrypt d = some p ∧ (handleBreach s node k d p a.user).2.1 = .irrevocablyResolved) := by
  unfold breachStep Handled
  simp only [hrow]
  cases hdec : a.blob.decrypt d with
  | none => left; simp
  | some p =>
    simp only
    by_cases hr : (handleBreach s node k d p a.user).2.1.isRejected = true
    · left; simp [hr]
    · simp only [hr, Bool.false_eq_true, ↓reduceIte]
      by_cases hacc : (handleBreach s node k d p a.user).2.1.accepted = true
      · left; left
        rw [C01_taken s node k d p a.user a hrow hnt hacc]; rfl
      · right
        refine ⟨p, rfl, ?_⟩
        cases hst : (handleBreach s node k d p a.user).2.1 with
        | confirmedIn h => simp [hst, CStatus.accepted] at hacc
        | inMempoolSince h => simp [hst, CStatus.accepted] at hacc
        | irrevocablyResolved => rfl
        | rejected c => simp [hst, CStatus.isRejected] at hr
where
  C01_taken (s : Tower) (node : Node) (k : Uuid) (d p : TxId) (u : User) (a : Appt)
      (hrow : s.db.appts k = some a) (hnt : s.db.trackers k = none)
      (hacc : (handleBreach s node k d p u).2.1.accepted = true) :
      (handleBreach s node k d p u).1.db.trackers k =
        some { dispute := d, penalty := p, status := (handleBreach s node k d p u).2.1, user := u } := by
    unfold handleBreach at hacc ⊢
    cases hi : s.mem.txIndex.get p with
    | some b =>
      simp only [hi] at hacc ⊢
      cases hh : s.mem.txIndex.getHeight b with
      | none => simp [hh, CStatus.accepted] at hacc
      | some h =>
        simp only [hh]
        simp [addTracker, Db.storeTracker, CStatus.accepted, hnt, hrow]
    | none =>
      simp only [hi] at hacc ⊢
      by_cases hm : carrierInMempool node p = true
      · simp only [hm, ↓reduceIte]
        simp [addTracker, Db.storeTracker, CStatus.accepted, hnt, hrow]
      · simp only [hm, Bool.false_eq_true, ↓reduceIte] at hacc ⊢
        simp only [hacc, ↓reduceIte]
        simp [addTracker, Db.storeTracker, hacc, hnt, hrow]

/-- **early_add_found_by_block** (A before B): a stored appointment whose locator is the locator of
a transaction of the block is among the rows the loop visits -/
theorem early_add_found_by_block (s : Tower) (txs : List TxId) (d : TxId) (k : Uuid) (a : Appt)
    (hd : d ∈ txs) (hrow : s.db.appts k = some a) (hk : k ∈ s.db.apptKeys) (hloc : k.1 = locOf d) :
    d ∈ (txs.filter fun t => !(s.db.uuidsWithLoc (locOf t)).isEmpty) ∧ k ∈ s.db.uuidsWithLoc (locOf d) := by
  have hin : k ∈ s.db.uuidsWithLoc (locOf d) := by
    unfold Db.uuidsWithLoc Db.liveAppts
    simp [List.mem_filter, hk, hrow, hloc]
  refine ⟨?_, hin⟩
  simp only [List.mem_filter, hd, true_and]
  cases h : s.db.uuidsWithLoc (locOf d) with
  | nil => rw [h] at hin; cases hin
  | cons _ _ => rfl

/-- **accepted_then_block_finds_it** (A before B, end to end, from any state of the tower invariant):
a submission accepted while its locator is not in the cache has left a row that the block handler
— run on the state the submission produced, in whatever block the dispute arrives — visits:
the dispute survives the locator filter and the appointment's key is among those loaded for it. -/
theorem accepted_then_block_finds_it (s : Tower) (node : Node) (signer : Option User) (loc : Loc)
    (blob : Blob) (tsd usig : Nat) (st sg av e : Nat) (hinv : TInv s)
    (h : (addAppointment s node signer loc blob tsd usig).2.1 = .accepted st sg av e)
    (hc : s.mem.cache.get loc = none) (txs : List TxId) (d : TxId) (hd : d ∈ txs) (hloc : loc = locOf d) :
    ∃ u, signer = some u ∧
      d ∈ (txs.filter fun t => !((addAppointment s node signer loc blob tsd usig).1.db.uuidsWithLoc (locOf t)).isEmpty) ∧
      (loc, u) ∈ (addAppointment s node signer loc blob tsd usig).1.db.uuidsWithLoc (locOf d) := by
  have hinv' := tinv_addAppointment s node signer loc blob tsd usig hinv
  obtain ⟨u, a, hsg, hrow, -⟩ := C08.receipt_only_if_taken_stored s node signer loc blob tsd usig st sg av e h hc
    hinv'.alive hinv.alive
  have hk := hinv'.db.appt_keys (loc, u) (by rw [hrow]; rfl)
  exact ⟨u, hsg, early_add_found_by_block _ txs d (loc, u) a hd hrow hk hloc⟩

/-- **accepted_then_block_answers_it** (A before B, to the end): a submission accepted while its
locator is not in the cache, followed — immediately or in whatever block — by the watcher's handler
for a block containing a transaction `d` with that locator under which the blob decrypts to `p`:
the penalty `p` is dealt with by that handler (`Answered`: already known to the responder's index
or memo, found in the node's mempool, or sent to the node), for every state of the tower invariant,
every node and every block. -/
theorem accepted_then_block_answers_it (s : Tower) (node : Node) (signer : Option User) (loc : Loc)
    (blob : Blob) (tsd usig : Nat) (st sg av e : Nat) (hinv : TInv s)
    (h : (addAppointment s node signer loc blob tsd usig).2.1 = .accepted st sg av e)
    (hc : s.mem.cache.get loc = none) (node' : Node) (b height : Nat) (txs : List TxId) (d p : TxId)
    (hd : d ∈ txs) (hloc : loc = locOf d) (hdec : blob.decrypt d = some p) :
    Answered (addAppointment s node signer loc blob tsd usig).1 node'
      (watcherConnect (addAppointment s node signer loc blob tsd usig).1 node' b height txs).2 p := by
  have hinv' := tinv_addAppointment s node signer loc blob tsd usig hinv
  obtain ⟨u, a, -, hrow, hblob, -⟩ := C08.receipt_only_if_taken_stored s node signer loc blob tsd usig st sg av e h hc
    hinv'.alive hinv.alive
  have hk := hinv'.db.appt_keys (loc, u) (by rw [hrow]; rfl)
  exact watcherConnect_answers _ node' b height txs d p (loc, u) a hd hk hrow hloc (by rw [hblob]; exact hdec)

/-- **double_submit_charged_once**: the second of two identical submissions (same key, same blob
length — in particular the very same appointment) is charged nothing -/
theorem second_identical_add_charges_nothing (s : Tower) (u : User) (k : Uuid) (a : Appt) (ui : UserInfo)
    (hrow : s.db.appts k = some a) (hu : s.mem.users u = some ui) :
    (addUpdateAppointment s u k a.blob.len).2 = some ui.slots ∧
    (addUpdateAppointment s u k a.blob.len).1.mem.users u = some ui := by
  unfold addUpdateAppointment
  simp only [hu, hrow, Option.map_some, Option.getD_some, Gen.slotsFit]
  have hd : decide (((slotsOf a.blob.len : Nat) : Int) - ((slotsOf a.blob.len : Nat) : Int) ≤ (ui.slots : Int)) = true := by
    apply decide_eq_true; omega
  have e : ((ui.slots : Int) - (((slotsOf a.blob.len : Nat) : Int) - ((slotsOf a.blob.len : Nat) : Int))).toNat = ui.slots := by omega
  simp [hd, e]

/-- **no_lost_slot_update**: balances are changed by read-modify-write steps done under the users
lock; a top-up and a charge (that both succeed) give the same balance in either order -/
theorem slot_updates_commute (s a d r : Nat) (hd : d ≤ s) :
    (s + a) - d = (s - d) + a ∧ (s + r) - d = (s - d) + r ∧ (s + a) + r = (s + r) + a := by omega

/-- **resubmission_charged_once** (whole operation): `add_appointment` of an appointment whose row
is already stored with the same blob length (the second of two identical submissions, whichever
thread it runs on, once the first has left section A) is accepted, reports the balance unchanged,
and leaves every user's in-memory record as it was — on both paths (untriggered / dispute in cache). -/
theorem resubmission_charged_once (s : Tower) (node : Node) (signer : Option User) (loc : Loc)
    (blob : Blob) (tsd usig : Nat) (u : User) (ui : UserInfo) (a : Appt)
    (ha : authCheck s signer = .ok (u, ui)) (hnt : s.db.trackers (loc, u) = none)
    (hrow : s.db.appts (loc, u) = some a) (hlen : a.blob.len = blob.len) :
    (addAppointment s node signer loc blob tsd usig).2.1 = .accepted s.mem.wHeight usig ui.slots ui.expiry := by
  have hu := authCheck_ok_mem s signer u ui ha
  have h2 := second_identical_add_charges_nothing s u (loc, u) a ui hrow hu
  rw [hlen] at h2
  unfold addAppointment
  simp only [ha, hnt, Option.isSome_none, Bool.false_eq_true, ↓reduceIte]
  generalize hr : addUpdateAppointment s u (loc, u) blob.len = r at h2
  obtain ⟨s1, o⟩ := r
  simp only at h2
  rw [h2.1]

theorem abort_mem (s : Tower) (site : String) : (s.abort site).mem = s.mem := by
  unfold Tower.abort; split <;> rfl

theorem abort_db (s : Tower) (site : String) : (s.abort site).db = s.db := by
  unfold Tower.abort; split <;> rfl

theorem storeAppointment_mem (s : Tower) (k : Uuid) (a : Appt) : (storeAppointment s k a).mem = s.mem := by
  unfold storeAppointment
  split
  · split
    · rfl
    · exact abort_mem _ _
  · split
    · rfl
    · exact abort_mem _ _

/-- **double_submit_charged_once** (two whole operations in sequence, from any state of the tower
invariant): when a submission is accepted (its locator not in the cache) and the very same
submission is served again right after it — the order the cache lock forces on two concurrent
identical submissions — the second is accepted too and reports the balance the first one left:
the pair is charged once. -/
theorem double_submit_charged_once (s : Tower) (node : Node) (signer : Option User) (loc : Loc)
    (blob : Blob) (tsd usig : Nat) (st sg av e : Nat) (hinv : TInv s)
    (h : (addAppointment s node signer loc blob tsd usig).2.1 = .accepted st sg av e)
    (hc : s.mem.cache.get loc = none) :
    (addAppointment (addAppointment s node signer loc blob tsd usig).1 node signer loc blob tsd usig).2.1 =
      .accepted st usig av e := by
  have hinv' := tinv_addAppointment s node signer loc blob tsd usig hinv
  obtain ⟨u, a, hsg, hrow, hblob, -⟩ := C08.receipt_only_if_taken_stored s node signer loc blob tsd usig st sg av e h hc
    hinv'.alive hinv.alive
  subst hsg
  -- take the first operation apart
  generalize hs' : (addAppointment s node (some u) loc blob tsd usig).1 = s' at hrow hinv' ⊢
  unfold addAppointment at h hs'
  cases ha : authCheck s (some u) with
  | error r =>
    exfalso
    simp only [ha] at h
    unfold authCheck at ha
    cases hu : s.mem.users u with
    | none => simp [hu] at ha; subst ha; simp at h
    | some vi =>
      simp only [hu] at ha
      by_cases he : Gen.subscriptionExpired s.mem.gkHeight vi.expiry = true
      · simp [he] at ha; subst ha; simp at h
      · simp [he] at ha
  | ok p =>
    obtain ⟨u', ui⟩ := p
    have hu := authCheck_ok_mem s (some u) u' ui ha
    have huu : u' = u := by
      unfold authCheck at ha
      simp only at ha
      split at ha
      · cases ha
      · split at ha
        · cases ha
        · simp only [Except.ok.injEq, Prod.mk.injEq] at ha; exact ha.1.symm
    subst huu
    have hnexp : Gen.subscriptionExpired s.mem.gkHeight ui.expiry = false := by
      unfold authCheck at ha
      simp only [hu] at ha
      by_cases he : Gen.subscriptionExpired s.mem.gkHeight ui.expiry = true
      · simp [he] at ha
      · simpa using he
    simp only [ha] at h hs'
    by_cases htr : (s.db.trackers (loc, u')).isSome = true
    · simp [htr] at h
    · simp only [htr, Bool.false_eq_true, ↓reduceIte] at h hs'
      cases hch : addUpdateAppointment s u' (loc, u') blob.len with
      | mk s1 o =>
        have hsh := shrink_addUpdateAppointment s u' (loc, u') blob.len
        rw [hch] at hsh
        cases o with
        | none => simp [hch] at h
        | some avail =>
          have hc1 : s1.mem.cache.get loc = none := by
            have := hsh.cache
            simp only at this
            rw [this]; exact hc
          simp only [hch, hc1] at h hs'
          simp only [Reply.accepted.injEq] at h
          obtain ⟨h1, h2, h3, h4⟩ := h
          -- what the charge did
          have hch' := hch
          unfold addUpdateAppointment at hch'
          simp only [hu] at hch'
          split at hch'
          · simp only [Prod.mk.injEq, Option.some.injEq] at hch'
            obtain ⟨hs1, hav⟩ := hch'
            have hmem : s'.mem = s1.mem := by rw [← hs']; exact storeAppointment_mem _ _ _
            have hu1 : s'.mem.users u' = some { ui with slots := avail } := by
              rw [hmem, ← hs1, ← hav]; simp
            have hgk : s'.mem.gkHeight = s.mem.gkHeight := by rw [hmem, ← hs1]
            have hw : s'.mem.wHeight = s.mem.wHeight := by rw [hmem, ← hs1]
            have ha' : authCheck s' (some u') = .ok (u', { ui with slots := avail }) := by
              unfold authCheck; simp only [hu1, hgk, hnexp]; rfl
            have hnt' : s'.db.trackers (loc, u') = none := by
              rw [← hs', (storeAppointment_spec _ _ _).1]
              have : s1.db.trackers = s.db.trackers := by
                rw [← hs1]; simp only; unfold Db.updateUser; split <;> rfl
              rw [this]
              cases hx : s.db.trackers (loc, u') with
              | none => rfl
              | some _ => simp [hx] at htr
            have := resubmission_charged_once s' node (some u') loc blob tsd usig u' _ a ha' hnt' hrow (by rw [hblob])
            rw [this, hw, h1, h3, h4]
          · cases hch'

/-- `update_user` touches only the `users` table -/
theorem updateUser_appts (d : Db) (u : User) (i : UserInfo) : (d.updateUser u i).appts = d.appts := by
  unfold Db.updateUser; cases d.users u <;> rfl

/-- **topup_and_charge_commute** (no lost slot update, on the modelled read-modify-write steps
themselves rather than on bare arithmetic): a renewal of `u` (`Gatekeeper::add_update_user`,
existing user) and a charge or refund of `u` (`Gatekeeper::add_update_appointment`) that both
succeed leave `u` with the same record in memory whichever of them takes the users lock first —
and it is the record with both updates applied. (`hcap` keeps the top-up under the u32 cap in
both orders: after a refund-first the renewal could otherwise answer MaxSlotsReached.) -/
theorem topup_and_charge_commute (cfg : Cfg) (s : Tower) (u : User) (ui : UserInfo) (k : Uuid) (len : Nat)
    (hu : s.mem.users u = some ui)
    (hcap : ui.slots + cfg.slots + slotsOf (((s.db.appts k).map fun a => a.blob.len).getD 0) ≤ u32Max)
    (hfit : slotsOf len ≤ ui.slots + slotsOf (((s.db.appts k).map fun a => a.blob.len).getD 0)) :
    (addUpdateAppointment (addUpdateUser cfg s u).1 u k len).1.mem.users u =
      (addUpdateUser cfg (addUpdateAppointment s u k len).1 u).1.mem.users u ∧
    ((addUpdateAppointment (addUpdateUser cfg s u).1 u k len).1.mem.users u).map (·.slots) =
      some (ui.slots + cfg.slots + slotsOf (((s.db.appts k).map fun a => a.blob.len).getD 0) - slotsOf len) := by
  have h1 : ¬ (ui.slots + cfg.slots > u32Max) := by omega
  generalize hused : slotsOf (((s.db.appts k).map fun a => a.blob.len).getD 0) = used at *
  have hfit1 : Gen.slotsFit ((slotsOf len : Int) - (used : Int)) ((ui.slots + cfg.slots : Nat) : Int) = true := by
    unfold Gen.slotsFit; apply decide_eq_true; omega
  have hfit2 : Gen.slotsFit ((slotsOf len : Int) - (used : Int)) (ui.slots : Int) = true := by
    unfold Gen.slotsFit; apply decide_eq_true; omega
  have h2 : ¬ (((ui.slots : Int) - ((slotsOf len : Int) - (used : Int))).toNat + cfg.slots > u32Max) := by omega
  unfold addUpdateAppointment addUpdateUser
  simp only [hu, h1, ↓reduceIte, updateUser_appts, hused, hfit1, hfit2, h2]
  constructor
  · simp; omega
  · simp; omega

/-- **two_renewals_both_count** (no lost slot update between registrations): two renewals of one
user served one after the other — the only way the users lock lets two concurrent ones run — add
the configured slots twice and the duration twice (capped), provided the cap on slots is not hit. -/
theorem two_renewals_both_count (cfg : Cfg) (s : Tower) (u : User) (ui : UserInfo)
    (hu : s.mem.users u = some ui) (hcap : ui.slots + cfg.slots + cfg.slots ≤ u32Max) :
    (addUpdateUser cfg (addUpdateUser cfg s u).1 u).1.mem.users u =
      some { slots := ui.slots + cfg.slots + cfg.slots, start := ui.start,
             expiry := min (min (ui.expiry + cfg.duration) u32Max + cfg.duration) u32Max } := by
  have h1 : ¬ (ui.slots + cfg.slots > u32Max) := by omega
  have h2 : ¬ (ui.slots + cfg.slots + cfg.slots > u32Max) := by omega
  unfold addUpdateUser
  simp [hu, h1, h2]

/-- renewals of two different users commute on the in-memory table -/
theorem renewals_of_two_users_commute (cfg : Cfg) (s : Tower) (u v : User) (ui vi : UserInfo) (hne : u ≠ v)
    (hu : s.mem.users u = some ui) (hv : s.mem.users v = some vi) :
    (addUpdateUser cfg (addUpdateUser cfg s u).1 v).1.mem.users =
      (addUpdateUser cfg (addUpdateUser cfg s v).1 u).1.mem.users := by
  have hne' : v ≠ u := fun h => hne h.symm
  funext x
  unfold addUpdateUser
  simp only [hu, hv]
  by_cases cu : ui.slots + cfg.slots > u32Max <;> by_cases cv : vi.slots + cfg.slots > u32Max <;>
    simp [cu, cv, hu, hv, hne, hne'] <;> (by_cases hx : x = u <;> by_cases hy : x = v <;> simp_all)

/-- **block_then_late_add_answers_it** (B before A, to the end): under the hypotheses of
`block_then_late_add_is_triggered`, if the blob decrypts under the transaction found for the locator,
the penalty is dealt with (`Answered`) within the RPCs of the submission itself, i.e. before its reply. -/
theorem block_then_late_add_answers_it (s : Tower) (node : Node) (b height : Nat) (txs : List TxId) (d : TxId)
    (hd : d ∈ txs)
    (hkeep : ∀ h rest, (s.mem.cache.blocks ++ [b]) = h :: rest →
        Gen.txIndexIsFull (s.mem.cache.blocks ++ [b]).length s.mem.cache.size = true →
        locOf d ∉ ((if h = b then some (txs.map locOf) else s.mem.cache.txIn h).getD []))
    (signer : Option User) (blob : Blob) (tsd usig : Nat) (u : User) (ui : UserInfo)
    (ha : authCheck (watcherConnect s node b height txs).1 signer = .ok (u, ui))
    (hnt : (watcherConnect s node b height txs).1.db.trackers (locOf d, u) = none)
    (s1 : Tower) (avail : Nat)
    (hch : addUpdateAppointment (watcherConnect s node b height txs).1 u (locOf d, u) blob.len = (s1, some avail)) :
    ∃ d', locOf d' = locOf d ∧ ∀ p, blob.decrypt d' = some p →
      Answered s1 node (addAppointment (watcherConnect s node b height txs).1 node signer (locOf d) blob tsd usig).2.2 p := by
  obtain ⟨d', hget, hloc⟩ := late_add_sees_block s.mem.cache b txs d hd hkeep
  have hc1 : s1.mem.cache = (watcherConnect s node b height txs).1.mem.cache := by
    have := (shrink_addUpdateAppointment (watcherConnect s node b height txs).1 u (locOf d, u) blob.len).cache
    rw [hch] at this; exact this
  have hc : s1.mem.cache.get (locOf d) = some d' := by rw [hc1, watcherConnect_cache]; exact hget
  refine ⟨d', hloc, fun p hp => ?_⟩
  have hlog : (addAppointment (watcherConnect s node b height txs).1 node signer (locOf d) blob tsd usig).2.2 =
      (storeTriggeredAppointment s1 node (locOf d, u)
        { loc := locOf d, user := u, blob := blob, tsd := tsd, usig := usig,
          start := (watcherConnect s node b height txs).1.mem.wHeight } d').2 := by
    unfold addAppointment
    simp [ha, hnt, hch, hc]
  have hlate : ∀ (t : Tower) (k : Uuid) (a : Appt), a.blob.decrypt d' = some p →
      (storeTriggeredAppointment t node k a d').2 = (handleBreach (storeAppointment t k a) node k d' p a.user).2.2 := by
    intro t k a hdec
    unfold storeTriggeredAppointment
    simp only [hdec]
    split <;> rfl
  rw [hlog, hlate _ _ _ hp]
  have := (handleBreach_answers (storeAppointment s1 (locOf d, u)
        { loc := locOf d, user := u, blob := blob, tsd := tsd, usig := usig,
          start := (watcherConnect s node b height txs).1.mem.wHeight }) node (locOf d, u) d' p u).2.2.2.2
  unfold Answered at this ⊢
  rw [storeAppointment_mem] at this
  exact this

/-- non-vacuity of `double_submit_charged_once` / `topup_and_charge_commute`: a registered user with 3
slots submits a 2049-byte blob twice (locator not in the cache): accepted both times, 1 slot left
both times; a renewal before or after the charge gives 4 -/
example :
    let cfg : Cfg := { slots := 3, duration := 10, grace := 3 }
    let node : Node := { send := fun _ => .ok, get := fun _ => .rpc (-5) }
    let s := (register cfg (boot Db.empty 100 []) 7).1
    let r1 := addAppointment s node (some 7) 4 (.junk 1 2049) 0 0
    let r2 := addAppointment r1.1 node (some 7) 4 (.junk 1 2049) 0 0
    s.mem.cache.get 4 = none ∧ r1.2.1 = .accepted 100 0 1 110 ∧ r2.2.1 = .accepted 100 0 1 110 ∧
    ((addUpdateAppointment (addUpdateUser cfg s 7).1 7 (4, 7) 2049).1.mem.users 7).map (·.slots) = some 4 ∧
    ((addUpdateUser cfg (addUpdateAppointment s 7 (4, 7) 2049).1 7).1.mem.users 7).map (·.slots) = some 4 := by decide +kernel

/-- **no_orphan_record**: an appointment cannot be inserted for a user that is gone, a tracker
cannot be inserted without its appointment, and removing a user removes everything it owns -/
theorem no_orphan_record (d : Db) (k : Uuid) (a : Appt) (t : Tracker) :
    (d.users a.user = none → d.storeAppt k a = none) ∧
    (d.appts k = none → d.storeTracker k t = none) ∧
    (∀ us, k.2 ∈ us → (d.removeUsers us).appts k = none ∧ (d.removeUsers us).trackers k = none) := by
  refine ⟨?_, ?_, ?_⟩
  · intro h; unfold Db.storeAppt; rw [h]; cases d.appts k <;> rfl
  · intro h; unfold Db.storeTracker; rw [h]; split
    · rfl
    · cases d.trackers k <;> rfl
  · intro us h; simp [Db.removeUsers, h]

end Teos.C10
