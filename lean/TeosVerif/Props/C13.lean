/-
C13 — The client delivers pending data once a tower recovers; status is truthful.

Model: `Model/Plugin.lean`: `St.retry` is a retrier from `Retrier::start` to the end of its task
under an unchanging tower (`runRetrier`: calls of `Retrier::run` separated by the back-off),
`St.manualRetry` is `retrytower`, `hookTower` the notification handler. Real time is not in the
model: "within the configured delays" and the request rate are measured on the real binary by the
correspondence run (monitors `not_delivered_after_recovery`, `request_flood`,
`stuck_temporary_unreachable`).
-/
import TeosVerif.Props.C05
import TeosVerif.Model.RetryManager
import TeosVerif.Gen.PluginCalls
import TeosVerif.Lemmas.Tidy

namespace Teos.C13
open Teos.Client Teos.Plugin

theorem runRetrier_done (n : Nat) (s s1 : St) (t : TowerId) (locs : List Loc) (r : RunResult)
    (h : runOnce s t locs = (s1, r)) (hr : r ≠ .transient) :
    runRetrier (n + 1) s t locs = (s1, r) := by
  cases r with
  | transient => exact absurd rfl hr
  | ok => simp only [runRetrier, h]
  | permanentSub => simp only [runRetrier, h]
  | misbehaving => simp only [runRetrier, h]

theorem runRetrier_stuck (s : St) (t : TowerId) (locs : List Loc)
    (h : runOnce s t locs = (s, .transient)) : ∀ n, runRetrier n s t locs = (s, .transient) := by
  intro n
  induction n with
  | zero => rfl
  | succ n ih => simp only [runRetrier, h, ih]

theorem addReceipt_proofs (c : Client) (t : TowerId) (l : Loc) (n : Nat) (r : ApptReceipt) :
    (c.addReceipt t l n r).1.store.proofs = c.store.proofs := by
  unfold Client.addReceipt Client.panic Client.setSummary
  split
  · rfl
  · split
    · rfl
    · rename_i st hst
      unfold Store.storeApptReceipt at hst
      split at hst
      · simp only [Option.some.injEq] at hst; subst hst; rfl
      · cases hst

theorem addReceipt_pending (c : Client) (t : TowerId) (l : Loc) (n : Nat) (r : ApptReceipt) :
    (c.addReceipt t l n r).1.store.pending = c.store.pending := by
  unfold Client.addReceipt Client.panic Client.setSummary
  split
  · rfl
  · split
    · rfl
    · rename_i st hst
      unfold Store.storeApptReceipt at hst
      split at hst
      · simp only [Option.some.injEq] at hst; subst hst; rfl
      · cases hst

/-! ### the manual retry gate -/

/-- **a manual retry is accepted exactly when** the tower is known, no retrier is running for
it, and either its retrier is idle or (there is no retrier and) its status is unreachable /
subscription error; a running retrier is reported as such; an unknown tower and any other status
are refused, and a refusal changes nothing. -/
theorem manual_retry_gate (s : St) (t : TowerId) :
    ((s.manualRetry t).2 = .ok ↔
      ∃ st, s.status t = some st ∧ s.running t = false ∧ (s.idle t = true ∨ st.isRetryable = true)) ∧
    ((s.manualRetry t).2 = .errUnknown ↔ s.status t = none) ∧
    ((s.manualRetry t).2 = .errBeingRetried ↔ (s.status t).isSome = true ∧ s.running t = true) ∧
    ((s.manualRetry t).2 ≠ .ok → (s.manualRetry t).1 = s) := by
  unfold St.manualRetry
  cases hs : s.status t with
  | none => simp
  | some st =>
    by_cases hrun : s.running t = true
    · simp [hrun]
    · by_cases hi : s.idle t = true
      · simp [hrun, hi]
      · by_cases hr : st.isRetryable = true
        · simp [hrun, hi, hr]
        · simp [hrun, hi, hr]

/-- in terms of what `listtowers` shows, when an idle retrier always means "unreachable" (the
states the plugin reaches after fix 4463be4; the correspondence run compares the status after
every event): accepted exactly for "unreachable" and "subscription error" -/
theorem manual_retry_documented_states (s : St) (t : TowerId) (st : TStatus)
    (hs : s.status t = some st) (hidle : s.idle t = true → st = .unreachable)
    (hrun : s.running t = false) :
    (s.manualRetry t).2 = .ok ↔ (st = .unreachable ∨ st = .subscriptionError) := by
  rw [(manual_retry_gate s t).1]
  constructor
  · rintro ⟨st', hst', _, h⟩
    rw [hs] at hst'; simp only [Option.some.injEq] at hst'; subst hst'
    rcases h with h | h
    · exact Or.inl (hidle h)
    · cases st <;> simp [TStatus.isRetryable] at h ⊢
  · intro h
    refine ⟨st, hs, hrun, Or.inr ?_⟩
    rcases h with h | h <;> subst h <;> rfl

/-! ### delivery -/

/-- a tower that accepts: every locator handed to `Retrier::run` ends up with a receipt and no
pending row; rows that were not pending stay so; the call reports success -/
theorem sendAll_accepted (t : TowerId) : ∀ (locs : List Loc) (c : Client), Inv c →
    (c.towers t).isSome = true →
    let r := sendAll c t .accepted locs
    r.2 = .ok ∧ Inv r.1 ∧
    (∀ l ∈ locs, (r.1.store.rcpts t l).isSome = true ∧ (t, l) ∉ r.1.store.pending) ∧
    (∀ x, (t, x) ∉ c.store.pending → (t, x) ∉ r.1.store.pending) ∧
    (∀ x, (c.store.rcpts t x).isSome = true → (r.1.store.rcpts t x).isSome = true) := by
  intro locs
  induction locs with
  | nil => intro c h _; exact ⟨rfl, h, by simp, fun _ hx => hx, fun _ hx => hx⟩
  | cons l ls ih =>
    intro c h hk
    obtain ⟨sm, hs⟩ := Option.isSome_iff_exists.mp hk
    simp only [sendAll]
    have hm := Teos.C05.move_accepted c h t sm hs l
    simp only at hm
    have k := keeps_move_accepted c t l
    have h2 := k.inv h
    have hk2 := k.known h t hk
    obtain ⟨r1, r2, r3, r4, r5⟩ := ih _ h2 hk2
    -- what the move does to rows other than (t, l)
    have hpend : ∀ x, (t, x) ∉ c.store.pending →
        (t, x) ∉ ((c.addReceipt t l 0 rcpt).1.removePending t l).1.store.pending := by
      intro x hx hmem
      have hk1 : ((c.addReceipt t l 0 rcpt).1.towers t).isSome = true := addReceipt_known c t l 0 rcpt t hk
      have : ((c.addReceipt t l 0 rcpt).1.removePending t l).1.store.pending
          = (c.addReceipt t l 0 rcpt).1.store.pending.filter (fun p => p ≠ (t, l)) := by
        unfold Client.removePending
        split
        · rename_i hn; rw [hn] at hk1; cases hk1
        · simp [Client.setSummary, deletePending_pending]
      rw [this, List.mem_filter] at hmem
      rw [addReceipt_pending] at hmem
      exact hx hmem.1
    have hrc : ∀ x, (c.store.rcpts t x).isSome = true →
        (((c.addReceipt t l 0 rcpt).1.removePending t l).1.store.rcpts t x).isSome = true := by
      intro x hx
      have := k.recd h t x (Or.inl hx)
      -- a receipt is never removed by the move
      have hk1 : ((c.addReceipt t l 0 rcpt).1.towers t).isSome = true := addReceipt_known c t l 0 rcpt t hk
      have h1 : ((c.addReceipt t l 0 rcpt).1.store.rcpts t x).isSome = true := by
        have hadd := step_added c (.receipt t l 0 rcpt) (by intro _ _ e; cases e) (by intro _ e; cases e)
        have hst : (c.step (.receipt t l 0 rcpt)).1 = (c.addReceipt t l 0 rcpt).1 := by
          unfold Client.step; simp [h.alive]
        rw [hst] at hadd
        obtain ⟨row, _, a1, _⟩ := h.sync_some t sm hs
        unfold Client.addReceipt Store.storeApptReceipt Client.setSummary
        simp only [hs, a1]
        by_cases e : x = l
        · simp [e]
        · simp [e, hx]
      unfold Client.removePending
      split
      · exact h1
      · simpa [Client.setSummary, deletePending_rcpts] using h1
    refine ⟨r1, r2, ?_, ?_, ?_⟩
    · intro x hx
      simp only [List.mem_cons] at hx
      rcases hx with rfl | hx
      · exact ⟨r5 _ hm.2.1, r4 _ hm.2.2⟩
      · exact r3 x hx
    · intro x hx; exact r4 x (hpend x hx)
    · intro x hx; exact r5 x (hrc x hx)

/-- **delivery after recovery**: a retrier that runs against a tower answering correctly, with
no subscription problem, delivers every pending appointment: each gets its receipt, nothing
stays pending for the tower, it is shown reachable, and no idle retrier is left behind. -/
theorem delivers_after_recovery (s : St) (t : TowerId) (h : Inv s.client) (sm : Summary)
    (ht : s.client.towers t = some sm) (hst : sm.status ≠ .subscriptionError)
    (hmis : sm.status ≠ .misbehaving)
    (hb : classify (s.beh t) = .accepted) (hsteady : (s.beh t).once = 0)
    (hnh : (s.beh t).hold = false) (hne : sm.pending ≠ []) :
    let s' := s.retry t (s.pendingOf t)
    (∀ l ∈ sm.pending, (s'.client.store.rcpts t l).isSome = true) ∧
    (∀ l, (t, l) ∉ s'.client.store.pending) ∧
    s'.status t = some .reachable ∧ s'.idle = s.idle := by
  intro s'
  have hrr : ∀ locs, s.retry t locs = s.retryRun t locs := by
    intro locs; unfold St.retry St.parks; simp [hnh]
  have hpo : s.pendingOf t = sm.pending := by unfold St.pendingOf; simp [ht]
  obtain ⟨row, r, a1, a2, a3, a4, a5, a6, a7, a8, a9⟩ := h.sync_some t sm ht
  -- the state the retrier starts from
  let c0 := s.client.setStatus t .tempUnreachable
  have hi0 : Inv c0 := h.setStatus t _ (by intro e; cases e)
  have hk0 : (c0.towers t).isSome = true := by rw [setStatus_towers]; simp [ht]
  have hst0 : (c0.towers t).map (·.status) = some .tempUnreachable := by
    show ((s.client.setStatus t .tempUnreachable).towers t).map (·.status) = _
    unfold Client.setStatus
    simp [ht, hmis, Client.setSummary]
  obtain ⟨r1, r2, r3, r4, r5⟩ := sendAll_accepted t sm.pending c0 hi0 hk0
  -- unfold the retrier: one successful call of `run`
  have hrun : s' = (s.withClient ((sendAll c0 t .accepted sm.pending).1.setStatus t .reachable)) := by
    show s.retry t (s.pendingOf t) = _
    rw [hrr]
    unfold St.retryRun
    rw [hpo]
    have he : sm.pending.isEmpty = false := by
      cases hp : sm.pending with
      | nil => exact absurd hp hne
      | cons _ _ => rfl
    simp only [he, Bool.false_eq_true, ↓reduceIte, St.status, ht, Option.map_some, hst]
    have hre : reRegister (s.withClient c0) t = (s.withClient c0, none) := by
      unfold reRegister St.status
      have : ((s.withClient c0).client.towers t).map (·.status) ≠ some .subscriptionError := by
        show (c0.towers t).map (·.status) ≠ _
        rw [hst0]; intro e; cases e
      simp [this]
    have hone : runOnce (s.withClient c0) t sm.pending =
        ((s.withClient c0).withClient (sendAll c0 t .accepted sm.pending).1, .ok) := by
      unfold runOnce
      rw [hre]
      simp only
      have : classify ((s.withClient c0).beh t) = .accepted := hb
      rw [this]
      have hcons : ∀ x : St, x.beh = s.beh → x.consume t = x := by
        intro x hx; unfold St.consume; rw [hx, hsteady]; simp
      show (((s.withClient c0).withClient (sendAll c0 t .accepted sm.pending).1).consume t,
        (sendAll c0 t .accepted sm.pending).2) = _
      rw [r1]
      exact congrArg (·, RunResult.ok) (hcons _ rfl)
    show (match runRetrier 4 (s.withClient c0) t sm.pending with
      | (s1, r) => _) = _
    rw [runRetrier_done 3 _ _ t sm.pending .ok hone (by intro e; cases e)]
    rfl
  rw [hrun]
  simp only [St.withClient, setStatus_store]
  refine ⟨fun l hl => (r3 l hl).1, ?_, ?_, trivial⟩
  · intro l hmem
    by_cases hin : l ∈ sm.pending
    · exact (r3 l hin).2 hmem
    · have : (t, l) ∉ c0.store.pending := by
        show (t, l) ∉ (s.client.setStatus t .tempUnreachable).store.pending
        rw [setStatus_store]
        intro hm2
        exact hin (by rw [a7]; exact (mem_locsOf _ _ _).mpr hm2)
      exact r4 l this hmem
  · -- shown reachable
    have hk1 : ((sendAll c0 t .accepted sm.pending).1.towers t).isSome = true :=
      (keeps_sendAll t .accepted sm.pending c0).known hi0 t hk0
    obtain ⟨sm1, hs1⟩ := Option.isSome_iff_exists.mp hk1
    have hnm : sm1.status ≠ .misbehaving := by
      intro hm
      obtain ⟨_, _, _, _, _, _, _, _, _, _, b9⟩ := r2.sync_some t sm1 hs1
      have hp := b9.mp hm
      -- no proof can have appeared: the store's proofs are those of `s.client`
      have hnp : (s.client.store.proofs t).isSome = false := by
        cases hq : (s.client.store.proofs t).isSome with
        | false => rfl
        | true => exact absurd (a9.mpr hq) hmis
      have : ∀ (locs : List Loc) (c : Client), (sendAll c t .accepted locs).1.store.proofs = c.store.proofs := by
        intro locs
        induction locs with
        | nil => intro c; rfl
        | cons l ls ih =>
          intro c
          simp only [sendAll]
          rw [ih, removePending_proofs, addReceipt_proofs]
      rw [this, setStatus_store, hnp] at hp
      cases hp
    unfold St.status Client.setStatus
    simp [hs1, hnm, Client.setSummary]

/-- the core of a successful delivery: from a consistent client in which tower `t` is listed and not
misbehaving, sending everything that is pending to a tower that accepts leaves a receipt for each,
nothing pending for `t`, and `t` shown reachable -/
theorem finish_delivery (c0 : Client) (hi0 : Inv c0) (t : TowerId) (sm0 : Summary)
    (ht0 : c0.towers t = some sm0) (hmis : sm0.status ≠ .misbehaving) :
    let c2 := (sendAll c0 t .accepted sm0.pending).1.setStatus t .reachable
    (∀ l ∈ sm0.pending, (c2.store.rcpts t l).isSome = true) ∧
    (∀ l, (t, l) ∉ c2.store.pending) ∧
    (c2.towers t).map (·.status) = some .reachable := by
  intro c2
  obtain ⟨row, r, a1, a2, a3, a4, a5, a6, a7, a8, a9⟩ := hi0.sync_some t sm0 ht0
  have hk0 : (c0.towers t).isSome = true := by simp [ht0]
  obtain ⟨r1, r2, r3, r4, r5⟩ := sendAll_accepted t sm0.pending c0 hi0 hk0
  show (∀ l ∈ sm0.pending, (((sendAll c0 t .accepted sm0.pending).1.setStatus t .reachable).store.rcpts t l).isSome = true) ∧
    (∀ l, (t, l) ∉ ((sendAll c0 t .accepted sm0.pending).1.setStatus t .reachable).store.pending) ∧
    (((sendAll c0 t .accepted sm0.pending).1.setStatus t .reachable).towers t).map (·.status) = some .reachable
  simp only [setStatus_store]
  refine ⟨fun l hl => (r3 l hl).1, ?_, ?_⟩
  · intro l hmem
    by_cases hin : l ∈ sm0.pending
    · exact (r3 l hin).2 hmem
    · have : (t, l) ∉ c0.store.pending := by
        intro hm2
        exact hin (by rw [a7]; exact (mem_locsOf _ _ _).mpr hm2)
      exact r4 l this hmem
  · have hk1 : ((sendAll c0 t .accepted sm0.pending).1.towers t).isSome = true :=
      (keeps_sendAll t .accepted sm0.pending c0).known hi0 t hk0
    obtain ⟨sm1, hs1⟩ := Option.isSome_iff_exists.mp hk1
    have hnm : sm1.status ≠ .misbehaving := by
      intro hm
      obtain ⟨_, _, _, _, _, _, _, _, _, _, b9⟩ := r2.sync_some t sm1 hs1
      have hp := b9.mp hm
      have hnp : (c0.store.proofs t).isSome = false := by
        cases hq : (c0.store.proofs t).isSome with
        | false => rfl
        | true => exact absurd (a9.mpr hq) hmis
      have : ∀ (locs : List Loc) (c : Client), (sendAll c t .accepted locs).1.store.proofs = c.store.proofs := by
        intro locs
        induction locs with
        | nil => intro c; rfl
        | cons l ls ih =>
          intro c
          simp only [sendAll]
          rw [ih, removePending_proofs, addReceipt_proofs]
      rw [this, hnp] at hp
      cases hp
    unfold Client.setStatus
    simp [hs1, hnm, Client.setSummary]

/-- what re-registering with an extending receipt does to a listed tower: the subscription moves on,
status, pending appointments and the proofs stay -/
theorem reregistration_keeps_pending (c : Client) (h : Inv c) (t : TowerId) (sm : Summary)
    (ht : c.towers t = some sm) :
    let c1 := (c.addUpdateTower t t (nextReceipt c t)).1
    Inv c1 ∧ ∃ sm1, c1.towers t = some sm1 ∧ sm1.pending = sm.pending ∧ sm1.status = sm.status := by
  intro c1
  refine ⟨h.addUpdateTower t t _, ?_⟩
  obtain ⟨row, r0, a1, a2, a3, a4, a5, a6, a7, a8, a9⟩ := h.sync_some t sm ht
  show ∃ sm1, (c.addUpdateTower t t (nextReceipt c t)).1.towers t = some sm1 ∧ _
  have hnr : nextReceipt c t = { slots := sm.slots + 100, start := sm.start, expiry := sm.expiry + 10, sig := 0 } := by
    unfold nextReceipt; simp [ht]
  rw [hnr]
  unfold Client.addUpdateTower
  simp only [ht]
  have hexp : ¬ (sm.expiry + 10 ≤ sm.expiry) := by omega
  simp only [hexp, ↓reduceIte]
  have hload : c.store.loadSummary t = some
      { addr := row.addr, slots := row.slots, start := r0.start, expiry := r0.expiry,
        status := reconStatus (c.store.proofs t).isSome (locsOf c.store.pending t),
        pending := locsOf c.store.pending t, invalid := locsOf c.store.invalid t } := by
    unfold Store.loadSummary; simp [a1, a2]
  rw [hload]
  simp only
  have hsl : ¬ (sm.slots + 100 ≤ row.slots) := by omega
  simp only [hsl, ↓reduceIte]
  have hmax := maxReg_mem _ _ a2
  have hany : (c.store.regs t).any (fun x => decide (x.expiry = sm.expiry + 10)) = false := by
    rw [List.any_eq_false]
    intro x hx
    have := hmax.2 x hx
    simp; omega
  unfold Store.storeTowerRecord
  simp only [hany, Bool.false_eq_true, ↓reduceIte, Client.setSummary]
  exact ⟨_, rfl, rfl, rfl⟩

/-- **delivery after a subscription error, once the subscription can be renewed**: the retrier
registers again (the tower hands out an extending receipt), then delivers every pending
appointment; the tower is shown reachable with nothing pending. The tower may be one that accepts
anyway, or one that answers with a subscription error UNTIL the client has registered again
(`subErrUntilReg`): what is required is that it accepts once renewed. -/
theorem delivers_after_renewal (s : St) (t : TowerId) (h : Inv s.client) (sm : Summary)
    (ht : s.client.towers t = some sm) (hst : sm.status = .subscriptionError)
    (hreg : (s.beh t).reg = .accept) (hb : classify { s.beh t with renewed := true } = .accepted)
    (hsteady : (s.beh t).once = 0) (hnh : (s.beh t).hold = false) (hne : sm.pending ≠ []) :
    let s' := s.retry t (s.pendingOf t)
    (∀ l ∈ sm.pending, (s'.client.store.rcpts t l).isSome = true) ∧
    (∀ l, (t, l) ∉ s'.client.store.pending) ∧
    s'.status t = some .reachable := by
  intro s'
  have hrr : ∀ locs, s.retry t locs = s.retryRun t locs := by
    intro locs; unfold St.retry St.parks; simp [hnh]
  have hpo : s.pendingOf t = sm.pending := by unfold St.pendingOf; simp [ht]
  have hdown : (s.beh t).down = false := by
    cases hd : (s.beh t).down with
    | false => rfl
    | true => unfold classify at hb; simp [hd] at hb
  obtain ⟨hi1, sm1, hs1, hp1, hst1⟩ := reregistration_keeps_pending s.client h t sm ht
  -- the state after the re-registration
  let s1 : St := (s.towerRegisters t).recordRegistration t
  have htrc : (s.towerRegisters t).client = s.client := towerRegisters_client s t
  have htrb : (s.towerRegisters t).beh t = { s.beh t with renewed := true } := by
    unfold St.towerRegisters; rw [hreg]; simp
  have hc1 : s1.client = (s.client.addUpdateTower t t (nextReceipt s.client t)).1 := by
    show ((s.towerRegisters t).recordRegistration t).client = _
    unfold St.recordRegistration
    simp only [htrc]
  have hbeh1 : s1.beh t = { s.beh t with renewed := true } := by
    show ((s.towerRegisters t).recordRegistration t).beh t = _
    unfold St.recordRegistration
    exact htrb
  have hre : reRegister s t = (s1, none) := by
    unfold reRegister St.status
    simp only [ht, Option.map_some, hst, ↓reduceIte, hdown, Bool.false_eq_true, hreg]
    have : regAccepted s t = true := by unfold regAccepted; rw [hreg]
    simp [this, s1]
  have hcons : ∀ x : St, x.beh t = { s.beh t with renewed := true } → x.consume t = x := by
    intro x hx; unfold St.consume; rw [hx]; simp [hsteady]
  have hfin := finish_delivery s1.client (by rw [hc1]; exact hi1) t sm1 (by rw [hc1]; exact hs1)
    (by rw [hst1, hst]; intro e; cases e)
  obtain ⟨r1, _⟩ := sendAll_accepted t sm1.pending s1.client (by rw [hc1]; exact hi1)
    (by rw [hc1]; simp [hs1])
  have hone : runOnce s t sm.pending =
      (s1.withClient (sendAll s1.client t .accepted sm.pending).1, .ok) := by
    unfold runOnce
    rw [hre]
    simp only
    have : classify (s1.beh t) = .accepted := by rw [hbeh1]; exact hb
    rw [this]
    show ((s1.withClient (sendAll s1.client t .accepted sm.pending).1).consume t,
      (sendAll s1.client t .accepted sm.pending).2) = _
    rw [← hp1, r1]
    exact congrArg (·, RunResult.ok) (hcons _ hbeh1)
  have hrun : s' = (s1.withClient ((sendAll s1.client t .accepted sm.pending).1.setStatus t .reachable)) := by
    show s.retry t (s.pendingOf t) = _
    rw [hrr]
    unfold St.retryRun
    rw [hpo]
    have he : sm.pending.isEmpty = false := by
      cases hp : sm.pending with
      | nil => exact absurd hp hne
      | cons _ _ => rfl
    simp only [he, Bool.false_eq_true, ↓reduceIte, St.status, ht, Option.map_some, hst]
    show (match runRetrier 4 s t sm.pending with
      | (s1, r) => _) = _
    rw [runRetrier_done 3 _ _ t sm.pending .ok hone (by intro e; cases e)]
    rfl
  rw [hrun]
  simp only [St.withClient, St.status]
  rw [← hp1]
  exact hfin

/-! ### failure: back off, give up, keep the data -/

/-- **no progress, no loop**: when the tower cannot be reached or answers something unparsable,
a call of `Retrier::run` changes nothing and returns a transient error to the back-off — it
never goes round again on its own (the defect repaired by fix 13da8a9) -/
theorem run_returns_to_backoff (s : St) (t : TowerId) (l : Loc) (ls : List Loc)
    (hst : s.status t ≠ some .subscriptionError) (hsteady : (s.beh t).once = 0)
    (hb : classify (s.beh t) = .connErr ∨ classify (s.beh t) = .unparsable) :
    runOnce s t (l :: ls) = (s, .transient) := by
  have hcons : s.consume t = s := by unfold St.consume; rw [hsteady]; simp
  unfold runOnce reRegister
  simp only [hst, ↓reduceIte]
  rcases hb with hb | hb <;> rw [hb] <;> simp only [sendAll, St.withClient] <;> exact congrArg (·, RunResult.transient) hcons

/-- **a tower that keeps failing ends up unreachable with its data retained**: the retrier
gives up, goes idle, and the file is exactly what it was -/
theorem gives_up_keeps_data (s : St) (t : TowerId) (l : Loc) (ls : List Loc) (sm : Summary)
    (ht : s.client.towers t = some sm) (hst : sm.status ≠ .subscriptionError)
    (hmis : sm.status ≠ .misbehaving) (hsteady : (s.beh t).once = 0) (hnh : (s.beh t).hold = false)
    (hb : classify (s.beh t) = .connErr ∨ classify (s.beh t) = .unparsable) :
    let s' := s.retry t (l :: ls)
    s'.client.store = s.client.store ∧ s'.status t = some .unreachable ∧ s'.idle t = true := by
  intro s'
  have hret : ∀ locs, s.retry t locs = s.retryRun t locs := by
    intro locs; unfold St.retry St.parks; simp [hnh]
  let s0 := s.withClient (s.client.setStatus t .tempUnreachable)
  have hst0 : s0.status t = some .tempUnreachable := by
    show ((s.client.setStatus t .tempUnreachable).towers t).map (·.status) = _
    unfold Client.setStatus
    simp [ht, hmis, Client.setSummary]
  have hne0 : s0.status t ≠ some .subscriptionError := by rw [hst0]; intro e; cases e
  have hb0 : classify (s0.beh t) = .connErr ∨ classify (s0.beh t) = .unparsable := hb
  have hone := run_returns_to_backoff s0 t l ls hne0 hsteady hb0
  have hrr : runRetrier 4 s0 t (l :: ls) = (s0, .transient) := runRetrier_stuck s0 t _ hone 4
  have : s' = { s0 with client := s0.client.setStatus t .unreachable,
                        idle := fun x => if x = t then true else s0.idle x } := by
    show s.retry t (l :: ls) = _
    rw [hret]
    unfold St.retryRun
    simp only [List.isEmpty_cons, Bool.false_eq_true, ↓reduceIte, St.status, ht, Option.map_some, hst]
    show (match runRetrier 4 s0 t (l :: ls) with
      | (s1, r) => _) = _
    rw [hrr]
  rw [this]
  refine ⟨by simp [s0, St.withClient], ?_, by simp⟩
  show (((s.client.setStatus t .tempUnreachable).setStatus t .unreachable).towers t).map (·.status) = _
  unfold Client.setStatus
  simp [ht, hmis, Client.setSummary]

/-- while a tower is shown unreachable a new revocation is stored but no retrier is started (it
waits for the auto-retry delay or a manual retry: no request is made) -/
theorem unreachable_tower_not_contacted (s : St) (t : TowerId) (l : Loc) (sm : Summary)
    (ht : s.client.towers t = some sm) (hst : sm.status = .unreachable) :
    (hookTower s t l).2 = false := by
  unfold hookTower
  simp only [ht, hst]
  split <;> rfl

/-- a retrier created by the handler starts from everything that is pending for the tower (fix
e54e604), so success means nothing at all is left pending -/
theorem new_retrier_takes_all_pending (s : St) (t : TowerId) (l : Loc) (s1 : St)
    (h : hookTower s t l = (s1, true)) (hrun : s.running t = false) :
    notifyTower s t l = (s1.consumeIf (asked s t l) t).retry t (s1.pendingOf t) := by
  unfold notifyTower; rw [h]; simp [hrun]

/-- a revocation that arrives while the tower's retrier is running is stored and handed to that
retrier: no second retrier is started -/
theorem running_retrier_is_fed (s : St) (t : TowerId) (l : Loc) (s1 : St)
    (h : hookTower s t l = (s1, true)) (hrun : s.running t = true) :
    notifyTower s t l = s1 := by
  unfold notifyTower; rw [h]; simp [hrun]

/-- non-vacuity: outage, two revocations, recovery, manual retry: both delivered -/
example :
    let s1 := (({} : St).step (.register 0)).1
    let s2 := (s1.step (.setBeh 0 { down := true })).1
    let s3 := (s2.step (.notify 1)).1
    let s4 := (s3.step (.notify 2)).1
    let s5 := (s4.step (.setBeh 0 {})).1
    let r := s5.step (.retry 0)
    s4.status 0 = some .unreachable ∧ s4.idle 0 = true ∧ s4.pendingOf 0 = [1, 2] ∧
    r.2 = some .ok ∧ r.1.status 0 = some .reachable ∧ r.1.pendingOf 0 = [] ∧
    (r.1.step (.retry 0)).2 = some .errStatus := by
  decide

/-- non-vacuity for `delivers_after_renewal`: the subscription runs out while the tower is down; back
up, it answers with a subscription error until the client has registered again — which the retrier
finds out by itself, renews, and delivers -/
example :
    let s1 := (({} : St).step (.register 0)).1
    let s2 := (s1.step (.setBeh 0 { down := true })).1
    let s3 := (s2.step (.notify 1)).1
    let s4 := (s3.step (.setBeh 0 { add := .subErrUntilReg })).1
    let r := s4.step (.retry 0)
    s3.status 0 = some .unreachable ∧ r.2 = some .ok ∧ r.1.status 0 = some .reachable ∧
    r.1.pendingOf 0 = [] ∧ (r.1.client.store.rcpts 0 1).isSome = true := by
  decide

/-! ### truthful status, for every history -/

def runEv : St → List Ev → St
  | s, [] => s
  | s, ev :: rest => runEv (s.step ev).1 rest

theorem tidy_runEv : ∀ (evs : List Ev) (s : St), TidyS s → TidyS (runEv s evs) := by
  intro evs
  induction evs with
  | nil => intro s h; exact h
  | cons ev rest ih => intro s h; exact ih _ (step_tidy s ev h)

/-- **a tower shown reachable has nothing pending** — after any history of registrations,
notifications, changes of tower behaviour (outages, error kinds, recoveries), manual retries,
abandons and restarts: whenever `listtowers` says "reachable", no appointment is waiting for that
tower, neither in the listing nor in the file (the defect repaired by fix e54e604 was exactly a
counter-example). -/
theorem reachable_means_nothing_pending (evs : List Ev) (t : TowerId) (sm : Summary) :
    let s := runEv {} evs
    s.client.towers t = some sm → sm.status = .reachable →
    sm.pending = [] ∧ ∀ l, (t, l) ∉ s.client.store.pending := by
  intro s hs hst
  have ht := tidy_runEv evs {} TidyS.init
  have hnm : sm.status ≠ .misbehaving := by rw [hst]; intro e; cases e
  have hp := (ht.tidy t sm hs hnm).2.2.2 hst
  refine ⟨hp, ?_⟩
  intro l hl
  obtain ⟨_, _, _, _, _, _, _, _, a7, _, _⟩ := ht.inv.sync_some t sm hs
  have : l ∈ sm.pending := by rw [a7]; exact (mem_locsOf _ _ _).mpr hl
  rw [hp] at this
  cases this

/-- and the listing is the file: what is shown pending for a tower is exactly what is stored as
pending for it (every history) -/
theorem pending_listing_is_the_store (evs : List Ev) (t : TowerId) (sm : Summary) (l : Loc) :
    let s := runEv {} evs
    s.client.towers t = some sm → (l ∈ sm.pending ↔ (t, l) ∈ s.client.store.pending) := by
  intro s hs
  have ht := tidy_runEv evs {} TidyS.init
  obtain ⟨_, _, _, _, _, _, _, _, a7, _, _⟩ := ht.inv.sync_some t sm hs
  rw [a7]; exact mem_locsOf _ _ _

/-- **status_transitions_are_the_modelled_ones** (tie to the source, regenerated on every run): in the
non-test source of the client a tower's status is written only at these places, with these values — the
failed commands (`register`, `get_subscription_info`, `get_appointment`: temporary unreachable), the
notification handler (temporary unreachable / subscription error, as `hookTower`), `Retrier::start`
(temporary unreachable when it begins, then reachable / subscription error / unreachable as `retryRun`) and
`Retrier::run` (subscription error, as `sendAll`) —, and `is_retryable` is "unreachable or subscription
error", as `TStatus.isRetryable`. -/
theorem status_transitions_are_the_modelled_ones :
    Gen.PluginCalls.setStatus =
      [("main", "register", "TemporaryUnreachable"), ("main", "get_subscription_info", "TemporaryUnreachable"),
       ("main", "get_appointment", "TemporaryUnreachable"), ("main", "on_commitment_revocation", "TemporaryUnreachable"),
       ("main", "on_commitment_revocation", "SubscriptionError"), ("retrier", "start", "TemporaryUnreachable"),
       ("retrier", "start", "Reachable"), ("retrier", "start", "SubscriptionError"), ("retrier", "start", "Unreachable"),
       ("retrier", "run", "SubscriptionError")] ∧
    Gen.PluginCalls.retryable = ["unreachable", "subscription_error"] ∧
    (∀ st : TStatus, st.isRetryable = true ↔ (st = .unreachable ∨ st = .subscriptionError)) := by
  refine ⟨by decide, by decide, ?_⟩
  intro st; cases st <;> simp [TStatus.isRetryable]

end Teos.C13

namespace Teos.C13
open Teos.Retry

/-! ### the retry manager, step by step: never two retry loops for one tower -/

/-- a retry task is alive for tower `t` exactly when its retrier is `Running`, and then there is one -/
def want (r : Option Retrier) : Nat :=
  match r with
  | some r => if r.status = .running then 1 else 0
  | none => 0

def OneLoop (m : Mgr) : Prop := ∀ t, m.tasks t = want (m.retrier t)

theorem oneLoop_init : OneLoop Mgr.init := fun _ => rfl

/-- a step about tower `t` leaves every other tower's retrier and tasks alone -/
theorem step_frame (m : Mgr) (s : Step) (x : TowerId) (hx : x ≠ s.target) :
    (step m s).tasks x = m.tasks x ∧ (step m s).retrier x = m.retrier x := by
  cases s with
  | setKnown t k => exact ⟨rfl, rfl⟩
  | recv t d =>
    have e : x ≠ t := hx
    simp only [step, recv]
    split
    · exact ⟨rfl, rfl⟩
    · cases m.retrier t with
      | none => simp [setR, e]
      | some r =>
        simp only
        split
        · split <;> simp [setR, e]
        · simp [setR, e]
  | tick t a =>
    have e : x ≠ t := hx
    simp only [step, tick]
    cases m.retrier t with
    | none => exact ⟨rfl, rfl⟩
    | some r =>
      simp only
      repeat' split
      all_goals simp [setR, e]
  | finish t o =>
    have e : x ≠ t := hx
    simp only [step, finish]
    split
    · exact ⟨rfl, rfl⟩
    · cases m.retrier t with
      | none => simp [e]
      | some r => cases o <;> simp [setR, e]
  | drained t =>
    have e : x ≠ t := hx
    simp only [step]
    cases m.retrier t with
    | none => exact ⟨rfl, rfl⟩
    | some r =>
      simp only
      split <;> simp [setR, e]

theorem oneLoop_iff (m : Mgr) : OneLoop m ↔ ∀ t, m.tasks t = want (m.retrier t) := Iff.rfl

theorem oneLoop_step (m : Mgr) (s : Step) (h : OneLoop m) : OneLoop (step m s) := by
  rw [oneLoop_iff] at h ⊢
  intro x
  by_cases hx : x = s.target
  · -- the tower the step is about: every combination of its retrier's status, its flags and the step's arguments
    have ht := h s.target
    cases s with
    | setKnown t k => rw [hx]; exact ht
    | recv t d =>
      have e : x = t := hx
      rw [e]
      simp only [Step.target] at ht
      cases hk : m.known t <;> cases hr : m.retrier t with
      | none => simp [step, recv, hk, hr, setR, want] at ht ⊢ <;> exact ht
      | some r =>
        obtain ⟨st, pe⟩ := r
        cases st <;> cases d <;> simp [step, recv, hk, hr, setR, want] at ht ⊢ <;> exact ht
    | tick t a =>
      have e : x = t := hx
      rw [e]
      simp only [Step.target] at ht
      cases hk : m.known t <;> cases hr : m.retrier t with
      | none => simp [step, tick, hr, want] at ht ⊢ <;> exact ht
      | some r =>
        obtain ⟨st, pe⟩ := r
        cases st <;> cases pe <;> cases a <;>
          simp [step, tick, hk, hr, setR, want, Retrier.shouldStart] at ht ⊢ <;> first | exact ht | omega
    | finish t o =>
      have e : x = t := hx
      rw [e]
      simp only [Step.target] at ht
      cases hr : m.retrier t with
      | none =>
        simp [hr, want] at ht
        simp [step, finish, ht, hr, want]
      | some r =>
        obtain ⟨st, pe⟩ := r
        cases st <;> cases o <;> simp [hr, want] at ht <;> simp [step, finish, ht, hr, setR, want]
    | drained t =>
      have e : x = t := hx
      rw [e]
      simp only [Step.target] at ht
      cases hr : m.retrier t with
      | none => simp [step, hr, want] at ht ⊢; exact ht
      | some r =>
        obtain ⟨st, pe⟩ := r
        cases st <;> simp [step, hr, setR, want] at ht ⊢ <;> exact ht
  · obtain ⟨f1, f2⟩ := step_frame m s x hx
    rw [f1, f2]; exact h x

theorem oneLoop_run : ∀ (steps : List Step) (m : Mgr), OneLoop m → OneLoop (run m steps)
  | [], _, h => h
  | s :: r, m, h => by
    unfold run
    simp only [List.foldl_cons]
    exact oneLoop_run r (step m s) (oneLoop_step m s h)

/-- **never_two_retry_loops**: for EVERY interleaving of messages arriving on the manager's channel (fresh
revocations, stale data, manual retries), iterations of the manager's loop (clean-up, starts, automatic
wake-ups), retry tasks finishing in any way, towers being registered and abandoned — at no time is more than
one retry task alive for a tower, and one is alive exactly when that tower's retrier is `Running`. -/
theorem never_two_retry_loops (steps : List Step) (t : TowerId) :
    (run Mgr.init steps).tasks t ≤ 1 ∧
    ((run Mgr.init steps).tasks t = 1 ↔ ∃ r, (run Mgr.init steps).retrier t = some r ∧ r.status = .running) := by
  have h := oneLoop_run steps Mgr.init oneLoop_init t
  cases hr : (run Mgr.init steps).retrier t with
  | none => rw [hr] at h; simp [want] at h; simp [h]
  | some r =>
    rw [hr] at h
    by_cases e : r.status = .running
    · simp [want, e] at h; simp [h, e]
    · simp [want, e] at h; simp [h, e]

/-- **new data never starts a second loop**: taking a message from the channel changes no task count -/
theorem recv_spawns_nothing (m : Mgr) (t : TowerId) (d : Bool) (x : TowerId) :
    (step m (.recv t d)).tasks x = m.tasks x := by
  simp only [step, recv]
  split
  · rfl
  · cases hr : m.retrier t with
    | none => rfl
    | some r =>
      simp only
      split
      · split <;> rfl
      · rfl

/-- **a failed retrier is never restarted**: the next iteration of the manager's loop forgets it -/
theorem failed_is_forgotten (m : Mgr) (t : TowerId) (a : Bool) (r : Retrier) (hr : m.retrier t = some r)
    (hf : r.status = .failed) : (step m (.tick t a)).retrier t = none ∧ (step m (.tick t a)).tasks t = m.tasks t := by
  simp only [step, tick, hr]
  have : r.shouldStart = false := by simp [Retrier.shouldStart, hf]
  simp [hf, this, setR]

/-- non-vacuity: revocations while a task runs, the task gives up, a manual retry wakes the retrier, one task again -/
example :
    let m := run Mgr.init [.setKnown 0 true, .recv 0 false, .tick 0 false, .recv 0 false, .recv 0 false, .tick 0 false]
    let m' := run m [.finish 0 .gaveUp, .recv 0 true, .tick 0 false]
    m.tasks 0 = 1 ∧ (run m [.finish 0 .gaveUp]).tasks 0 = 0 ∧ m'.tasks 0 = 1 := by decide

/-- **retry_task_call_sites_are_the_modelled_ones** (tie to the source, regenerated on every run): a retry
task is spawned only in `Retrier::start`, which is called only by `start_retrying`, itself called only from
the manager's loop (under `should_start()`); a retrier's status is written only by the manager's loop
(`Stopped`, when an idle retrier is woken: twice) and by `start` (`Running` before the task is spawned;
`Stopped` / `Failed` / `Idle` at the end of the task) — the steps `tick`, `recv` and `finish` of the model. -/
theorem retry_task_call_sites_are_the_modelled_ones :
    Teos.Gen.PluginCalls.spawn = [("retrier", "start", "")] ∧
    Teos.Gen.PluginCalls.retrierStart = [("retrier", "start_retrying", "")] ∧
    Teos.Gen.PluginCalls.startRetrying = [("retrier", "manage_retry", "")] ∧
    Teos.Gen.PluginCalls.retrierStatus = [("retrier", "manage_retry", "Stopped"), ("retrier", "manage_retry", "Stopped"),
      ("retrier", "start", "Running"), ("retrier", "start", "Stopped"), ("retrier", "start", "Failed"),
      ("retrier", "start", "Idle")] := by
  decide

end Teos.C13
