/-
C09 — Subscriptions expire, renew and are purged at exactly the promised heights.

All statements are for every tower state, every configuration `(slots, duration, grace)` (0 and 1
included) and every height; arithmetic is over `Nat` with the `u32` saturation/checks of the source
made explicit (`u32Max`). The two unchecked additions of the source (`height + duration` on first
registration, `expiry + grace` in the purge test) are modelled without wrap-around: the theorems
hold under `height + duration ≤ u32Max ∧ expiry + grace ≤ u32Max`, which every realistic
configuration satisfies (DESIGN.md, C09).
-/
import TeosVerif.Lemmas.Tower
import TeosVerif.Lemmas.TowerExpiry

namespace Teos.C09
open Teos

/-- **usable_iff_below_expiry**: a request is let through exactly when the signer is a registered
user and the tower's height is strictly below the subscription's expiry. -/
theorem usable_iff_below_expiry (s : Tower) (u : User) :
    (∃ ui, authCheck s (some u) = .ok (u, ui)) ↔
    (∃ ui, s.mem.users u = some ui ∧ s.mem.gkHeight < ui.expiry) := by
  unfold authCheck
  constructor
  · rintro ⟨ui, h⟩
    cases hu : s.mem.users u with
    | none => simp [hu] at h
    | some ui' =>
      simp only [hu] at h
      by_cases he : Gen.subscriptionExpired s.mem.gkHeight ui'.expiry = true
      · simp [he] at h
      · simp only [he] at h
        refine ⟨ui', rfl, ?_⟩
        simp only [Gen.subscriptionExpired, decide_eq_true_eq] at he
        omega
  · rintro ⟨ui, hu, hlt⟩
    refine ⟨ui, ?_⟩
    have : Gen.subscriptionExpired s.mem.gkHeight ui.expiry = false := by
      simp only [Gen.subscriptionExpired, decide_eq_false_iff_not]; omega
    simp [hu, this]

/-- **expired_error_states_expiry**: at or after the expiry every request of that user fails with
the subscription-expired error carrying exactly the expiry, and nothing changes. -/
theorem expired_error_states_expiry (s : Tower) (node : Node) (u : User) (ui : UserInfo)
    (hu : s.mem.users u = some ui) (hexp : ui.expiry ≤ s.mem.gkHeight)
    (loc : Loc) (blob : Blob) (tsd usig : Nat) :
    addAppointment s node (some u) loc blob tsd usig = (s, .expired ui.expiry, []) ∧
    getAppointment s (some u) loc = .expired ui.expiry ∧
    getSubscriptionInfo s (some u) = .expired ui.expiry := by
  have hx : Gen.subscriptionExpired s.mem.gkHeight ui.expiry = true := by
    simp only [Gen.subscriptionExpired, decide_eq_true_eq]; omega
  have ha : authCheck s (some u) = .error (.expired ui.expiry) := by
    simp [authCheck, hu, hx]
  refine ⟨?_, ?_, ?_⟩
  · simp [addAppointment, ha]
  · simp [getAppointment, ha]
  · simp [getSubscriptionInfo, ha]

/-- **first_registration**: a new user gets `slots` slots and the window `[h, h + duration)`. -/
theorem first_registration (cfg : Cfg) (s : Tower) (u : User)
    (hm : s.mem.users u = none) (hd : s.db.users u = none) :
    (register cfg s u).2 = .registered cfg.slots s.mem.gkHeight (s.mem.gkHeight + cfg.duration) ∧
    (register cfg s u).1.mem.users u =
      some { slots := cfg.slots, start := s.mem.gkHeight, expiry := s.mem.gkHeight + cfg.duration } ∧
    (register cfg s u).1.db.users u =
      some { slots := cfg.slots, start := s.mem.gkHeight, expiry := s.mem.gkHeight + cfg.duration } := by
  simp [register, addUpdateUser, hm, Db.storeUser, hd]

/-- **renewal_arith**: renewing keeps the start, pushes the expiry back by one duration
(saturating at `u32::MAX`) and tops the balance up by the configured slots (checked). -/
theorem renewal_arith (cfg : Cfg) (s : Tower) (u : User) (ui : UserInfo)
    (hm : s.mem.users u = some ui) (hfit : ui.slots + cfg.slots ≤ u32Max) :
    (register cfg s u).2 =
      .registered (ui.slots + cfg.slots) ui.start (min (ui.expiry + cfg.duration) u32Max) ∧
    (register cfg s u).1.mem.users u =
      some { slots := ui.slots + cfg.slots, start := ui.start, expiry := min (ui.expiry + cfg.duration) u32Max } := by
  have : ¬ (ui.slots + cfg.slots > u32Max) := by omega
  simp [register, addUpdateUser, hm, this]

/-- **renewal_refused_at_max**: when the balance would exceed `u32::MAX` the registration is
refused and nothing changes. -/
theorem renewal_refused_at_max (cfg : Cfg) (s : Tower) (u : User) (ui : UserInfo)
    (hm : s.mem.users u = some ui) (hover : ui.slots + cfg.slots > u32Max) :
    register cfg s u = (s, .maxSlots) := by
  simp [register, addUpdateUser, hm, hover]

/-- **purged_iff** (gatekeeper step): after the gatekeeper has handled a block at height `H`, a
known user is still there exactly when `H < expiry + grace`. -/
theorem purged_iff (cfg : Cfg) (s : Tower) (H : Nat) (u : User) (ui : UserInfo)
    (hm : s.mem.users u = some ui) (hk : u ∈ s.db.userKeys) :
    (gkConnect cfg s H).mem.users u = if H < ui.expiry + cfg.grace then some ui else none := by
  rw [gkConnect_mem_users]
  by_cases hlt : H < ui.expiry + cfg.grace
  · have : u ∉ outdatedUsers cfg s H := by
      rw [mem_outdated_iff]
      rintro ⟨_, ui', hu', hle⟩
      rw [hm] at hu'; cases hu'; omega
    simp [this, hlt, hm]
  · have : u ∈ outdatedUsers cfg s H := by
      rw [mem_outdated_iff]
      exact ⟨hk, ui, hm, by omega⟩
    simp [this, hlt]

/-- **purge_never_early_never_others**: nobody whose `expiry + grace` is still ahead is touched —
neither their record nor their appointments and trackers — in memory and on disk. -/
theorem purge_never_early_never_others (cfg : Cfg) (s : Tower) (H : Nat) (u : User)
    (hsafe : ∀ ui, s.mem.users u = some ui → H < ui.expiry + cfg.grace) :
    (gkConnect cfg s H).mem.users u = s.mem.users u ∧
    (gkConnect cfg s H).db.users u = s.db.users u ∧
    (∀ l, (gkConnect cfg s H).db.appts (l, u) = s.db.appts (l, u)) ∧
    (∀ l, (gkConnect cfg s H).db.trackers (l, u) = s.db.trackers (l, u)) := by
  have : u ∉ outdatedUsers cfg s H := by
    rw [mem_outdated_iff]
    rintro ⟨_, ui, hu, hle⟩
    have := hsafe ui hu; omega
  refine ⟨?_, ?_, ?_, ?_⟩
  · rw [gkConnect_mem_users]; simp [this]
  · rw [gkConnect_db_users]; simp [this]
  · intro l; rw [gkConnect_db_appts]; simp [this]
  · intro l; rw [gkConnect_db_trackers]; simp [this]

/-- **purge_cascades**: a purged user's record, appointments and trackers are all gone, in memory
and on disk (sqlite: `ON DELETE CASCADE`). -/
theorem purge_cascades (cfg : Cfg) (s : Tower) (H : Nat) (u : User) (ui : UserInfo)
    (hm : s.mem.users u = some ui) (hk : u ∈ s.db.userKeys) (hdue : ui.expiry + cfg.grace ≤ H) :
    (gkConnect cfg s H).mem.users u = none ∧
    (gkConnect cfg s H).db.users u = none ∧
    (∀ l, (gkConnect cfg s H).db.appts (l, u) = none) ∧
    (∀ l, (gkConnect cfg s H).db.trackers (l, u) = none) := by
  have : u ∈ outdatedUsers cfg s H := by
    rw [mem_outdated_iff]; exact ⟨hk, ui, hm, hdue⟩
  refine ⟨?_, ?_, ?_, ?_⟩
  · rw [gkConnect_mem_users]; simp [this]
  · rw [gkConnect_db_users]; simp [this]
  · intro l; rw [gkConnect_db_appts]; simp [this]
  · intro l; rw [gkConnect_db_trackers]; simp [this]

/-- **height_follows_chain**: connecting sets the gatekeeper's height to the block's, disconnecting
to the parent's: heights moving backwards in a reorg are what the comparisons above see. -/
theorem height_follows_chain (cfg : Cfg) (s : Tower) (node : Node) (b H : Nat) :
    (gkConnect cfg s H).mem.gkHeight = H ∧ (disconnectBlock s b H).mem.gkHeight = H - 1 := by
  refine ⟨gkConnect_height cfg s H, ?_⟩
  simp [disconnectBlock, watcherDisconnect, respDisconnect]

/-- non-vacuity: a concrete user at a concrete height hits both sides of the purge boundary -/
example :
    let s := (register { slots := 2, duration := 10, grace := 3 } (boot Db.empty 100 []) 7).1
    (gkConnect { slots := 2, duration := 10, grace := 3 } s 112).mem.users 7 ≠ none ∧
    (gkConnect { slots := 2, duration := 10, grace := 3 } s 113).mem.users 7 = none := by
  decide

/-! ### whole histories -/

/-- **nobody_outlives_expiry_plus_grace**: start a fresh tower and run ANY valid history (requests,
connected and disconnected blocks — heights moving backwards included —, any node behaviour, no bound
on length). In the state reached, every user the tower still holds has `expiry + grace` strictly ahead
of the tower's height: a user whose promised deletion height has been connected is gone, whatever
happened in between (renewals, reorgs, refunds, breaches). -/
theorem nobody_outlives_expiry_plus_grace (cfg : Cfg) (hpos : 0 < cfg.duration + cfg.grace) (height : Nat)
    (blocks : List (Nat × List TxId)) (hnd : (blocks.map (·.1)).Nodup) (hh : height < u32Max)
    (hist : List (Node × Op)) (hv : HistoryValidE cfg (boot Db.empty height blocks) hist)
    (u : User) (ui : UserInfo) :
    let s := runHistory cfg (boot Db.empty height blocks) hist
    s.mem.users u = some ui → s.mem.gkHeight < ui.expiry + cfg.grace := by
  intro s hu
  have e := einv_history cfg hpos hist _ (einv_boot cfg height blocks hnd hh) hv
  exact e.fresh u (ui.start, ui.expiry) (by unfold window?; rw [hu]; rfl)

/-- **only_the_gatekeeper_moves_windows**: the watcher's and the responder's block handlers and every
`add_appointment` leave the gatekeeper's height and every user's subscription window (start, expiry)
exactly as they were — refunds and charges touch balances only. -/
theorem only_the_gatekeeper_moves_windows (s : Tower) (node : Node) (b height : Nat) (txs : List TxId)
    (sg : Option User) (l : Loc) (blob : Blob) (t us : Nat) (u : User) :
    window? (watcherConnect s node b height txs).1 u = window? s u ∧
    window? (respConnect s node b height txs).1 u = window? s u ∧
    window? (addAppointment s node sg l blob t us).1 u = window? s u :=
  ⟨(gkSame_watcherConnect s node b height txs).win u, (gkSame_respConnect s node b height txs).win u,
   (gkSame_addAppointment s node sg l blob t us).win u⟩

/-- the invariant is kept by every valid operation from any state satisfying it -/
theorem expiry_invariant_step (cfg : Cfg) (s : Tower) (node : Node) (op : Op) (h : EInv cfg s)
    (hpos : 0 < cfg.duration + cfg.grace) (hv : OpValid s op) (he : OpValidE s op) :
    EInv cfg (step cfg s node op).1 := einv_step cfg s node op h hpos hv he

/-- non-vacuity: a user registered at 100 (duration 3, grace 2) is gone once block 105 is connected, and
was still there after block 104 -/
example :
    let cfg : Cfg := { slots := 3, duration := 3, grace := 2 }
    let node : Node := { send := fun _ => .ok, get := fun _ => .rpc (-5) }
    let s0 := (register cfg (boot Db.empty 100 []) 7).1
    let s4 := (connectBlock cfg (connectBlock cfg (connectBlock cfg (connectBlock cfg s0 node 1 101 []).1 node 2 102 []).1
      node 3 103 []).1 node 4 104 []).1
    (s4.mem.users 7).isSome = true ∧ ((connectBlock cfg s4 node 5 105 []).1.mem.users 7).isSome = false := by decide

end Teos.C09
