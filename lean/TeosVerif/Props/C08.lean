/-
C08 — Receipts bind exactly what the tower took on; stored data reads back intact.

In the model a receipt is its fields; `Props/C16.lean` proves that the byte strings that get signed
(`to_vec`) determine those fields, `Props/C17.lean` that a signature binds signer and message. Here:
the fields of the receipt are the persisted / current values, a receipt is issued only for something
the tower took on, and reading back returns what was accepted.
-/
import TeosVerif.Lemmas.Tower
import TeosVerif.Model.Admin
import TeosVerif.Lemmas.TowerInv
import TeosVerif.Lemmas.TowerRead

namespace Teos.C08
open Teos

/-- **reg_receipt_binds**: the registration receipt carries exactly the subscription the tower
holds (memory) and persisted (disk) after the request. -/
theorem reg_receipt_binds (cfg : Cfg) (s : Tower) (u : User) (sl st e : Nat)
    (hsync : s.db.users u = s.mem.users u)
    (h : (register cfg s u).2 = .registered sl st e) :
    (register cfg s u).1.mem.users u = some { slots := sl, start := st, expiry := e } ∧
    (register cfg s u).1.db.users u = some { slots := sl, start := st, expiry := e } := by
  unfold register addUpdateUser at *
  cases hm : s.mem.users u with
  | some ui =>
    simp only [hm] at h ⊢
    by_cases hx : ui.slots + cfg.slots > u32Max
    · simp [hx] at h
    · simp only [hx, ↓reduceIte, Reply.registered.injEq] at h ⊢
      obtain ⟨h1, h2, h3⟩ := h
      subst h1; subst h2; subst h3
      rw [hm] at hsync
      simp [Db.updateUser, hsync]
  | none =>
    simp only [hm] at h ⊢
    rw [hm] at hsync
    simp only [Db.storeUser, hsync, Reply.registered.injEq] at h ⊢
    obtain ⟨h1, h2, h3⟩ := h
    subst h1; subst h2; subst h3
    simp

/-- **appt_receipt_binds**: the appointment receipt carries the user's own signature and the
watcher's height at acceptance; the balance and expiry told are the user's after the request. -/
theorem appt_receipt_binds (s : Tower) (node : Node) (signer : Option User) (loc : Loc) (blob : Blob)
    (tsd usig : Nat) (st sg av e : Nat)
    (h : (addAppointment s node signer loc blob tsd usig).2.1 = .accepted st sg av e) :
    st = s.mem.wHeight ∧ sg = usig ∧
    ∃ u ui, authCheck s signer = .ok (u, ui) ∧ e = ui.expiry ∧
      ((addAppointment s node signer loc blob tsd usig).1.mem.users u).map (·.slots) = some av ∧
      ((addAppointment s node signer loc blob tsd usig).1.mem.users u).map (·.expiry) = some e := by
  unfold addAppointment at h ⊢
  cases ha : authCheck s signer with
  | error r =>
    simp only [ha] at h
    have : r = .authFail ∨ ∃ e, r = .expired e := by
      unfold authCheck at ha
      cases signer with
      | none => simp at ha; exact Or.inl ha.symm
      | some v =>
        cases hu : s.mem.users v with
        | none => simp [hu] at ha; exact Or.inl ha.symm
        | some vi =>
          simp only [hu] at ha
          by_cases he : Gen.subscriptionExpired s.mem.gkHeight vi.expiry = true
          · simp [he] at ha; exact Or.inr ⟨_, ha.symm⟩
          · simp [he] at ha
    rcases this with h1 | ⟨e', h1⟩ <;> simp [h1] at h
  | ok p =>
    obtain ⟨u, ui⟩ := p
    simp only [ha] at h ⊢
    by_cases ht : (s.db.trackers (loc, u)).isSome = true
    · simp [ht] at h
    · simp only [ht, Bool.false_eq_true, ↓reduceIte] at h ⊢
      -- the charge
      have hmu : s.mem.users u = some ui := by
        unfold authCheck at ha
        cases signer with
        | none => simp at ha
        | some v =>
          cases hu : s.mem.users v with
          | none => simp [hu] at ha
          | some vi =>
            simp only [hu] at ha
            by_cases he : Gen.subscriptionExpired s.mem.gkHeight vi.expiry = true
            · simp [he] at ha
            · simp only [he, Bool.false_eq_true, ↓reduceIte, Except.ok.injEq, Prod.mk.injEq] at ha
              obtain ⟨h1, h2⟩ := ha
              subst h1; subst h2; exact hu
      unfold addUpdateAppointment at h ⊢
      simp only [hmu] at h ⊢
      by_cases hf : Gen.slotsFit ((slotsOf blob.len : Int) - (slotsOf ((Option.map (fun a => a.blob.len) (s.db.appts (loc, u))).getD 0) : Int)) (ui.slots : Int) = true
      · simp only [hf, ↓reduceIte, Reply.accepted.injEq] at h ⊢
        obtain ⟨h1, h2, h3, h4⟩ := h
        refine ⟨h1.symm, h2.symm, u, ui, rfl, h4.symm, ?_, ?_⟩
        · subst h3
          split
          · rw [(storeTriggered_users _ node (loc, u) _ _).1]; simp
          · rw [(storeAppointment_users _ (loc, u) _).1]; simp
        · subst h4
          split
          · rw [(storeTriggered_users _ node (loc, u) _ _).1]; simp
          · rw [(storeAppointment_users _ (loc, u) _).1]; simp
      · simp [hf] at h

/-- **receipt_only_if_taken** (no recent dispute): when the locator is not in the cache and nothing
aborts, an accepted submission is in the appointments table afterwards, with exactly the submitted
blob, delay, signature and the start block of the receipt. -/
theorem receipt_only_if_taken_stored (s : Tower) (node : Node) (signer : Option User) (loc : Loc)
    (blob : Blob) (tsd usig : Nat) (st sg av e : Nat)
    (h : (addAppointment s node signer loc blob tsd usig).2.1 = .accepted st sg av e)
    (hc : s.mem.cache.get loc = none)
    (hna : (addAppointment s node signer loc blob tsd usig).1.aborted = none) (hs0 : s.aborted = none) :
    ∃ u a, signer = some u ∧ (addAppointment s node signer loc blob tsd usig).1.db.appts (loc, u) = some a ∧
      a.blob = blob ∧ a.tsd = tsd ∧ a.usig = usig ∧ a.start = st := by
  unfold addAppointment at h hna ⊢
  cases ha : authCheck s signer with
  | error r =>
    exfalso
    simp only [ha] at h
    unfold authCheck at ha
    cases signer with
    | none => simp at ha; subst ha; simp at h
    | some v =>
      cases hu : s.mem.users v with
      | none => simp [hu] at ha; subst ha; simp at h
      | some vi =>
        simp only [hu] at ha
        by_cases he : Gen.subscriptionExpired s.mem.gkHeight vi.expiry = true
        · simp [he] at ha; subst ha; simp at h
        · simp [he] at ha
  | ok p =>
    obtain ⟨u, ui⟩ := p
    have hsg : signer = some u := by
      unfold authCheck at ha
      cases signer with
      | none => simp at ha
      | some v =>
        cases hu : s.mem.users v with
        | none => simp [hu] at ha
        | some vi =>
          simp only [hu] at ha
          by_cases he : Gen.subscriptionExpired s.mem.gkHeight vi.expiry = true
          · simp [he] at ha
          · simp only [he, Bool.false_eq_true, ↓reduceIte, Except.ok.injEq, Prod.mk.injEq] at ha
            rw [ha.1]
    simp only [ha] at h hna ⊢
    by_cases ht : (s.db.trackers (loc, u)).isSome = true
    · simp [ht] at h
    · simp only [ht, Bool.false_eq_true, ↓reduceIte] at h hna ⊢
      cases hau : addUpdateAppointment s u (loc, u) blob.len with
      | mk s1 r =>
        cases r with
        | none => simp [hau] at h
        | some avail =>
          simp only [hau] at h hna ⊢
          have hcache : s1.mem.cache = s.mem.cache := by
            have : s1 = (addUpdateAppointment s u (loc, u) blob.len).1 := by rw [hau]
            rw [this]; unfold addUpdateAppointment
            split
            · simp [abort_mem]
            · simp only; split <;> rfl
          have hw : s1.mem.wHeight = s.mem.wHeight := by
            have : s1 = (addUpdateAppointment s u (loc, u) blob.len).1 := by rw [hau]
            rw [this]; unfold addUpdateAppointment
            split
            · simp [abort_mem]
            · simp only; split <;> rfl
          rw [hcache, hc] at hna ⊢
          simp only [Reply.accepted.injEq] at h hna ⊢
          obtain ⟨h1, _, _, _⟩ := h
          refine ⟨u, ?_⟩
          unfold storeAppointment at hna ⊢
          cases hex : s1.db.appts (loc, u) with
          | some old =>
            simp only [hex] at hna ⊢
            simp only [Db.updateAppt, hex] at hna ⊢
            exact ⟨{ old with blob := blob, tsd := tsd, usig := usig, start := s.mem.wHeight }, hsg, by simp, rfl, rfl, rfl, h1⟩
          | none =>
            simp only [hex] at hna ⊢
            cases hst : s1.db.storeAppt (loc, u) { loc := loc, user := u, blob := blob, tsd := tsd, usig := usig, start := s.mem.wHeight } with
            | none =>
              exfalso
              simp only [hst] at hna
              unfold Tower.abort at hna
              split at hna
              · rename_i site hsite
                -- s1.aborted = some: but the charge does not abort from a non-aborted state with a known user
                have : s1.aborted = none := by
                  have e1 : s1 = (addUpdateAppointment s u (loc, u) blob.len).1 := by rw [hau]
                  have e2 : (addUpdateAppointment s u (loc, u) blob.len).2 = some avail := by rw [hau]
                  rw [e1]; unfold addUpdateAppointment at e2 ⊢
                  split
                  · rename_i hnone; simp [hnone] at e2
                  · simp only; split <;> exact hs0
                rw [this] at hsite; cases hsite
              · cases hna
            | some db' =>
              simp only [hst] at hna ⊢
              unfold Db.storeAppt at hst
              split at hst
              · cases hst
                exact ⟨{ loc := loc, user := u, blob := blob, tsd := tsd, usig := usig, start := s.mem.wHeight }, hsg, by simp, rfl, rfl, rfl, h1⟩
              · cases hst

/-- **readback**: what `get_appointment` returns for a stored, untriggered appointment is the row:
its locator, blob and delay, byte for byte. -/
theorem readback (s : Tower) (signer : Option User) (loc : Loc) (u : User) (ui : UserInfo) (a : Appt)
    (ha : authCheck s signer = .ok (u, ui)) (hrow : s.db.appts (loc, u) = some a)
    (hnt : s.db.trackers (loc, u) = none) :
    getAppointment s signer loc = .appt a.loc a.blob a.tsd := by
  unfold getAppointment; rw [ha]; simp [hrow, hnt]

/-- **update_in_place**: replacing a stored appointment overwrites blob, delay, signature and start
block and nothing else. -/
theorem update_in_place (s : Tower) (k : Uuid) (a old : Appt) (hrow : s.db.appts k = some old) :
    (storeAppointment s k a).db.appts k =
      some { old with blob := a.blob, tsd := a.tsd, usig := a.usig, start := a.start } := by
  simp [storeAppointment, hrow, Db.updateAppt]

set_option maxRecDepth 20000 in
/-- non-vacuity: register, submit, read back -/
example :
    let cfg : Cfg := { slots := 3, duration := 10, grace := 3 }
    let node : Node := { send := fun _ => .ok, get := fun _ => .rpc (-5) }
    let s := (register cfg (boot Db.empty 100 []) 7).1
    let r := addAppointment s node (some 7) 4 (.enc 64 80 300) 20 5
    r.2.1 = .accepted 100 5 2 110 ∧ getAppointment r.1 (some 7) 4 = .appt 4 (.enc 64 80 300) 20 := ⟨rfl, rfl⟩

/-! ### the admin's view (private API) -/

theorem length_filter_split {α : Type} (p q : α → Bool) : ∀ (l : List α),
    (l.filter fun x => p x && q x).length + (l.filter fun x => p x && !q x).length = (l.filter p).length
  | [] => rfl
  | x :: r => by
    have ih := length_filter_split p q r
    cases hp : p x <;> cases hq : q x <;> simp [List.filter, hp, hq] <;> omega

/-- **admin_view_partitions**: in a consistent database every appointment row is counted exactly once by
`get_tower_info`: as a watcher appointment (no tracker) or as a responder tracker — what the public API
reports as `being_watched` and `dispute_responded`. -/
theorem admin_view_partitions (s : Tower) (h : DbInv s.db) :
    (adminTowerInfo s).nAppointments + (adminTowerInfo s).nTrackers = s.db.liveAppts.length := by
  unfold adminTowerInfo watcherAppts Db.liveTrackers Db.liveAppts
  simp only [List.filter_filter]
  have e : (s.db.apptKeys.filter fun k => (s.db.trackers k).isSome) =
      s.db.apptKeys.filter fun k => (s.db.appts k).isSome && (s.db.trackers k).isSome := by
    apply List.filter_congr
    intro k _
    cases ht : s.db.trackers k with
    | none => simp
    | some t => simp [(h.tracker_fk k t ht).1]
  rw [e]
  have := length_filter_split (fun k => (s.db.appts k).isSome) (fun k => (s.db.trackers k).isSome) s.db.apptKeys
  have e2 : (s.db.apptKeys.filter fun k => (s.db.trackers k).isNone && (s.db.appts k).isSome) =
      s.db.apptKeys.filter fun k => (s.db.appts k).isSome && !(s.db.trackers k).isSome := by
    apply List.filter_congr
    intro k _
    cases s.db.trackers k <;> cases s.db.appts k <;> rfl
  rw [e2]
  omega

/-- what `get_user` lists for a user is what `get_subscription_info` tells that user -/
theorem admin_user_is_what_the_user_sees (s : Tower) (u : User) (ui : UserInfo)
    (hu : s.mem.users u = some ui) (hne : Gen.subscriptionExpired s.mem.gkHeight ui.expiry = false) :
    adminUser s u = some (ui.slots, ui.expiry, s.db.userLocators u) ∧
    getSubscriptionInfo s (some u) = .subscription ui.slots ui.expiry (s.db.userLocators u) := by
  constructor
  · unfold adminUser; rw [hu]; rfl
  · unfold getSubscriptionInfo authCheck
    simp [hu, hne]


/-! ### reading back, for whole histories -/

/-- **stored_version_is_the_last_accepted**: start the tower on an empty database and run ANY valid history
(any requests by any users, blocks, reorgs, node behaviour). In the state reached, every appointment row
carries exactly the blob of the LAST submission the tower accepted (answered with a receipt) for that
user and locator — `lastFor` reads the chronological ghost record of accepted submissions kept by `runG`.
Nothing else ever writes a blob: the other operations only delete rows, an accepted update either
replaces the row or takes it away (dropped as undecryptable or rejected), never leaves the old version
behind. -/
theorem stored_version_is_the_last_accepted (cfg : Cfg) (height : Nat) (blocks : List (Nat × List TxId))
    (hnd : (blocks.map (·.1)).Nodup) (hist : List (Node × Op))
    (hv : HistoryValid cfg (boot Db.empty height blocks) hist) (k : Uuid) (a : Appt) :
    let start : Tower × Ghost := (boot Db.empty height blocks, { seen := blocks.flatMap (·.2), accepted := [], sent := [] })
    (runG cfg start hist).1.db.appts k = some a →
    lastFor k (runG cfg start hist).2.accepted = some a.blob := by
  intro start h
  have hinv : GInv start := by
    refine ⟨just_boot _ _ _ _ (fun k t h => by cases h) ?_, ?_, fun tx h => by cases h⟩
    · intro b hb x hx
      exact List.mem_flatMap.2 ⟨b, hb, hx⟩
    · intro k b h
      obtain ⟨a, ha, _⟩ := h
      cases ha
  exact readsBack_runG cfg hist start hinv (tinv_boot Db.empty height blocks DbInv.empty hnd) hv
    (fun k a h => by cases h) k a h

/-- **get_appointment_returns_the_last_accepted_version**: in the same setting, what `get_appointment`
answers to the (authenticated, not expired) owner of a stored, untriggered appointment is the blob of the last
submission accepted for that locator, byte for byte. -/
theorem get_appointment_returns_the_last_accepted_version (cfg : Cfg) (height : Nat)
    (blocks : List (Nat × List TxId)) (hnd : (blocks.map (·.1)).Nodup) (hist : List (Node × Op))
    (hv : HistoryValid cfg (boot Db.empty height blocks) hist)
    (signer : Option User) (loc : Loc) (u : User) (ui : UserInfo) (a : Appt) :
    let start : Tower × Ghost := (boot Db.empty height blocks, { seen := blocks.flatMap (·.2), accepted := [], sent := [] })
    let s := (runG cfg start hist).1
    authCheck s signer = .ok (u, ui) → s.db.appts (loc, u) = some a → s.db.trackers (loc, u) = none →
    getAppointment s signer loc = .appt a.loc a.blob a.tsd ∧
    lastFor (loc, u) (runG cfg start hist).2.accepted = some a.blob := by
  intro start s ha hrow hnt
  exact ⟨readback s signer loc u ui a ha hrow hnt,
    stored_version_is_the_last_accepted cfg height blocks hnd hist hv (loc, u) a hrow⟩

/-- one accepted submission: the row under its key, if there is one afterwards, is the submitted blob -/
theorem accepted_row_is_the_submitted_blob (s : Tower) (node : Node) (sg : Option User) (l : Loc) (b : Blob)
    (t w : Nat) (usr : User) (ui : UserInfo) (ha : authCheck s sg = .ok (usr, ui)) (st us av ex : Nat)
    (hacc : (addAppointment s node sg l b t w).2.1 = .accepted st us av ex) (a : Appt)
    (h : (addAppointment s node sg l b t w).1.db.appts (l, usr) = some a) : a.blob = b :=
  add_row_is_new s node sg l b t w usr ui ha st us av ex hacc a h

set_option maxRecDepth 20000 in
/-- non-vacuity: two versions accepted for the same locator, a block in between; the second is what is stored -/
example :
    let cfg : Cfg := { slots := 3, duration := 10, grace := 3 }
    let node : Node := { send := fun _ => .ok, get := fun _ => .rpc (-5) }
    let hist : List (Node × Op) := [(node, .register 7), (node, .add (some 7) 4 (.enc 64 80 300) 20 5),
      (node, .connect 200 101 []), (node, .add (some 7) 4 (.enc 64 81 2100) 21 6)]
    let start : Tower × Ghost := (boot Db.empty 100 [], { seen := [], accepted := [], sent := [] })
    ((runG cfg start hist).1.db.appts (4, 7)).map (·.blob) = some (.enc 64 81 2100) ∧
    lastFor (4, 7) (runG cfg start hist).2.accepted = some (.enc 64 81 2100) := by decide

end Teos.C08
