/-
C14 — The client trusts a tower only on valid signatures and survives any reply.

Model: `Model/Plugin.lean` (`classify`, the handler, `Retrier::run`, `registertower`) over
`Model/Client.lean`. Signature checking itself is C17; here a reply is already classified the
way `net::http` classifies it (wrong signer / unparsable / …) and the theorems say what the client
does with each class. "Survives": every handler keeps the client's invariant, so no store
constraint is ever violated and no `unwrap` on a store result fires; that the classification
itself cannot panic (undecodable signature, non-JSON, …) is checked on the real binary by the
correspondence run (monitor `no_answer`).
-/
import TeosVerif.Lemmas.Plugin
import TeosVerif.Gen.PluginCalls
import TeosVerif.Lemmas.ClientFlag
import TeosVerif.Props.C18

namespace Teos.C14
open Teos.Client Teos.Plugin

/-- **a registration is recorded only if it strictly extends the known subscription**: for a
known tower `add_update_tower` succeeds exactly when the receipt has a later expiry and more
slots than what is stored; otherwise nothing changes. An unknown tower is recorded as is. -/
theorem registration_recorded_iff (c : Client) (h : Inv c) (t : TowerId) (a : Nat) (r : RegReceipt) :
    ((c.addUpdateTower t a r).2 = .ok ↔
      (c.towers t = none ∨ ∃ sm row, c.towers t = some sm ∧ c.store.towers t = some row ∧
        sm.expiry < r.expiry ∧ row.slots < r.slots)) ∧
    ((c.addUpdateTower t a r).2 ≠ .ok → (c.addUpdateTower t a r).1 = c) := by
  unfold Client.addUpdateTower
  cases ht : c.towers t with
  | none =>
    have hnone := h.sync_none t ht
    have hregs : c.store.regs t = [] := h.wf.gone_regs t hnone
    have hstore : c.store.storeTowerRecord t a r ≠ none := by
      unfold Store.storeTowerRecord; simp [hregs]
    cases hs : c.store.storeTowerRecord t a r with
    | none => exact absurd hs hstore
    | some st => simp
  | some old =>
    obtain ⟨row, r0, a1, a2, a3, a4, a5, a6, a7, a8, a9⟩ := h.sync_some t old ht
    simp only
    by_cases hexp : r.expiry ≤ old.expiry
    · simp only [hexp, ↓reduceIte, reduceCtorEq, false_iff, not_or, not_exists, not_and,
        not_false_eq_true, true_and, ne_eq, implies_true, and_true]
      intro sm row' hsm _ hlt
      simp only [Option.some.injEq] at hsm; subst hsm
      omega
    · simp only [hexp, ↓reduceIte]
      have hload : c.store.loadSummary t = some
          { addr := row.addr, slots := row.slots, start := r0.start, expiry := r0.expiry,
            status := reconStatus (c.store.proofs t).isSome (locsOf c.store.pending t),
            pending := locsOf c.store.pending t, invalid := locsOf c.store.invalid t } := by
        unfold Store.loadSummary; simp [a1, a2]
      rw [hload]
      simp only
      by_cases hsl : r.slots ≤ row.slots
      · simp only [hsl, ↓reduceIte, reduceCtorEq, false_iff, not_or, not_exists, not_and,
          not_false_eq_true, true_and, ne_eq, implies_true, and_true]
        intro sm row' _ hrow _
        rw [a1] at hrow; simp only [Option.some.injEq] at hrow; subst hrow
        omega
      · simp only [hsl, ↓reduceIte]
        have hmax := maxReg_mem _ _ a2
        have hstore : c.store.storeTowerRecord t a r ≠ none := by
          unfold Store.storeTowerRecord
          have : (c.store.regs t).any (fun x => decide (x.expiry = r.expiry)) = false := by
            rw [List.any_eq_false]
            intro x hx
            have := hmax.2 x hx
            simp; omega
          simp [this]
        cases hs : c.store.storeTowerRecord t a r with
        | none => exact absurd hs hstore
        | some st =>
          simp only [true_iff, ne_eq, not_true_eq_false, false_implies, and_true]
          right
          exact ⟨old, row, rfl, a1, by omega, by omega⟩

/-- `registertower`: a receipt signed by somebody else, or a reply that is no receipt at all,
records nothing and is reported as an error -/
theorem bad_registration_not_recorded (s : St) (t : TowerId)
    (hb : (s.beh t).down = false) (hr : (s.beh t).reg = .wrongSigner ∨ (s.beh t).reg = .garbage) :
    (s.register t).1.client = s.client ∧ (s.register t).2 ≠ .ok := by
  unfold St.register St.registerCore
  have hb' : ((s.grow t).beh t) = s.beh t := by unfold St.grow; split <;> rfl
  rw [hb', hb]
  simp only [Bool.false_eq_true, ↓reduceIte]
  rcases hr with hr | hr <;> rw [hr] <;> simp [towerRegisters_client, grow_client]

/-- **a wrong signer is flagged and the proof persisted**: on the notification path -/
theorem wrong_signer_flags (s : St) (t : TowerId) (l : Loc) (h : Inv s.client) (sm : Summary)
    (ht : s.client.towers t = some sm) (hst : sm.status = .reachable)
    (hnew : (s.client.store.rcpts t l).isSome = false) (hninv : sm.invalid.contains l = false)
    (hc : classify (s.beh t) = .wrongSigner) :
    let s' := (hookTower s t l).1
    s'.status t = some .misbehaving ∧ (s'.client.store.proofs t).isSome = true ∧
    (hookTower s t l).2 = false := by
  unfold hookTower
  simp only [ht, hnew, hninv, Bool.or_self, Bool.false_eq_true, ↓reduceIte, hst, hc]
  have := flagMisbehaving_status h ht { loc := l, recovered := 99 } rcpt
  exact ⟨by simpa [St.status, St.withClient] using this.1, by simpa [St.withClient] using this.2, trivial⟩

/-- … and on the retry path: the retrier fails for good and the tower is flagged -/
theorem wrong_signer_flags_on_retry (c : Client) (h : Inv c) (t : TowerId) (sm : Summary)
    (ht : c.towers t = some sm) (l : Loc) (ls : List Loc) :
    (sendAll c t .wrongSigner (l :: ls)).2 = .misbehaving ∧
    ((sendAll c t .wrongSigner (l :: ls)).1.store.proofs t).isSome = true ∧
    ((sendAll c t .wrongSigner (l :: ls)).1.towers t).map (·.status) = some .misbehaving := by
  simp only [sendAll]
  have := flagMisbehaving_status h ht { loc := l, recovered := 99 } rcpt
  exact ⟨trivial, this.2, this.1⟩

/-- **nothing more is sent to a misbehaving tower**: its turn in the handler is a no-op and no
retrier is started for it -/
theorem misbehaving_gets_nothing (s : St) (t : TowerId) (l : Loc) (sm : Summary)
    (ht : s.client.towers t = some sm) (hst : sm.status = .misbehaving) :
    hookTower s t l = (s, false) := by
  unfold hookTower
  simp only [ht, hst]
  split <;> rfl

/-- the flag is final: no status update overwrites it (the defect repaired by fix 1016a28) … -/
theorem misbehaving_is_sticky (c : Client) (t : TowerId) (sm : Summary) (st : TStatus)
    (ht : c.towers t = some sm) (hst : sm.status = .misbehaving) : c.setStatus t st = c := by
  unfold Client.setStatus
  simp [ht, hst]

/-- … and a manual retry of a misbehaving tower is refused -/
theorem misbehaving_not_retried (s : St) (t : TowerId) (sm : Summary)
    (ht : s.client.towers t = some sm) (hst : sm.status = .misbehaving) (hidle : s.idle t = false)
    (hrun : s.running t = false) :
    s.manualRetry t = (s, .errStatus) := by
  unfold St.manualRetry St.status
  simp [ht, hst, hidle, hrun, TStatus.isRetryable]

/-- **every reply has a handler that leaves the client consistent** (hence alive: no store
constraint violated, no poisoned state): on the notification path, … -/
theorem every_reply_handled_on_notification (s : St) (t : TowerId) (l : Loc) (h : Inv s.client) :
    Inv (hookTower s t l).1.client ∧ (hookTower s t l).1.client.dead = false :=
  let k := (keeps_hookTower s t l).inv h
  ⟨k, k.alive⟩

/-- … on the retry path, for any number of back-off rounds, … -/
theorem every_reply_handled_on_retry (s : St) (t : TowerId) (locs : List Loc) (h : Inv s.client) :
    Inv (s.retry t locs).client ∧ (s.retry t locs).client.dead = false :=
  let k := (keeps_retry s t locs).inv h
  ⟨k, k.alive⟩

/-- … and for `registertower`. The behaviour `s.beh` is arbitrary in all three. -/
theorem every_reply_handled_on_register (s : St) (t : TowerId) (h : Inv s.client) :
    Inv (s.register t).1.client ∧ (s.register t).1.client.dead = false :=
  let k := (keeps_registerCmd s t).inv h
  ⟨k, k.alive⟩

/-- the classification is total: every behaviour of a tower falls in one of the six classes
(by construction; listed so that a new class cannot be added without a handler) -/
theorem classify_total (b : Beh) :
    classify b = .accepted ∨ classify b = .connErr ∨ classify b = .unparsable ∨
    classify b = .subErr ∨ classify b = .rejected ∨ classify b = .wrongSigner := by
  cases h : classify b <;> simp

/-- non-vacuity: a tower signs with another key on the first notification; it is flagged, the
second notification does not reach it, a reload keeps it flagged -/
example :
    let s1 := (({} : St).step (.register 0)).1
    let s2 := (s1.step (.setBeh 0 { add := .wrongSigner })).1
    let s3 := (s2.step (.notify 1)).1
    let s4 := (s3.step (.setBeh 0 {})).1
    let s5 := (s4.step (.notify 2)).1
    let s6 := (s5.step .restart).1
    s3.status 0 = some .misbehaving ∧ (s5.client.store.rcpts 0 2).isSome = false ∧
    s5.client.store.pending = [] ∧ s6.status 0 = some .misbehaving := by
  decide

/-- **flagging_call_sites_are_the_modelled_ones** (tie to the source, regenerated on every run): a tower is
flagged as misbehaving only by the notification handler and by `Retrier::start` (on the proof `run` returns);
registration receipts are recorded only by `register` and by `Retrier::run`; the five statuses and their
display names are the model's. -/
theorem flagging_call_sites_are_the_modelled_ones :
    Gen.PluginCalls.flagMisbehaving = [("main", "on_commitment_revocation", ""), ("retrier", "start", "")] ∧
    Gen.PluginCalls.addUpdateTower = [("main", "register", ""), ("retrier", "run", "")] ∧
    Gen.PluginCalls.statusNames = [("Reachable", "reachable"), ("TemporaryUnreachable", "temporary unreachable"),
      ("Unreachable", "unreachable"), ("SubscriptionError", "subscription error"), ("Misbehaving", "misbehaving")] := by
  decide


/-! ### the flag is final, for whole histories of client operations -/

/-- **misbehaving_is_final**: from any consistent client state in which the proof of tower `t`'s misbehaviour
is in the file, run ANY sequence of client operations — registrations (of `t` as well, with any receipt),
receipts, pending / invalid records, releases, status updates, flags for other towers, abandoning other
towers, restarts (`reload`) — that does not abandon `t`: the proof is still in the file, `t` is still
known, and its status is still `misbehaving`, in memory and after every reload. (Status updates that would
set `misbehaving` directly are not client operations: `Op.ok`.) -/
theorem misbehaving_is_final (ops : List Client.Op) (t : TowerId) : ∀ (c : Client), Client.Inv c →
    (∀ op ∈ ops, Teos.C18.Op.ok op) → (∀ op ∈ ops, op ≠ .abandon t) → Flagged c t →
    Flagged (c.run ops) t ∧ ∃ sm, (c.run ops).towers t = some sm ∧ sm.status = .misbehaving := by
  induction ops with
  | nil =>
    intro c h _ _ hf
    refine ⟨hf, ?_⟩
    obtain ⟨sm, hsm⟩ := Option.isSome_iff_exists.mp hf.2
    obtain ⟨_, _, _, _, _, _, _, _, _, _, hst⟩ := h.sync_some t sm hsm
    exact ⟨sm, hsm, hst.mpr hf.1⟩
  | cons op rest ih =>
    intro c h hok hno hf
    simp only [Client.run, List.foldl_cons]
    exact ih _ (Teos.C18.inv_step c op h (hok op (by simp))) (fun o ho => hok o (by simp [ho]))
      (fun o ho => hno o (by simp [ho])) (flagged_step c op t h.wf hf (hno op (by simp)))

/-- flagging puts the proof in the file (the premise of `misbehaving_is_final` is what `flag_misbehaving_tower`
establishes) -/
theorem flagging_establishes_the_flag (c : Client) (h : Client.Inv c) (t : TowerId) (sm : Summary)
    (ht : c.towers t = some sm) (p : Proof) (r : ApptReceipt) (hok : (c.flagMisbehaving t p r).2 = .ok) :
    Flagged (c.flagMisbehaving t p r).1 t := by
  have hi := h.flagMisbehaving t p r
  revert hi hok
  unfold Client.flagMisbehaving
  simp only [ht]
  split
  · rename_i hmis
    intro _ _
    obtain ⟨_, _, _, _, _, _, _, _, _, _, hst⟩ := h.sync_some t sm ht
    exact ⟨hst.mp hmis, by rw [ht]; rfl⟩
  · split
    · intro hok; simp [Client.panic] at hok
    · rename_i st hst
      intro _ _
      unfold Store.storeProof at hst
      split at hst
      · simp only [Option.some.injEq] at hst; subst hst
        refine ⟨?_, ?_⟩
        · simp [Client.setSummary]
        · simp [Client.setSummary]
      · cases hst

/-- non-vacuity: flagged, then registered again with an extending receipt, fed a receipt, reloaded: still flagged -/
example :
    let r1 : RegReceipt := { slots := 10, start := 1, expiry := 100, sig := 0 }
    let r2 : RegReceipt := { slots := 20, start := 1, expiry := 200, sig := 0 }
    let c := Client.fresh.run [.register 0 7 r1, .misbehaving 0 { loc := 3, recovered := 9 } { start := 0, usig := 0, tsig := 0 },
      .register 0 7 r2, .receipt 0 4 19 { start := 0, usig := 0, tsig := 0 }, .reload, .status 0 .reachable]
    (c.towers 0).map (·.status) = some .misbehaving ∧ (c.store.proofs 0).isSome = true := by decide

end Teos.C14
