/-
C19 — Recent-block look-ups equal the last N blocks of the active chain.

Property theorems only (helpers live in `Lemmas/TxIndex.lean`). Everything is stated over an
arbitrary key/value type, any index size, any bootstrap and any *valid* history of unbounded
length (valid = block hashes and keys are not repeated inside the active chain; a reorg never
disconnects more blocks than the index holds).
-/
import TeosVerif.Lemmas.TxIndex
import TeosVerif.Gen.Calls

namespace Teos.C19
open Teos Teos.TxIndex
variable {K V : Type} [DecidableEq K]

def runT (t : TxIndex K V) (ops : List (Op K V)) : TxIndex K V := ops.foldl stepT t
def runC (C : Win K V) (ops : List (Op K V)) : Win K V := ops.foldl stepC C

/-- every operation of the history is valid in the state it is applied to -/
def ValidRun : TxIndex K V → Win K V → List (Op K V) → Prop
  | _, _, [] => True
  | t, C, op :: r => Valid t C op ∧ ValidRun (stepT t op) (stepC C op) r

/-- **Reachability**: the refinement invariant holds after bootstrap and after every valid
history, whatever its length. -/
theorem inv_reachable (bl : Win K V) (height : Nat) (hpos : 0 < bl.length) (hh : bl.length ≤ height)
    (hnb : (bl.map (·.1)).Nodup) (hnk : (allKeys bl).Nodup) (ops : List (Op K V))
    (hv : ValidRun (TxIndex.new bl height) bl ops) :
    Inv (runT (TxIndex.new bl height) ops) (runC bl ops) (height - bl.length) := by
  have h0 := inv_new bl height hpos hh hnb hnk
  generalize height - bl.length = base at h0
  generalize TxIndex.new bl height = t at h0 hv
  generalize hC : bl = C at h0 hv
  clear hnb hnk hpos hh hC
  induction ops generalizing t C with
  | nil => exact h0
  | cons op r ih =>
    obtain ⟨h1, h2⟩ := hv
    exact ih _ _ (inv_step h0 op h1) h2

/-- the window the index holds: the last `|blocks|` blocks of the active chain -/
def window (t : TxIndex K V) (C : Win K V) : Win K V := C.drop (C.length - t.blocks.length)

theorem window_eq {t : TxIndex K V} {C : Win K V} {base : Nat} (inv : Inv t C base) :
    ∃ W, Rep t W (base + C.length) ∧ W = window t C := by
  obtain ⟨W, r, hs, _⟩ := inv
  refine ⟨W, r, ?_⟩
  have := List.suffix_iff_eq_drop.1 hs
  unfold window
  rw [r.blocks, List.length_map]
  exact this

/-- **index_refines_window**: in every reachable state a look-up returns exactly the entry of
the key in the last `|blocks|` blocks of the active chain. -/
theorem index_refines_window {t : TxIndex K V} {C : Win K V} {base : Nat} (inv : Inv t C base) (k : K) :
    t.get k = winLookup k (window t C) := by
  obtain ⟨W, r, hW⟩ := window_eq inv
  rw [← hW]; exact r.index k

theorem winLookup_some_mem {k : K} {v : V} : ∀ {W : Win K V}, winLookup k W = some v →
    ∃ blk ∈ W, (k, v) ∈ blk.2
  | [], h => by simp [winLookup] at h
  | (b, d) :: r, h => by
    simp only [winLookup] at h
    cases hl : TxIndex.lookup k d with
    | some v' =>
      rw [hl] at h
      simp only [Option.some.injEq] at h
      subst h
      refine ⟨(b, d), by simp, ?_⟩
      induction d with
      | nil => simp [TxIndex.lookup] at hl
      | cons x xs ih =>
        obtain ⟨k', w⟩ := x
        simp only [TxIndex.lookup] at hl
        by_cases e : k' = k
        · rw [if_pos e] at hl; simp only [Option.some.injEq] at hl; subst e; subst hl; simp
        · rw [if_neg e] at hl; exact List.mem_cons_of_mem _ (ih hl)
    | none =>
      rw [hl] at h
      obtain ⟨blk, hm, hk⟩ := winLookup_some_mem h
      exact ⟨blk, List.mem_cons_of_mem _ hm, hk⟩

/-- **no_stale**: a look-up never returns an entry of a disconnected or aged-out block: whatever
it returns is in one of the last `|blocks|` blocks of the *active* chain. -/
theorem no_stale {t : TxIndex K V} {C : Win K V} {base : Nat} (inv : Inv t C base) (k : K) (v : V)
    (h : t.get k = some v) : ∃ blk ∈ window t C, (k, v) ∈ blk.2 := by
  rw [index_refines_window inv k] at h
  exact winLookup_some_mem h

/-- **height_true**: `get_height` reports the true height of every block in the window (block
`i` of the active chain has height `base + i + 1`) and nothing for any other active block. -/
theorem height_true {t : TxIndex K V} {C : Win K V} {base : Nat} (inv : Inv t C base)
    (i : Nat) (hi : i < C.length) :
    t.getHeight (C[i]).1 =
      if C.length - t.blocks.length ≤ i then some (base + i + 1) else none := by
  obtain ⟨W, r, hs, hnb, _, _⟩ := inv
  have hW := List.suffix_iff_eq_drop.1 hs
  have hlen : t.blocks.length = W.length := by rw [r.blocks, List.length_map]
  have hWC : W.length ≤ C.length := hs.length_le
  unfold getHeight
  rw [hlen]
  by_cases hge : C.length - W.length ≤ i
  · rw [if_pos hge]
    -- the block is W[i - n]
    have hj : i - (C.length - W.length) < (W.map (·.1)).length := by
      rw [List.length_map]; omega
    have hidx : (W.map (·.1))[i - (C.length - W.length)] = (C[i]).1 := by
      simp only [List.getElem_map]
      have : W[i - (C.length - W.length)]'(by simpa using hj) = C[i] := by
        have h2 : (C.drop (C.length - W.length))[i - (C.length - W.length)]'(by
            rw [List.length_drop]; omega) = C[i] := by
          rw [List.getElem_drop]; congr 1; omega
        rw [← h2]; congr 1
      rw [this]
    rw [r.blocks, ← hidx, position_getElem _ hj r.nodupB]
    simp only [Option.map_some, Gen.txIndexHeight, r.tip]
    congr 1; omega
  · rw [if_neg hge]
    have hnot : (C[i]).1 ∉ W.map (·.1) := by
      intro hin
      rw [hW, List.map_drop] at hin
      obtain ⟨j, hm, he⟩ := List.mem_drop_iff_getElem.1 hin
      have hm' : C.length - W.length + j < (C.map (·.1)).length := by rw [List.length_map] at hm ⊢; omega
      have hi' : i < (C.map (·.1)).length := by rw [List.length_map]; exact hi
      have e2 : (C.map (·.1))[i]'hi' = (C[i]).1 := by simp
      rw [← e2] at he
      have := (List.getElem_inj (h₀ := hm') (h₁ := hi') hnb).1 he
      omega
    rw [r.blocks, position_none hnot]; rfl

/-- **window_length_connect / disconnect**: how many blocks the index holds. -/
theorem window_length_connect {t : TxIndex K V} {C : Win K V} {base : Nat} (inv : Inv t C base)
    (b : Nat) (d : List (K × V)) (hv : Valid t C (.conn b d)) :
    (stepT t (.conn b d)).blocks.length = min t.size (t.blocks.length + 1) := by
  obtain ⟨W, r, hs, _, _, hsz⟩ := inv
  obtain ⟨hb, hk⟩ := hv
  obtain ⟨p, hp⟩ := hs
  have hbW : b ∉ W.map (·.1) := by
    intro hin; apply hb; rw [← hp, List.map_append]; exact List.mem_append_right _ hin
  have hkW : (allKeys W ++ d.map (·.1)).Nodup := by
    rw [← hp, allKeys_append', List.append_assoc] at hk
    exact (List.nodup_append.1 hk).2.1
  have r' := rep_update r b d hbW hkW hsz
  have hl := r.len
  simp only [stepT]
  rw [r'.blocks, r.blocks, List.length_map, List.length_map]
  unfold winConnect
  split
  · simp only [List.length_tail, List.length_append, List.length_cons, List.length_nil]; omega
  · simp only [List.length_append, List.length_cons, List.length_nil]; omega

theorem window_length_disconnect {t : TxIndex K V} {C : Win K V} {base : Nat} (inv : Inv t C base)
    (b : Nat) (hv : Valid t C (.disc b)) :
    (stepT t (.disc b)).blocks.length = t.blocks.length - 1 := by
  obtain ⟨W, r, hs, _, _, _⟩ := inv
  obtain ⟨⟨C', d, hC⟩, hne⟩ := hv
  subst hC
  have hWne : W ≠ [] := by
    intro h0; apply hne; rw [r.blocks, h0]; rfl
  obtain ⟨W', hW, _⟩ := suffix_snoc_of_ne_nil hs hWne
  subst hW
  have r' := rep_disconnect r
  simp only [stepT]
  rw [r'.blocks, r.blocks]
  simp

/-- **exact_last_N_when_full**: whenever the index holds `size` blocks (always the case outside
the re-connection phase of a reorg: see `full_stays_full`), look-ups are exactly the entries of
the last N blocks of the active chain. -/
theorem exact_last_N_when_full {t : TxIndex K V} {C : Win K V} {base : Nat} (inv : Inv t C base)
    (hfull : t.blocks.length = t.size) (k : K) :
    t.get k = winLookup k (C.drop (C.length - t.size)) := by
  have := index_refines_window inv k
  unfold window at this
  rw [hfull] at this
  exact this

theorem full_stays_full {t : TxIndex K V} {C : Win K V} {base : Nat} (inv : Inv t C base)
    (hfull : t.blocks.length = t.size) (b : Nat) (d : List (K × V)) (hv : Valid t C (.conn b d)) :
    (stepT t (.conn b d)).blocks.length = (stepT t (.conn b d)).size := by
  rw [window_length_connect inv b d hv, hfull]
  simp only [stepT, update_size]
  omega

/-- the index is full right after bootstrap -/
theorem full_after_bootstrap (bl : Win K V) (height : Nat) (hpos : 0 < bl.length) (hh : bl.length ≤ height)
    (hnb : (bl.map (·.1)).Nodup) (hnk : (allKeys bl).Nodup) :
    (TxIndex.new bl height : TxIndex K V).blocks.length = (TxIndex.new bl height : TxIndex K V).size := by
  obtain ⟨W, r, hs, _, _, _⟩ := inv_new bl height hpos hh hnb hnk
  have hW := List.suffix_iff_eq_drop.1 hs
  have : (TxIndex.new bl height : TxIndex K V).size = bl.length := by
    unfold TxIndex.new; simp only; rw [foldl_update_size]; rfl
  rw [this, r.blocks, List.length_map]
  have h1 := r.len
  rw [this] at h1
  -- the represented window is the whole bootstrap list (see `inv_new`)
  have h2 : W.length ≤ bl.length := hs.length_le
  -- `inv_new` picks W = bl; recover the length from the suffix equation and the block list
  have r2 := rep_foldl_update bl (rep_empty (K := K) (V := V) bl.length height) hpos (by simp [TxIndex.empty])
    (by simpa using hnb) (by simpa using hnk)
  simp only [List.nil_append] at r2
  have hb : (TxIndex.new bl height : TxIndex K V).blocks = bl.map (·.1) := by
    unfold TxIndex.new; exact r2.blocks
  have := congrArg List.length (r.blocks.symm.trans hb)
  simpa using this

/-! ### The full statement and where the code falls short of it

Full statement (as given): *after any sequence* of connections and disconnections the look-ups
contain exactly the transactions of the most recent `N` blocks of the active chain.

This is false of the code (and of the model): after `k` disconnections the index holds `N - k`
blocks until `k` further blocks are connected; nothing re-fetches the older blocks. The witness
below is replayed on the real `TxIndex` by the correspondence check (fingerprint
`missing_after_reorg_deficit`). What *is* proved above: look-ups equal the last `|blocks|`
blocks always, never a stale entry, true heights, `|blocks| = N` outside that window. -/

/-- concrete non-vacuity + negative witness: N = 2, bootstrap `[b1:{k1}, b2:{k2}]` at height 100,
connect `b3:{k3}`, disconnect `b3`. The active chain ends `… b1 b2`, but `k1` is gone. -/
def wBoot : Win Nat Nat := [(1, [(1, 1)]), (2, [(2, 2)])]
def wOps : List (Op Nat Nat) := [.conn 3 [(3, 3)], .disc 3]

example : ValidRun (TxIndex.new wBoot 100) wBoot wOps := by
  refine ⟨⟨by decide, by decide⟩, ⟨⟨[(1, [(1, 1)]), (2, [(2, 2)])], [(3, 3)], rfl⟩, by decide⟩, trivial⟩

/-- the hypotheses of the theorems are met by this history (non-vacuity) and the look-ups are
as proved: `k2` is found in `b2` at true height 100 -/
example : (runT (TxIndex.new wBoot 100) wOps).get 2 = some 2 ∧
          (runT (TxIndex.new wBoot 100) wOps).getHeight 2 = some 100 := by decide

/-- **full_statement_fails**: in the reachable state above `k1` is in the last 2 blocks of the
active chain (`b1`, at height 99) yet the look-up misses it. -/
theorem full_statement_fails :
    winLookup 1 ((runC wBoot wOps).drop ((runC wBoot wOps).length - 2)) = some 1 ∧
    (runT (TxIndex.new wBoot 100) wOps).get 1 = none := by decide

/-- **the_tower_boots_its_lookups_from_the_most_recent_blocks** (tie to the source, regenerated on
every run): `main.rs` hands `Watcher::new` the first six blocks of the list `get_last_n_blocks`
returns (newest first) and `Responder::new` the whole list; the harness boots the real components
with exactly the slice the extractor read, and the model's `boot` takes the same blocks
(`C01.boot_lookups_cover_the_most_recent_blocks`). -/
theorem the_tower_boots_its_lookups_from_the_most_recent_blocks :
    Gen.Calls.watcherBoot = [("main", "main", "&last_n_blocks[0..6]")] ∧
    Gen.Calls.responderBoot = [("main", "main", "&last_n_blocks")] := by
  decide

end Teos.C19
