/-
C06 — Requests are authenticated and users are isolated from each other.

`signer : Option User` is what `recover_pk(m, signature)` yields for the message `m` the request
defines (`Model/Msg.lean` gives the byte-exact messages; the correspondence harness recomputes the
signer with its own construction of `m`). The theorems hold for every state, node behaviour,
locator, blob and signer.
-/
import TeosVerif.Lemmas.Tower
import TeosVerif.Lemmas.TowerJust
import TeosVerif.Lemmas.TowerInv

namespace Teos.C06
open Teos

/-- **auth_sound**: whoever gets through is a registered, non-expired user — the one the
signature recovers to. -/
theorem auth_sound (s : Tower) (signer : Option User) (u : User) (ui : UserInfo)
    (h : authCheck s signer = .ok (u, ui)) :
    signer = some u ∧ s.mem.users u = some ui ∧ s.mem.gkHeight < ui.expiry := by
  unfold authCheck at h
  cases signer with
  | none => simp at h
  | some v =>
    cases hu : s.mem.users v with
    | none => simp [hu] at h
    | some vi =>
      simp only [hu] at h
      by_cases he : Gen.subscriptionExpired s.mem.gkHeight vi.expiry = true
      · simp [he] at h
      · simp only [he] at h
        simp only [Bool.false_eq_true, ↓reduceIte, Except.ok.injEq, Prod.mk.injEq] at h
        obtain ⟨h1, h2⟩ := h
        subst h1; subst h2
        simp only [Gen.subscriptionExpired, decide_eq_true_eq] at he
        exact ⟨rfl, hu, by omega⟩

/-- the only errors of the authentication gate: authentication failure, or subscription expired -/
theorem authCheck_error_kind (s : Tower) (signer : Option User) (r : Reply)
    (h : authCheck s signer = .error r) : r = .authFail ∨ ∃ e, r = .expired e := by
  unfold authCheck at h
  cases signer with
  | none => simp at h; exact Or.inl h.symm
  | some v =>
    cases hu : s.mem.users v with
    | none => simp [hu] at h; exact Or.inl h.symm
    | some vi =>
      simp only [hu] at h
      by_cases he : Gen.subscriptionExpired s.mem.gkHeight vi.expiry = true
      · simp [he] at h; exact Or.inr ⟨_, h.symm⟩
      · simp [he] at h

/-- **success_implies_authenticated**: the three user requests answer with data only after
`authCheck` succeeded. -/
theorem success_implies_authenticated (s : Tower) (node : Node) (signer : Option User) (loc : Loc)
    (blob : Blob) (tsd usig : Nat) :
    (∀ st sg av e, (addAppointment s node signer loc blob tsd usig).2.1 = .accepted st sg av e →
        ∃ u ui, authCheck s signer = .ok (u, ui)) ∧
    (∀ l b t, getAppointment s signer loc = .appt l b t → ∃ u ui, authCheck s signer = .ok (u, ui)) ∧
    (∀ d p, getAppointment s signer loc = .tracker d p → ∃ u ui, authCheck s signer = .ok (u, ui)) ∧
    (∀ sl e ls, getSubscriptionInfo s signer = .subscription sl e ls → ∃ u ui, authCheck s signer = .ok (u, ui)) := by
  refine ⟨?_, ?_, ?_, ?_⟩
  · intro st sg av e h
    unfold addAppointment at h
    cases ha : authCheck s signer with
    | error r =>
      simp [ha] at h
      rcases authCheck_error_kind s signer r ha with h1 | ⟨e', h1⟩ <;> simp [h1] at h
    | ok p => exact ⟨p.1, p.2, rfl⟩
  · intro l b t h
    unfold getAppointment at h
    cases ha : authCheck s signer with
    | error r =>
      simp [ha] at h
      rcases authCheck_error_kind s signer r ha with h1 | ⟨e', h1⟩ <;> simp [h1] at h
    | ok p => exact ⟨p.1, p.2, rfl⟩
  · intro d p h
    unfold getAppointment at h
    cases ha : authCheck s signer with
    | error r =>
      simp [ha] at h
      rcases authCheck_error_kind s signer r ha with h1 | ⟨e', h1⟩ <;> simp [h1] at h
    | ok p => exact ⟨p.1, p.2, rfl⟩
  · intro sl e ls h
    unfold getSubscriptionInfo at h
    cases ha : authCheck s signer with
    | error r =>
      simp [ha] at h
      rcases authCheck_error_kind s signer r ha with h1 | ⟨e', h1⟩ <;> simp [h1] at h
    | ok p => exact ⟨p.1, p.2, rfl⟩

/-- **reject_no_change**: any other signature, message or key (recovery fails, or recovers to a
key that is not registered, or the subscription expired) yields an authentication/subscription
error and changes nothing. -/
theorem reject_no_change (s : Tower) (node : Node) (signer : Option User) (r : Reply)
    (h : authCheck s signer = .error r) (loc : Loc) (blob : Blob) (tsd usig : Nat) :
    addAppointment s node signer loc blob tsd usig = (s, r, []) ∧
    getAppointment s signer loc = r ∧ getSubscriptionInfo s signer = r ∧
    (r = .authFail ∨ ∃ e, r = .expired e) := by
  exact ⟨by simp [addAppointment, h], by simp [getAppointment, h], by simp [getSubscriptionInfo, h],
    authCheck_error_kind s signer r h⟩

/-- **isolation_frame**: a submission authenticated as `u` for locator `l` — whatever its outcome
(stored, update, triggered and responded, dropped as invalid or rejected, refused for lack of slots) —
leaves every other user's subscription record (in memory and on disk) and every appointment and
tracker stored under any other key untouched; in particular another user's appointment on the
*same* locator. -/
theorem isolation_frame (s : Tower) (node : Node) (signer : Option User) (l : Loc) (b : Blob)
    (tsd usig : Nat) (u : User) (ui : UserInfo) (ha : authCheck s signer = .ok (u, ui))
    (u' : User) (hne : u' ≠ u) (l' : Loc) :
    let s' := (addAppointment s node signer l b tsd usig).1
    s'.db.users u' = s.db.users u' ∧ s'.mem.users u' = s.mem.users u' ∧
    s'.db.appts (l', u') = s.db.appts (l', u') ∧ s'.db.trackers (l', u') = s.db.trackers (l', u') := by
  intro s'
  have f := frame_addAppointment s node signer l b tsd usig u ui ha
  have hk : ((l', u') : Uuid) ≠ (l, u) := fun e => hne (Prod.mk.inj e).2
  exact ⟨f.dbUsers u' hne, f.memUsers u' hne, f.appts _ hk, f.trackers _ hk⟩

/-- …and the requester's *other* appointments are untouched as well -/
theorem own_other_appointments_untouched (s : Tower) (node : Node) (signer : Option User) (l : Loc)
    (b : Blob) (tsd usig : Nat) (u : User) (ui : UserInfo) (ha : authCheck s signer = .ok (u, ui))
    (l' : Loc) (hne : l' ≠ l) :
    let s' := (addAppointment s node signer l b tsd usig).1
    s'.db.appts (l', u) = s.db.appts (l', u) ∧ s'.db.trackers (l', u) = s.db.trackers (l', u) := by
  intro s'
  have f := frame_addAppointment s node signer l b tsd usig u ui ha
  have hk : ((l', u) : Uuid) ≠ (l, u) := fun e => hne (Prod.mk.inj e).1
  exact ⟨f.appts _ hk, f.trackers _ hk⟩

/-- reads never change the tower -/
theorem reads_change_nothing (cfg : Cfg) (s : Tower) (node : Node) (signer : Option User) (loc : Loc) :
    (step cfg s node (.get signer loc)).1 = s ∧ (step cfg s node (.sub signer)).1 = s := by
  simp only [step]
  constructor <;> split <;> rfl

/-- **shared_locator_independent**: two users sending the same locator hold different keys. -/
theorem shared_locator_independent (l : Loc) (u u' : User) (h : u ≠ u') : ((l, u) : Uuid) ≠ (l, u') := by
  intro e; exact h (Prod.mk.inj e).2

/-- a user reads back only what is stored under their own key -/
theorem get_reads_own_key (s : Tower) (signer : Option User) (loc : Loc) (u : User) (ui : UserInfo)
    (ha : authCheck s signer = .ok (u, ui)) :
    getAppointment s signer loc =
      match s.db.trackers (loc, u), s.db.appts (loc, u) with
      | some t, some _ => .tracker t.dispute t.penalty
      | _, some a => .appt a.loc a.blob a.tsd
      | _, none => .notFound := by
  unfold getAppointment; rw [ha]; rfl

/-- …and lists only their own locators -/
theorem sub_lists_own_locators (s : Tower) (signer : Option User) (u : User) (ui : UserInfo)
    (ha : authCheck s signer = .ok (u, ui)) (l : Loc) :
    (∃ sl e ls, getSubscriptionInfo s signer = .subscription sl e ls ∧ (l ∈ ls → (s.db.appts (l, u)).isSome)) := by
  refine ⟨ui.slots, ui.expiry, s.db.userLocators u, by simp [getSubscriptionInfo, ha], ?_⟩
  intro hl
  unfold Db.userLocators Db.liveAppts at hl
  simp only [List.mem_map, List.mem_filter] at hl
  obtain ⟨k, ⟨⟨_, hk⟩, hu⟩, hl⟩ := hl
  have : k = (l, u) := by
    cases k; simp only [decide_eq_true_eq] at hu; simp_all
  rw [← this]; exact hk

/-- non-vacuity: a registered user below expiry gets through, the same user at expiry does not -/
example :
    let cfg : Cfg := { slots := 2, duration := 10, grace := 3 }
    let s := (register cfg (boot Db.empty 100 []) 7).1
    (∃ ui, authCheck s (some 7) = .ok (7, ui)) ∧ authCheck s (some 8) = .error .authFail ∧
    authCheck s none = .error .authFail ∧
    authCheck (gkConnect cfg s 110) (some 7) = .error (.expired 110) := by
  exact ⟨⟨_, rfl⟩, rfl, rfl, rfl⟩

/-! ### whole histories -/

/-- the operation is an `add_appointment` whose signature recovered to the registered, non-expired user
`k.2`, for locator `k.1` and blob `b`, and the tower answered it with a receipt -/
def AuthenticatedAdd (s : Tower) (node : Node) (op : Op) (k : Uuid) (b : Blob) : Prop :=
  ∃ sg t u ui, op = .add sg k.1 b t u ∧ authCheck s sg = .ok (k.2, ui) ∧
    ∃ st us av ex, (addAppointment s node sg k.1 b t u).2.1 = .accepted st us av ex

theorem acceptedBy_authenticated (s : Tower) (node : Node) (op : Op) (k : Uuid) (b : Blob)
    (h : (k, b) ∈ acceptedBy s node op) : AuthenticatedAdd s node op k b := by
  cases op with
  | add sg l blob t u =>
    cases hauth : authCheck s sg with
    | error e => simp [acceptedBy, hauth] at h
    | ok pr =>
      obtain ⟨usr, ui⟩ := pr
      cases hacc : (addAppointment s node sg l blob t u).2.1 with
      | accepted st us av ex =>
        simp only [acceptedBy, hauth, hacc, List.mem_singleton, Prod.mk.injEq] at h
        obtain ⟨rfl, rfl⟩ := h
        exact ⟨sg, t, u, ui, rfl, hauth, st, us, av, ex, hacc⟩
      | _ => simp [acceptedBy, hauth, hacc] at h
  | register _ => cases h
  | get _ _ => cases h
  | sub _ => cases h
  | connect _ _ _ => cases h
  | disconnect _ _ => cases h

/-- where an entry of the ghost record of accepted appointments comes from -/
theorem accepted_origin (cfg : Cfg) : ∀ (hist : List (Node × Op)) (sg : Tower × Ghost) (k : Uuid) (b : Blob),
    (k, b) ∈ (runG cfg sg hist).2.accepted →
    (k, b) ∈ sg.2.accepted ∨
    ∃ pre node op post, hist = pre ++ (node, op) :: post ∧ (k, b) ∈ acceptedBy (runG cfg sg pre).1 node op := by
  intro hist
  induction hist with
  | nil => intro sg k b h; exact Or.inl h
  | cons x rest ih =>
    intro sg k b h
    unfold runG at h
    simp only [List.foldl_cons] at h
    rcases ih (stepG cfg sg x) k b h with h1 | ⟨pre, node, op, post, e, hm⟩
    · unfold stepG at h1
      simp only at h1
      rcases List.mem_append.1 h1 with h2 | h2
      · exact Or.inl h2
      · exact Or.inr ⟨[], x.1, x.2, rest, rfl, h2⟩
    · refine Or.inr ⟨x :: pre, node, op, post, by rw [e]; rfl, ?_⟩
      unfold runG
      simp only [List.foldl_cons]
      exact hm

/-- **every_held_appointment_was_submitted_by_its_owner**: after ANY history, every appointment the tower
holds under a user's key got there through an `add_appointment` request, somewhere in that history, whose
signature recovered to exactly that user — registered and not expired at that moment — for exactly that
locator and that blob: no request by one user, and nothing the chain does, ever creates or replaces
another user's appointment. -/
theorem every_held_appointment_was_submitted_by_its_owner (cfg : Cfg) (height : Nat)
    (blocks : List (Nat × List TxId)) (hist : List (Node × Op)) (k : Uuid) (a : Appt) :
    let start : Tower × Ghost := (boot Db.empty height blocks, { seen := blocks.flatMap (·.2), accepted := [], sent := [] })
    (runG cfg start hist).1.db.appts k = some a →
    ∃ pre node op post, hist = pre ++ (node, op) :: post ∧
      AuthenticatedAdd (runG cfg start pre).1 node op k a.blob := by
  intro start h
  have hinv : GInv start := by
    refine ⟨just_boot _ _ _ _ (fun k t h => by cases h) ?_, ?_, fun tx h => by cases h⟩
    · intro b hb x hx
      exact List.mem_flatMap.2 ⟨b, hb, hx⟩
    · intro k b h
      obtain ⟨a, ha, _⟩ := h
      cases ha
  have hacc := (ginv_runG cfg hist start hinv).held k a.blob ⟨a, h, rfl⟩
  rcases accepted_origin cfg hist start k a.blob hacc with h0 | ⟨pre, node, op, post, e, hm⟩
  · cases h0
  · exact ⟨pre, node, op, post, e, acceptedBy_authenticated _ node op k a.blob hm⟩


/-! ### non-interference of whole request histories -/

/-- a request that is not `B`'s: a registration of someone else, a submission whose signature does not recover to
`B`'s key, or a read -/
def ByOthers (B : User) : Op → Prop
  | .register u => u ≠ B
  | .add sg _ _ _ _ => sg ≠ some B
  | .get _ _ => True
  | .sub _ => True
  | .connect _ _ _ => False
  | .disconnect _ _ => False

/-- what the tower holds for user `B`: the subscription record (memory and disk), the appointments and trackers -/
def SameFor (B : User) (s s' : Tower) : Prop :=
  s'.db.users B = s.db.users B ∧ s'.mem.users B = s.mem.users B ∧
  (∀ l, s'.db.appts (l, B) = s.db.appts (l, B)) ∧ (∀ l, s'.db.trackers (l, B) = s.db.trackers (l, B))

theorem SameFor.refl (B : User) (s : Tower) : SameFor B s s := ⟨rfl, rfl, fun _ => rfl, fun _ => rfl⟩

theorem SameFor.trans {B : User} {a b c : Tower} (h1 : SameFor B a b) (h2 : SameFor B b c) : SameFor B a c :=
  ⟨h2.1.trans h1.1, h2.2.1.trans h1.2.1, fun l => (h2.2.2.1 l).trans (h1.2.2.1 l), fun l => (h2.2.2.2 l).trans (h1.2.2.2 l)⟩

theorem register_sameFor (cfg : Cfg) (s : Tower) (u B : User) (h : u ≠ B) : SameFor B s (register cfg s u).1 := by
  have hb : B ≠ u := fun e => h e.symm
  have key : SameFor B s (addUpdateUser cfg s u).1 := by
    unfold addUpdateUser
    split
    · split
      · exact SameFor.refl B s
      · refine ⟨?_, ?_, fun l => ?_, fun l => ?_⟩
        · exact Db.updateUser_users_ne _ _ _ _ hb
        · simp only [hb, ↓reduceIte]
        · simp
        · simp
    · simp only
      split
      · exact ⟨by rw [abort_db], by rw [abort_mem], fun _ => by rw [abort_db], fun _ => by rw [abort_db]⟩
      · rename_i db' hdb
        unfold Db.storeUser at hdb
        split at hdb
        · cases hdb
        · simp only [Option.some.injEq] at hdb; subst hdb
          exact ⟨by simp [hb], by simp [hb], fun _ => rfl, fun _ => rfl⟩
  unfold register
  generalize addUpdateUser cfg s u = r at key
  obtain ⟨s', o⟩ := r
  cases o <;> exact key

theorem step_sameFor (cfg : Cfg) (s : Tower) (node : Node) (op : Op) (B : User) (h : ByOthers B op) :
    SameFor B s (step cfg s node op).1 := by
  cases op with
  | register u =>
    simp only [step]
    split
    · exact SameFor.refl B s
    · exact register_sameFor cfg s u B h
  | add sg l b t w =>
    simp only [step]
    split
    · exact SameFor.refl B s
    · cases ha : authCheck s sg with
      | error r =>
        rw [(reject_no_change s node sg r ha l b t w).1]
        exact SameFor.refl B s
      | ok p =>
        obtain ⟨u, ui⟩ := p
        have hsg := (auth_sound s sg u ui ha).1
        have hne : B ≠ u := fun e => h (by rw [hsg, e])
        have f := frame_addAppointment s node sg l b t w u ui ha
        exact ⟨f.dbUsers B hne, f.memUsers B hne,
          fun l' => f.appts _ (fun e => hne (Prod.mk.inj e).2),
          fun l' => f.trackers _ (fun e => hne (Prod.mk.inj e).2)⟩
  | get sg l => rw [(reads_change_nothing cfg s node sg l).1]; exact SameFor.refl B s
  | sub sg => rw [(reads_change_nothing cfg s node sg 0).2]; exact SameFor.refl B s
  | connect _ _ _ => exact h.elim
  | disconnect _ _ => exact h.elim

/-- **requests_of_others_change_nothing**: any sequence of requests none of which is authenticated as `B` —
registrations of other users, submissions and replacements by other users (same locators included, accepted,
triggered, dropped or refused), unauthenticated or expired attempts, reads by anybody — leaves `B`'s subscription
record, appointments and trackers exactly as they were, in memory and on disk. (Blocks are not requests: a block
acts on everybody's data by design.) -/
theorem requests_of_others_change_nothing (cfg : Cfg) (B : User) : ∀ (hist : List (Node × Op)) (s : Tower),
    (∀ x ∈ hist, ByOthers B x.2) → SameFor B s (runHistory cfg s hist) := by
  intro hist
  induction hist with
  | nil => intro s _; exact SameFor.refl B s
  | cons x rest ih =>
    intro s h
    obtain ⟨node, op⟩ := x
    simp only [runHistory]
    exact (step_sameFor cfg s node op B (h (node, op) (by simp))).trans
      (ih _ (fun y hy => h y (by simp [hy])))


/-- non-vacuity: user 8 registers, submits on user 7's locator, replaces it, reads; user 7's data is untouched -/
example :
    let cfg : Cfg := { slots := 3, duration := 10, grace := 3 }
    let node : Node := { send := fun _ => .ok, get := fun _ => .rpc (-5) }
    let s0 := (addAppointment (register cfg (boot Db.empty 100 []) 7).1 node (some 7) 4 (.enc 64 80 300) 20 5).1
    let hist : List (Node × Op) := [(node, .register 8), (node, .add (some 8) 4 (.enc 64 81 2100) 21 6),
      (node, .add (some 8) 4 (.junk 3 100) 21 7), (node, .get (some 8) 4), (node, .add none 4 (.junk 9 10) 1 1)]
    (∀ x ∈ hist, ByOthers 7 x.2) ∧ (runHistory cfg s0 hist).db.appts (4, 7) = s0.db.appts (4, 7) ∧
    (s0.db.appts (4, 7)).isSome = true ∧ ((runHistory cfg s0 hist).db.appts (4, 8)).isSome = true := by
  refine ⟨by intro x hx; simp only [List.mem_cons, List.not_mem_nil, or_false] at hx; rcases hx with rfl | rfl | rfl | rfl | rfl <;> simp [ByOthers], by decide⟩

end Teos.C06
