/-
C18 — Client store is consistent, reloadable; abandon deletes exactly one tower.

Model: `Model/Client.lean` (the seven tables of watchtower-plugin/src/dbm.rs with their cascades,
and `WTClient`'s summaries). Helper lemmas and the invariant: `Lemmas/Client.lean`.
The statements below quantify over every operation sequence, every tower id and locator.
-/
import TeosVerif.Lemmas.Client

namespace Teos.C18

open Teos.Client

/-- the operations the plugin issues: every `WTClient` mutator with any arguments; the status
setter with any status but `Misbehaving` (which only `flag_misbehaving_tower` sets) -/
def Op.ok : Op → Prop
  | .status _ s => s ≠ .misbehaving
  | _ => True

/-- one step keeps the invariant: the store stays well formed and the summaries mirror it -/
theorem inv_step (c : Client) (op : Op) (h : Client.Inv c) (hop : Op.ok op) : Client.Inv (c.step op).1 := by
  unfold Client.step
  cases op with
  | reload => exact Client.Inv.reload h.wf
  | register t a r => simp only [h.alive, Bool.false_eq_true, ↓reduceIte]; exact h.addUpdateTower t a r
  | receipt t l s r => simp only [h.alive, Bool.false_eq_true, ↓reduceIte]; exact h.addReceipt t l s r
  | pending t l b => simp only [h.alive, Bool.false_eq_true, ↓reduceIte]; exact h.addPending t l b
  | unpend t l => simp only [h.alive, Bool.false_eq_true, ↓reduceIte]; exact h.removePending t l
  | invalid t l b => simp only [h.alive, Bool.false_eq_true, ↓reduceIte]; exact h.addInvalid t l b
  | misbehaving t p r => simp only [h.alive, Bool.false_eq_true, ↓reduceIte]; exact h.flagMisbehaving t p r
  | abandon t => simp only [h.alive, Bool.false_eq_true, ↓reduceIte]; exact h.removeTower t
  | status t s => simp only [h.alive, Bool.false_eq_true, ↓reduceIte]; exact h.setStatus t s hop

/-- every state reachable from an empty data directory, by any operation sequence -/
theorem inv_run (ops : List Op) (hops : ∀ op ∈ ops, Op.ok op) : Client.Inv (Client.fresh.run ops) := by
  suffices ∀ c, Client.Inv c → Client.Inv (c.run ops) from this _ Client.Inv.fresh
  induction ops with
  | nil => intro c h; exact h
  | cons op rest ih =>
    intro c h
    exact ih (fun o ho => hops o (by simp [ho])) _
      (inv_step c op h (hops op (by simp)))

/-- no operation sequence makes a `WTClient` mutator panic on a store constraint (so the state
mutex is never poisoned by one) -/
theorem never_panics (ops : List Op) (hops : ∀ op ∈ ops, Op.ok op) :
    (Client.fresh.run ops).dead = false :=
  (inv_run ops hops).alive

/-- **what listtowers reports equals what is persisted**: tower by tower, the summary in memory
is the one `load_towers` would build from the file, up to the status (memory distinguishes
unreachable / subscription error, which are not stored) — and even the status agrees on
"misbehaving". -/
theorem mem_eq_disk (c : Client) (h : Client.Inv c) (t : TowerId) :
    (c.towers t = none ↔ c.store.loadSummary t = none) ∧
    ∀ sm, c.towers t = some sm → ∃ d, c.store.loadSummary t = some d ∧
      sm.addr = d.addr ∧ sm.slots = d.slots ∧ sm.start = d.start ∧ sm.expiry = d.expiry ∧
      sm.pending = d.pending ∧ sm.invalid = d.invalid ∧
      (sm.status = .misbehaving ↔ d.status = .misbehaving) := by
  constructor
  · constructor
    · intro hn; exact (loadSummary_of_wf h.wf t).mpr (h.sync_none t hn)
    · intro hn
      cases hs : c.towers t with
      | none => rfl
      | some sm =>
        obtain ⟨row, r, a1, _⟩ := h.sync_some t sm hs
        have := (loadSummary_of_wf h.wf t).mp hn
        rw [a1] at this; cases this
  · intro sm hs
    obtain ⟨row, r, a1, a2, a3, a4, a5, a6, a7, a8, a9⟩ := h.sync_some t sm hs
    have hl : c.store.loadSummary t = some
        { addr := row.addr, slots := row.slots, start := r.start, expiry := r.expiry,
          status := reconStatus (c.store.proofs t).isSome (locsOf c.store.pending t),
          pending := locsOf c.store.pending t, invalid := locsOf c.store.invalid t } := by
      unfold Store.loadSummary; simp only [a1, a2]
    refine ⟨_, hl, a3, a4, a5, a6, a7, a8, ?_⟩
    rw [a9]
    simp only [reconStatus]
    cases (c.store.proofs t).isSome
    · simp only [Bool.false_eq_true, ↓reduceIte, false_iff]; split <;> simp
    · simp

/-- **reloading after a restart reproduces it**: the reloaded summary is the old one with the
status reconstructed from the file. -/
theorem reload_reproduces (c : Client) (h : Client.Inv c) (t : TowerId) :
    c.reload.towers t = (c.towers t).map fun sm =>
      { sm with status := reconStatus (c.store.proofs t).isSome (locsOf c.store.pending t) } := by
  cases hs : c.towers t with
  | none =>
    simp only [Client.reload, Option.map_none]
    exact ((mem_eq_disk c h t).1).mp hs
  | some sm =>
    obtain ⟨row, r, a1, a2, a3, a4, a5, a6, a7, a8, a9⟩ := h.sync_some t sm hs
    simp only [Client.reload, Option.map_some, Store.loadSummary, a1, a2, Option.some.injEq]
    cases sm
    simp only at a3 a4 a5 a6 a7 a8
    subst a3 a4 a5 a6 a7 a8
    rfl

/-- the reconstruction rule itself: a stored proof means misbehaving, else pending data means
temporarily unreachable, else reachable -/
theorem reload_status (c : Client) (t : TowerId) (d : Summary) (h : c.reload.towers t = some d) :
    (d.status = .misbehaving ↔ (c.store.proofs t).isSome = true) ∧
    (d.status = .tempUnreachable ↔ (c.store.proofs t).isSome = false ∧ d.pending ≠ []) ∧
    (d.status = .reachable ↔ (c.store.proofs t).isSome = false ∧ d.pending = []) ∧
    d.status ≠ .unreachable ∧ d.status ≠ .subscriptionError := by
  simp only [Client.reload, Store.loadSummary] at h
  cases ht : c.store.towers t with
  | none => simp [ht] at h
  | some row =>
    cases hm : maxReg (c.store.regs t) with
    | none => simp [ht, hm] at h
    | some r =>
      simp only [ht, hm, Option.some.injEq] at h
      subst h
      simp only [reconStatus]
      cases (c.store.proofs t).isSome <;> cases hp : locsOf c.store.pending t <;> simp

/-- a restart of a restarted client changes nothing -/
theorem reload_idempotent (c : Client) : c.reload.reload = c.reload := rfl

/-! ### abandon -/

/-- the records that name tower `t` -/
structure TowerRows where
  row     : Option TowerRow
  regs    : List RegReceipt
  rcpts   : Loc → Option ApptReceipt
  pending : List Loc
  invalid : List Loc
  proof   : Option Proof

def rowsOf (s : Store) (t : TowerId) : TowerRows :=
  { row := s.towers t, regs := s.regs t, rcpts := s.rcpts t, pending := locsOf s.pending t,
    invalid := locsOf s.invalid t, proof := s.proofs t }

def TowerRows.none : TowerRows :=
  { row := Option.none, regs := [], rcpts := fun _ => Option.none, pending := [], invalid := [],
    proof := Option.none }

/-- **abandon deletes all and only that tower's records**: nothing that names `t` is left,
every other tower's records are what they were, and no appointment body is touched (bodies are
shared; one that only `t` referenced stays until the locator is released again). -/
theorem abandon_exact (s : Store) (t : TowerId) :
    rowsOf (s.removeTowerRecord t) t = TowerRows.none ∧
    (∀ t', t' ≠ t → rowsOf (s.removeTowerRecord t) t' = rowsOf s t') ∧
    (s.removeTowerRecord t).bodies = s.bodies := by
  refine ⟨?_, ?_, rfl⟩
  · simp only [rowsOf, Store.removeTowerRecord, ↓reduceIte, TowerRows.none]
    rw [locsOf_filter_tower, locsOf_filter_tower]
    simp
  · intro t' hne
    simp only [rowsOf, Store.removeTowerRecord, hne, ↓reduceIte]
    rw [locsOf_filter_tower, locsOf_filter_tower]
    simp [hne]

/-- the same at the `WTClient` level: the abandoned tower disappears from the listing, every
other summary is unchanged, and the answer is "not found" exactly for an unknown tower -/
theorem abandon_client (c : Client) (t : TowerId) :
    ((c.removeTower t).2 = .ok ↔ c.towers t ≠ none) ∧
    (c.removeTower t).1.towers t = none ∧
    ∀ t', t' ≠ t → (c.removeTower t).1.towers t' = c.towers t' := by
  unfold Client.removeTower
  cases ht : c.towers t with
  | none => simp [ht]
  | some sm =>
    refine ⟨by simp, by simp, ?_⟩
    intro t' hne
    simp [hne]

/-! ### one tower's operations never touch another tower's records -/

/-- the tower an operation is about -/
def Op.tower : Op → Option TowerId
  | .register t _ _ => some t
  | .receipt t _ _ _ => some t
  | .pending t _ _ => some t
  | .unpend t _ => some t
  | .invalid t _ _ => some t
  | .misbehaving t _ _ => some t
  | .abandon t => some t
  | .status t _ => some t
  | .reload => none

theorem rowsOf_congr {s s' : Store} {t : TowerId}
    (h1 : s'.towers t = s.towers t) (h2 : s'.regs t = s.regs t) (h3 : s'.rcpts t = s.rcpts t)
    (h4 : locsOf s'.pending t = locsOf s.pending t) (h5 : locsOf s'.invalid t = locsOf s.invalid t)
    (h6 : s'.proofs t = s.proofs t) : rowsOf s' t = rowsOf s t := by
  simp only [rowsOf, h1, h2, h3, h4, h5, h6]

/-! store level: a successful write about tower `t` leaves the rows of `t' ≠ t` alone -/

theorem storeTowerRecord_frame {s s' : Store} {t t' : TowerId} {a : Nat} {r : RegReceipt}
    (h : s.storeTowerRecord t a r = some s') (hne : t' ≠ t) : rowsOf s' t' = rowsOf s t' := by
  unfold Store.storeTowerRecord at h
  split at h
  · cases h
  · simp only [Option.some.injEq] at h; subst h
    apply rowsOf_congr <;> simp [hne]

theorem storeApptReceipt_frame {s s' : Store} {t t' : TowerId} {l : Loc} {n : Nat} {r : ApptReceipt}
    (h : s.storeApptReceipt t l n r = some s') (hne : t' ≠ t) : rowsOf s' t' = rowsOf s t' := by
  unfold Store.storeApptReceipt at h
  split at h
  · simp only [Option.some.injEq] at h; subst h
    apply rowsOf_congr <;> first | rfl | (funext y; simp [hne]) | simp [hne]
  · cases h

theorem storePending_frame {s s' : Store} {t t' : TowerId} {l : Loc} {b : Body}
    (h : s.storePending t l b = some s') (hne : t' ≠ t) : rowsOf s' t' = rowsOf s t' := by
  unfold Store.storePending at h
  split at h
  · cases h
  · simp only [Option.some.injEq] at h; subst h
    apply rowsOf_congr <;> simp [locsOf_append, hne]

theorem storeInvalid_frame {s s' : Store} {t t' : TowerId} {l : Loc} {b : Body}
    (h : s.storeInvalid t l b = some s') (hne : t' ≠ t) : rowsOf s' t' = rowsOf s t' := by
  unfold Store.storeInvalid at h
  split at h
  · cases h
  · simp only [Option.some.injEq] at h; subst h
    apply rowsOf_congr <;> simp [locsOf_append, hne]

theorem storeProof_frame {s s' : Store} {t t' : TowerId} {p : Proof} {r : ApptReceipt}
    (h : s.storeProof t p r = some s') (hne : t' ≠ t) : rowsOf s' t' = rowsOf s t' := by
  unfold Store.storeProof at h
  split at h
  · simp only [Option.some.injEq] at h; subst h
    apply rowsOf_congr <;> first | rfl | (funext y; simp [hne]) | simp [hne]
  · cases h

theorem deletePending_frame (s : Store) (t t' : TowerId) (l : Loc) (hne : t' ≠ t) :
    rowsOf (s.deletePending t l) t' = rowsOf s t' := by
  apply rowsOf_congr
  · simp [deletePending_towers]
  · simp [deletePending_regs]
  · simp [deletePending_rcpts]
  · simp only [deletePending_pending]; rw [locsOf_filter_ne]; simp [hne]
  · simp [deletePending_invalid]
  · simp [deletePending_proofs]

/-- what a client operation does to the file: nothing, or exactly one successful store write
about the operation's tower -/
inductive Wrote (s : Store) (t : TowerId) : Store → Prop where
  | nothing : Wrote s t s
  | reg {a r s'} : s.storeTowerRecord t a r = some s' → Wrote s t s'
  | rcpt {l n r s'} : s.storeApptReceipt t l n r = some s' → Wrote s t s'
  | pend {l b s'} : s.storePending t l b = some s' → Wrote s t s'
  | inval {l b s'} : s.storeInvalid t l b = some s' → Wrote s t s'
  | proof {p r s'} : s.storeProof t p r = some s' → Wrote s t s'
  | release {l} : Wrote s t (s.deletePending t l)
  | remove : Wrote s t (s.removeTowerRecord t)

theorem Wrote.frame {s s' : Store} {t t' : TowerId} (h : Wrote s t s') (hne : t' ≠ t) :
    rowsOf s' t' = rowsOf s t' := by
  cases h with
  | nothing => rfl
  | reg h => exact storeTowerRecord_frame h hne
  | rcpt h => exact storeApptReceipt_frame h hne
  | pend h => exact storePending_frame h hne
  | inval h => exact storeInvalid_frame h hne
  | proof h => exact storeProof_frame h hne
  | release => exact deletePending_frame s t t' _ hne
  | remove => exact (abandon_exact s t).2.1 t' hne

/-- every operation is at most one write about its own tower (a failed write leaves the file
as it was: the transaction is rolled back) -/
theorem step_wrote (c : Client) (op : Op) (t : TowerId) (hop : Op.tower op = some t) :
    Wrote c.store t (c.step op).1.store := by
  unfold Client.step
  cases op with
  | reload => simp [Op.tower] at hop
  | register x a r =>
    simp only [Op.tower, Option.some.injEq] at hop; subst hop
    by_cases hd : c.dead = true
    · simp only [hd, ↓reduceIte]; exact .nothing
    · simp only [hd, Bool.false_eq_true, ↓reduceIte]
      unfold Client.addUpdateTower Client.panic Client.setSummary
      split
      · split
        · exact .nothing
        · rename_i st hst; exact .reg hst
      · split
        · exact .nothing
        · split
          · exact .nothing
          · split
            · exact .nothing
            · split
              · exact .nothing
              · rename_i st hst; exact .reg hst
  | receipt x l s r =>
    simp only [Op.tower, Option.some.injEq] at hop; subst hop
    by_cases hd : c.dead = true
    · simp only [hd, ↓reduceIte]; exact .nothing
    · simp only [hd, Bool.false_eq_true, ↓reduceIte]
      unfold Client.addReceipt Client.panic Client.setSummary
      split
      · exact .nothing
      · split
        · exact .nothing
        · rename_i st hst; exact .rcpt hst
  | pending x l b =>
    simp only [Op.tower, Option.some.injEq] at hop; subst hop
    by_cases hd : c.dead = true
    · simp only [hd, ↓reduceIte]; exact .nothing
    · simp only [hd, Bool.false_eq_true, ↓reduceIte]
      unfold Client.addPending Client.panic Client.setSummary
      split
      · exact .nothing
      · split
        · exact .nothing
        · split
          · exact .nothing
          · rename_i st hst; exact .pend hst
  | unpend x l =>
    simp only [Op.tower, Option.some.injEq] at hop; subst hop
    by_cases hd : c.dead = true
    · simp only [hd, ↓reduceIte]; exact .nothing
    · simp only [hd, Bool.false_eq_true, ↓reduceIte]
      unfold Client.removePending Client.setSummary
      split
      · exact .nothing
      · exact .release
  | invalid x l b =>
    simp only [Op.tower, Option.some.injEq] at hop; subst hop
    by_cases hd : c.dead = true
    · simp only [hd, ↓reduceIte]; exact .nothing
    · simp only [hd, Bool.false_eq_true, ↓reduceIte]
      unfold Client.addInvalid Client.panic Client.setSummary
      split
      · exact .nothing
      · split
        · exact .nothing
        · split
          · exact .nothing
          · rename_i st hst; exact .inval hst
  | misbehaving x p r =>
    simp only [Op.tower, Option.some.injEq] at hop; subst hop
    by_cases hd : c.dead = true
    · simp only [hd, ↓reduceIte]; exact .nothing
    · simp only [hd, Bool.false_eq_true, ↓reduceIte]
      unfold Client.flagMisbehaving Client.panic Client.setSummary
      split
      · exact .nothing
      · split
        · exact .nothing
        · split
          · exact .nothing
          · rename_i st hst; exact .proof hst
  | abandon x =>
    simp only [Op.tower, Option.some.injEq] at hop; subst hop
    by_cases hd : c.dead = true
    · simp only [hd, ↓reduceIte]; exact .nothing
    · simp only [hd, Bool.false_eq_true, ↓reduceIte]
      unfold Client.removeTower
      split
      · exact .nothing
      · exact .remove
  | status x s =>
    simp only [Op.tower, Option.some.injEq] at hop; subst hop
    by_cases hd : c.dead = true
    · simp only [hd, ↓reduceIte]; exact .nothing
    · simp only [hd, Bool.false_eq_true, ↓reduceIte]
      unfold Client.setStatus Client.setSummary
      split
      · split <;> exact .nothing
      · exact .nothing

/-- **all and only**: whatever the operation on tower `t` (including a release of a reference
it does not hold, and including one that fails), the records of every other tower are
untouched. -/
theorem other_towers_untouched (c : Client) (op : Op) (t t' : TowerId)
    (hop : Op.tower op = some t) (hne : t' ≠ t) :
    rowsOf (c.step op).1.store t' = rowsOf c.store t' :=
  (step_wrote c op t hop).frame hne

/-! ### shared appointment bodies -/

/-- **a shared body is kept until the last reference lets go**: releasing tower `t`'s pending
reference to `l` keeps the body while any other pending reference or any invalid reference to
`l` exists, deletes it otherwise, and never touches another locator's body. -/
theorem body_refcount (s : Store) (t : TowerId) (l : Loc) :
    ((∃ y, (y, l) ∈ s.pending ∧ y ≠ t) ∨ (∃ y, (y, l) ∈ s.invalid) →
      (s.deletePending t l).bodies l = s.bodies l) ∧
    ((∀ y, (y, l) ∈ s.pending → y = t) ∧ (∀ y, (y, l) ∉ s.invalid) →
      (s.deletePending t l).bodies l = none) ∧
    (∀ x, x ≠ l → (s.deletePending t l).bodies x = s.bodies x) := by
  refine ⟨?_, ?_, ?_⟩
  · intro h
    rw [deletePending_bodies]
    have : ¬ (s.released t l).refCount l = 0 := by
      intro hz
      have hz' := (refCount_eq_zero _ l).mp hz
      rcases h with ⟨y, hy, hne⟩ | ⟨y, hy⟩
      · refine hz'.1 y ?_
        simp only [Store.released, List.mem_filter, ne_eq, Prod.mk.injEq, not_and,
          decide_eq_true_eq]
        exact ⟨hy, fun e => absurd e hne⟩
      · exact hz'.2 y hy
    simp [this]
  · rintro ⟨h1, h2⟩
    rw [deletePending_bodies]
    have : (s.released t l).refCount l = 0 := by
      rw [refCount_eq_zero]
      refine ⟨?_, h2⟩
      intro y hy
      simp only [Store.released, List.mem_filter, ne_eq, Prod.mk.injEq, not_and,
        decide_eq_true_eq] at hy
      exact hy.2 (h1 y hy.1) trivial
    simp [this]
  · intro x hx
    rw [deletePending_bodies]
    simp [hx]

/-- every reference always has its body: whatever happened, the data needed to send a pending
appointment again (or to inspect an invalid one) is there -/
theorem refs_have_bodies (ops : List Op) (hops : ∀ op ∈ ops, Op.ok op) (t : TowerId) (l : Loc) :
    let c := Client.fresh.run ops
    ((t, l) ∈ c.store.pending ∨ (t, l) ∈ c.store.invalid) → c.store.bodies l ≠ none := by
  intro c h
  have hw := (inv_run ops hops).wf
  rcases h with h | h
  · exact hw.body_pending t l h
  · exact hw.body_invalid t l h

/-- a release by a tower that holds no pending reference changes no reference at all (the
defect repaired by the `fix:` commit on `delete_pending_appointment`: it used to delete the
single remaining reference of whoever held it) -/
theorem stray_release_harmless (s : Store) (t : TowerId) (l : Loc) (h : (t, l) ∉ s.pending) :
    (s.deletePending t l).pending = s.pending ∧ (s.deletePending t l).invalid = s.invalid := by
  refine ⟨?_, deletePending_invalid s t l⟩
  rw [deletePending_pending, List.filter_eq_self]
  intro p hp
  simp only [ne_eq, decide_eq_true_eq]
  intro e; subst e; exact h hp

/-! ### non-vacuity: a concrete history with two towers sharing a locator -/

def demoOps : List Op :=
  [ .register 0 0 { slots := 10, start := 1, expiry := 100, sig := 1 },
    .register 1 1 { slots := 10, start := 1, expiry := 100, sig := 2 },
    .pending 0 7 { blob := 1, tsd := 42 },
    .pending 1 7 { blob := 1, tsd := 42 },
    .receipt 0 7 9 { start := 60, usig := 3, tsig := 4 },
    .unpend 0 7,
    .misbehaving 1 { loc := 5, recovered := 9 } { start := 70, usig := 5, tsig := 6 },
    .status 1 .reachable ]

example : ∀ op ∈ demoOps, Op.ok op := by
  intro op h
  simp only [demoOps, List.mem_cons, List.mem_nil_iff, or_false] at h
  rcases h with rfl | rfl | rfl | rfl | rfl | rfl | rfl | rfl <;> simp [Op.ok]

/-- tower 1 still holds its pending reference and the shared body after tower 0 released its
own; tower 1 stays misbehaving although its status was "set" to reachable afterwards -/
example :
    let c := Client.fresh.run demoOps
    c.dead = false ∧ c.store.pending = [(1, 7)] ∧ c.store.bodies 7 = some { blob := 1, tsd := 42 } ∧
    (c.towers 1).map (·.status) = some .misbehaving ∧ (c.towers 0).map (·.pending) = some [] := by
  decide

end Teos.C18
