/-
C11 — The tower stays live: no deadlock, no poisoned state, no aborting handler.

(1) Deadlock freedom, for any number of threads and any schedule, from a lock-rank discipline:
    generic theorem + the lock traces of the tower's operations (recorded on the real code through
    hook H5 and re-compared on every run) respect the ranks.
(2) No aborting handler: the request handlers of the model never reach an abort site from a state
    in which the requester's record is the same in memory and on disk and the tx index is
    consistent (C19); the block-processing loop's abort sites are compared with the real code's
    panics by the correspondence run (model `abort` ⇔ implementation panic) and by the panic monitor.
-/
import TeosVerif.Lemmas.Deadlock
import TeosVerif.Lemmas.Tower
import TeosVerif.Lemmas.TowerInv
import TeosVerif.Model.Locks
import TeosVerif.Model.LockTraces

namespace Teos.C11
open Teos Teos.Conc Teos.Locks

/-- **rank_respecting_no_deadlock**: if every thread acquires a lock only while all the locks it
holds have a smaller rank, then in every configuration with an unfinished thread some thread can
take a step — whatever the number of threads and the schedule that led there. -/
theorem rank_respecting_no_deadlock (rank : Lock → Nat) (c : Conc.Cfg) (hg : Good rank c)
    (hun : ∃ t ∈ c, t.rest ≠ []) : ∃ t ∈ c, enabled c t :=
  no_deadlock rank c hg hun

/-- one scheduler step: thread `i` takes its next event (an acquisition only of a free lock) -/
inductive Step : Conc.Cfg → Conc.Cfg → Prop where
  | mk (pre post : List Thr) (t t' : Thr) :
      enabled (pre ++ t :: post) t → stepThr (pre ++ t :: post) t = some t' →
      Step (pre ++ t :: post) (pre ++ t' :: post)

inductive Reach : Conc.Cfg → Conc.Cfg → Prop where
  | refl (c : Conc.Cfg) : Reach c c
  | step {a b c : Conc.Cfg} : Reach a b → Step b c → Reach a c

theorem step_good (rank : Lock → Nat) {c c' : Conc.Cfg} (hs : Step c c') (hg : Good rank c) : Good rank c' := by
  cases hs with
  | mk pre post t t' _ hst =>
    intro x hx
    rcases List.mem_append.1 hx with h | h
    · exact hg x (List.mem_append_left _ h)
    · rcases List.mem_cons.1 h with h | h
      · subst h
        exact step_preserves_respects rank t _ _ (hg t (by simp)) hst
      · exact hg x (List.mem_append_right _ (List.mem_cons_of_mem _ h))

theorem reach_good (rank : Lock → Nat) {c0 c : Conc.Cfg} (hg : Good rank c0) (hr : Reach c0 c) : Good rank c := by
  induction hr with
  | refl => exact hg
  | step _ hs ih => exact step_good rank hs ih

/-- **deadlock_free_forever**: the discipline is an invariant of execution, so no reachable
configuration is a deadlock. -/
theorem deadlock_free_forever (rank : Lock → Nat) (c0 c : Conc.Cfg) (hg : Good rank c0) (hr : Reach c0 c)
    (hun : ∃ t ∈ c, t.rest ≠ []) : ∃ t ∈ c, enabled c t :=
  no_deadlock rank c (reach_good rank hg hr) hun

/-- **tower_ops_rank_respecting**: every recorded operation trace of the tower (requests, block
connection with and without breaches / completions / purges / re-submissions, disconnection)
acquires its locks in rank order and ends holding none. -/
theorem tower_ops_rank_respecting : ∀ t ∈ opTraces, respects (fun l => l) [] t.2 := by decide

/-- hence any number of threads running those operations, under any schedule, never deadlock -/
theorem tower_never_deadlocks (ops : List (String × List Ev)) (hops : ∀ o ∈ ops, o ∈ opTraces)
    (c : Conc.Cfg) (hr : Reach (ops.map fun o => { held := [], rest := o.2 }) c)
    (hun : ∃ t ∈ c, t.rest ≠ []) : ∃ t ∈ c, enabled c t := by
  apply deadlock_free_forever (fun l => l) _ c _ hr hun
  intro t ht
  simp only [List.mem_map] at ht
  obtain ⟨o, ho, rfl⟩ := ht
  exact tower_ops_rank_respecting o (hops o ho)

/-- the two orders the code used before the fixes f9a11fe / e6f2866 cannot both respect any rank:
`users → db` with `db → users`, and `carrier → db` with `db → carrier` -/
theorem old_orders_have_no_rank (rank : Lock → Nat) :
    ¬ (respects rank [] [.acq 4, .acq 5, .rel 5, .rel 4] ∧ respects rank [] [.acq 5, .acq 4, .rel 4, .rel 5]) := by
  intro ⟨h1, h2⟩
  simp [respects] at h1 h2
  omega

/-! ### no aborting request handler -/

/-- reads never abort and never change anything -/
theorem reads_never_abort (cfg : Teos.Cfg) (s : Tower) (node : Node) (signer : Option User) (loc : Loc) :
    (step cfg s node (.get signer loc)).1.aborted = s.aborted ∧
    (step cfg s node (.sub signer)).1.aborted = s.aborted := by
  simp only [step]
  constructor <;> split <;> rfl

/-- registration never aborts when the user's record is the same in memory and on disk -/
theorem register_never_aborts (cfg : Teos.Cfg) (s : Tower) (u : User) (hs : s.aborted = none)
    (hsync : s.db.users u = s.mem.users u) : (register cfg s u).1.aborted = none := by
  unfold register addUpdateUser
  cases hm : s.mem.users u with
  | some ui =>
    simp only [hm]
    by_cases hx : ui.slots + cfg.slots > u32Max
    · simp [hx, hs]
    · simp [hx, hs]
  | none =>
    rw [hm] at hsync
    simp [hm, Db.storeUser, hsync, hs]

/-- a refused request never aborts -/
theorem refused_request_never_aborts (s : Tower) (node : Node) (signer : Option User) (r : Reply)
    (h : authCheck s signer = .error r) (loc : Loc) (blob : Blob) (tsd usig : Nat) :
    (addAppointment s node signer loc blob tsd usig).1 = s := by
  simp [addAppointment, h]

/-- the abort marker is sticky and nothing runs after it (a poisoned mutex) -/
theorem aborted_is_final (cfg : Teos.Cfg) (s : Tower) (node : Node) (op : Op) (site : String)
    (h : s.aborted = some site) : (step cfg s node op).1 = s := by
  cases op <;> simp [step, h]


/-! ### history level: no abort site is ever reached; the data stays consistent -/

open Teos in
/-- **the tower never aborts**: started as `main.rs` starts it (a consistent database, a chain of
distinct blocks), and fed any history of registrations, submissions (any signer, locator, blob),
reads, block connections (block hashes not repeated, heights ≥ 6) and disconnections of the tip —
whatever bitcoind answers at each step — no `unwrap`, `unreachable!` or checked subtraction of the
model is ever hit: no mutex is poisoned, every later request is served. -/
theorem tower_never_aborts (cfg : Teos.Cfg) (db : Db) (height : Nat) (blocks : List (Nat × List TxId))
    (hdb : DbInv db) (hnd : (blocks.map (·.1)).Nodup) (hist : List (Node × Op))
    (hv : HistoryValid cfg (boot db height blocks) hist) :
    (runHistory cfg (boot db height blocks) hist).aborted = none :=
  (tinv_history cfg hist _ (tinv_boot db height blocks hdb hnd) hv).alive

open Teos in
/-- … and throughout, the database keeps its referential integrity (every appointment has its
user, every tracker its appointment and a storable status), the users held in memory are exactly
the users on disk, and the responder's index only points to blocks it still holds -/
theorem data_consistent_forever (cfg : Teos.Cfg) (db : Db) (height : Nat) (blocks : List (Nat × List TxId))
    (hdb : DbInv db) (hnd : (blocks.map (·.1)).Nodup) (hist : List (Node × Op))
    (hv : HistoryValid cfg (boot db height blocks) hist) :
    let s := runHistory cfg (boot db height blocks) hist
    DbInv s.db ∧ (∀ u, (s.mem.users u).isSome = (s.db.users u).isSome) ∧ TIInv s.mem.txIndex :=
  let h := tinv_history cfg hist _ (tinv_boot db height blocks hdb hnd) hv
  ⟨h.db, h.dom, h.txi⟩

open Teos in
/-- one step, for any consistent state (not only reachable ones) -/
theorem step_keeps_invariant (cfg : Teos.Cfg) (s : Tower) (node : Node) (op : Op) (h : TInv s)
    (hv : OpValid s op) : TInv (step cfg s node op).1 :=
  tinv_step cfg s node op h hv

open Teos in
/-- the empty database is consistent (a fresh tower satisfies the premises) -/
theorem fresh_database_consistent : DbInv Db.empty := DbInv.empty


/-! non-vacuity: a concrete history (registration, a submission, the breach, the penalty's block,
a reorg of that block, a replacement block, a read) satisfies the premises and ends with the
tracker in place -/

open Teos in
instance (s : Tower) (op : Op) : Decidable (OpValid s op) := by
  cases op <;> simp only [OpValid] <;> infer_instance

open Teos in
def decHistoryValid (cfg : Teos.Cfg) : (s : Tower) → (hist : List (Node × Op)) → Decidable (HistoryValid cfg s hist)
  | _, [] => isTrue trivial
  | s, (node, op) :: rest =>
    have := decHistoryValid cfg (step cfg s node op).1 rest
    by simp only [HistoryValid]; infer_instance

open Teos in
instance (cfg : Teos.Cfg) (s : Tower) (hist : List (Node × Op)) : Decidable (HistoryValid cfg s hist) :=
  decHistoryValid cfg s hist

open Teos in
def demoNode : Node := { send := fun _ => .ok, get := fun _ => .rpc (-5) }
def demoCfg : Teos.Cfg := { slots := 5, duration := 400, grace := 6 }
open Teos in
def demoHist : List (Node × Op) :=
  [ (demoNode, .register 1),
    (demoNode, .add (some 1) 2 (.enc 32 320 260) 7 0),
    (demoNode, .connect 8 101 [32]),
    (demoNode, .connect 9 102 [320]),
    (demoNode, .disconnect 9 102),
    (demoNode, .connect 10 102 []),
    (demoNode, .get (some 1) 2) ]

open Teos in
example : HistoryValid demoCfg (boot Db.empty 100 [(1, []), (2, [])]) demoHist := by decide
open Teos in
example : ((runHistory demoCfg (boot Db.empty 100 [(1, []), (2, [])]) demoHist).db.trackers (2, 1)).isSome = true := by
  decide

end Teos.C11
