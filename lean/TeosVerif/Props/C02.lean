/-
C02 — The tower broadcasts only what an observed breach justifies.

`Carrier::send_transaction` is the only place an RPC `sendrawtransaction` is issued; the theorems
enumerate its call sites in the model and state what each can submit.
-/
import TeosVerif.Lemmas.Tower
import TeosVerif.Gen.Calls
import TeosVerif.Lemmas.TowerJust

namespace Teos.C02
open Teos

/-- the carrier submits at most the transaction it was given -/
theorem carrier_submits_only_its_argument (m : Mem) (node : Node) (tx : TxId) (r : Rpc)
    (h : r ∈ (carrierSend m node tx).2.2) : r = .send tx := by
  rcases carrierSend_log m node tx with h0 | h0 <;> rw [h0] at h <;> simp at h
  exact h

/-- **breach_submits_only_its_penalty**: handling the breach of appointment `k` under dispute `d`
asks the node about, and submits, nothing but the penalty `p` it was handed -/
theorem breach_submits_only_its_penalty (s : Tower) (node : Node) (k : Uuid) (d p : TxId) (u : User) (r : Rpc)
    (h : r ∈ (handleBreach s node k d p u).2.2) : r = .get p ∨ r = .send p := by
  unfold handleBreach at h
  split at h
  · split at h <;> simp at h
  · split at h
    · simp at h; exact Or.inl h
    · simp only [List.mem_cons] at h
      rcases h with h | h
      · exact Or.inl h
      · exact Or.inr (carrier_submits_only_its_argument _ _ _ _ h)

/-- **only_decrypted_penalties_of_triggered_appointments**: in the per-block loop the penalty
handed to the responder is the decryption, under the dispute id seen in the block, of the blob of
a *stored* appointment; an appointment that does not decrypt causes no RPC at all. -/
theorem loop_submits_only_decrypted_penalties (s : Tower) (node : Node) (d : TxId) (inv : List Uuid)
    (log : List Rpc) (k : Uuid) (r : Rpc) (h : r ∈ (breachStep node d (s, inv, log) k).2.2) :
    r ∈ log ∨ ∃ a p, s.db.appts k = some a ∧ a.blob.decrypt d = some p ∧ (r = .get p ∨ r = .send p) := by
  unfold breachStep at h
  simp only at h
  cases hrow : s.db.appts k with
  | none => simp [hrow] at h; exact Or.inl h
  | some a =>
    simp only [hrow] at h
    cases hdec : a.blob.decrypt d with
    | none => simp [hdec] at h; exact Or.inl h
    | some p =>
      simp only [hdec] at h
      have : r ∈ log ++ (handleBreach s node k d p a.user).2.2 := by
        split at h <;> exact h
      rcases List.mem_append.1 this with h1 | h1
      · exact Or.inl h1
      · exact Or.inr ⟨a, p, rfl, hdec, breach_submits_only_its_penalty s node k d p a.user r h1⟩

/-- **not_triggered_not_submitted**: the block loop only looks at transactions whose locator is
the locator of a stored appointment -/
theorem only_matching_locators_are_disputes (s : Tower) (txs : List TxId) (t : TxId)
    (h : t ∈ txs.filter fun t => !(s.db.uuidsWithLoc (locOf t)).isEmpty) :
    t ∈ txs ∧ ∃ k, k ∈ s.db.uuidsWithLoc (locOf t) := by
  simp only [List.mem_filter] at h
  refine ⟨h.1, ?_⟩
  cases hl : s.db.uuidsWithLoc (locOf t) with
  | nil => simp [hl] at h
  | cons k _ => exact ⟨k, by simp⟩

/-- **no_send_for_purged**: the gatekeeper runs first; nothing of a user it purged in this block is
left for the watcher to find -/
theorem no_send_for_purged (cfg : Cfg) (s : Tower) (H : Nat) (l : Loc) (k : Uuid)
    (h : k ∈ (gkConnect cfg s H).db.uuidsWithLoc l) : k.2 ∉ outdatedUsers cfg s H := by
  unfold Db.uuidsWithLoc Db.liveAppts at h
  simp only [List.mem_filter] at h
  obtain ⟨⟨_, hsome⟩, _⟩ := h
  rw [gkConnect_db_appts] at hsome
  intro hin
  simp [hin] at hsome

/-- the listener order of `main.rs` is the one `connectBlock` models: gatekeeper, watcher, responder -/
theorem listener_order_is_modelled : Gen.listenerOrder = ["gatekeeper", "watcher", "responder"] := by decide

/-- **reorg_resubmits_only_tracker_txs**: after a reorg only the dispute and the penalty of an
existing tracker are re-announced -/
theorem reorg_resubmits_only_tracker_txs (node : Node) (height : Nat) (s : Tower) (rej : List Uuid)
    (log : List Rpc) (k : Uuid) (r : Rpc) (h : r ∈ (reorgStep node height (s, rej, log) k).2.2) :
    r ∈ log ∨ ∃ t, s.db.trackers k = some t ∧ (r = .send t.dispute ∨ r = .send t.penalty) := by
  unfold reorgStep at h
  simp only at h
  cases ht : s.db.trackers k with
  | none => simp [ht] at h; exact Or.inl h
  | some t =>
    simp only [ht] at h
    have key : r ∈ log ++ (carrierSend s.mem node t.dispute).2.2 ++
        (carrierSend (carrierSend s.mem node t.dispute).1 node t.penalty).2.2 := by
      split at h
      · exact List.mem_append_left _ h
      · exact List.mem_append_left _ h
      · split at h
        · exact h
        · split at h <;> exact h
    rcases List.mem_append.1 key with h1 | h1
    · rcases List.mem_append.1 h1 with h2 | h2
      · exact Or.inl h2
      · exact Or.inr ⟨t, rfl, Or.inl (carrier_submits_only_its_argument _ _ _ _ h2)⟩
    · exact Or.inr ⟨t, rfl, Or.inr (carrier_submits_only_its_argument _ _ _ _ h1)⟩

/-- **rebroadcast_only_tracker_penalty** -/
theorem rebroadcast_only_tracker_penalty (node : Node) (height : Nat) (s : Tower) (rej : List Uuid)
    (log : List Rpc) (k : Uuid) (r : Rpc) (h : r ∈ (rebroadcastStep node height (s, rej, log) k).2.2) :
    r ∈ log ∨ ∃ t, s.db.trackers k = some t ∧ r = .send t.penalty := by
  unfold rebroadcastStep at h
  simp only at h
  cases ht : s.db.trackers k with
  | none => simp [ht] at h; exact Or.inl h
  | some t =>
    simp only [ht] at h
    have key : r ∈ log ++ (carrierSend s.mem node t.penalty).2.2 := by
      split at h
      · exact h
      · split at h <;> exact h
    rcases List.mem_append.1 key with h1 | h1
    · exact Or.inl h1
    · exact Or.inr ⟨t, rfl, carrier_submits_only_its_argument _ _ _ _ h1⟩

/-- **responded_implies_node_has**: a tracker is recorded only with an accepted status, i.e. the
penalty was found confirmed in the index, found in the mempool, or taken by the node just now -/
theorem responded_implies_node_has (s : Tower) (node : Node) (k : Uuid) (d p : TxId) (u : User)
    (hnt : s.db.trackers k = none) (t : Tracker)
    (h : (handleBreach s node k d p u).1.db.trackers k = some t) :
    t.penalty = p ∧ t.dispute = d ∧
    ((s.mem.txIndex.get p).isSome ∨ carrierInMempool node p = true ∨
      (carrierSend s.mem node p).2.1.accepted = true) := by
  have addT : ∀ (s' : Tower) (t' : Tracker), s'.db.trackers k = none →
      (addTracker s' k t').db.trackers k = some t → t = t' ∧ t'.status.accepted = true := by
    intro s' t' hn hh
    unfold addTracker Db.storeTracker at hh
    by_cases hacc : t'.status.accepted = true
    · simp only [hacc, Bool.not_true, Bool.false_eq_true, ↓reduceIte, hn] at hh
      split at hh
      · rename_i db' hst
        split at hst
        · cases hst; simp at hh; exact ⟨hh.symm, hacc⟩
        · cases hst
      · rw [hn] at hh; cases hh
    · simp only [hacc, Bool.not_false, ↓reduceIte] at hh
      rw [hn] at hh; cases hh
  unfold handleBreach at h
  cases hi : s.mem.txIndex.get p with
  | some b =>
    simp only [hi] at h
    cases hh : s.mem.txIndex.getHeight b with
    | none => simp only [hh, abort_db] at h; rw [hnt] at h; cases h
    | some hgt =>
      simp only [hh] at h
      obtain ⟨e, _⟩ := addT s _ hnt h
      subst e; exact ⟨rfl, rfl, Or.inl rfl⟩
  | none =>
    simp only [hi] at h
    by_cases hm : carrierInMempool node p = true
    · simp only [hm, ↓reduceIte] at h
      obtain ⟨e, _⟩ := addT s _ hnt h
      subst e; exact ⟨rfl, rfl, Or.inr (Or.inl hm)⟩
    · simp only [hm, Bool.false_eq_true, ↓reduceIte] at h
      by_cases hacc : (carrierSend s.mem node p).2.1.accepted = true
      · simp only [hacc, ↓reduceIte] at h
        obtain ⟨e, _⟩ := addT { s with mem := (carrierSend s.mem node p).1 } _ hnt h
        subst e; exact ⟨rfl, rfl, Or.inr (Or.inr hacc)⟩
      · simp only [hacc, Bool.false_eq_true, ↓reduceIte] at h
        rw [hnt] at h; cases h

/-- **disconnected_cache_purged**: after a disconnection the locator cache no longer answers with
the transactions of the disconnected block (C19 gives the exact window) -/
theorem disconnect_updates_cache (s : Tower) (b H : Nat) :
    (disconnectBlock s b H).mem.cache = s.mem.cache.removeDisconnected b := by
  simp [disconnectBlock, watcherDisconnect, respDisconnect]

/-! ### whole histories -/

/-- a fresh tower started on any recent blocks, with the ghost record of what those blocks showed -/
def start (height : Nat) (blocks : List (Nat × List TxId)) : Tower × Ghost :=
  (boot Db.empty height blocks, { seen := blocks.flatMap (·.2), accepted := [], sent := [] })

theorem start_inv (height : Nat) (blocks : List (Nat × List TxId)) : GInv (start height blocks) := by
  refine ⟨just_boot _ _ _ _ (fun k t h => by cases h) ?_, ?_, fun tx h => by cases h⟩
  · intro b hb x hx
    exact List.mem_flatMap.2 ⟨b, hb, hx⟩
  · intro k b h
    obtain ⟨a, ha, _⟩ := h
    cases ha

/-- **every_broadcast_is_justified**: after ANY history of requests, block connections and
disconnections (any node behaviour, no bound on length), every transaction the tower has handed to
the node is the penalty that the blob of an appointment it had answered with a receipt decrypts to
under a transaction of a connected block carrying that appointment's locator — or that dispute
transaction itself. -/
theorem every_broadcast_is_justified (cfg : Cfg) (height : Nat) (blocks : List (Nat × List TxId))
    (hist : List (Node × Op)) (tx : TxId) (h : tx ∈ (runG cfg (start height blocks) hist).2.sent) :
    ∃ k b d p, (k, b) ∈ (runG cfg (start height blocks) hist).2.accepted ∧
      d ∈ (runG cfg (start height blocks) hist).2.seen ∧ locOf d = k.1 ∧ b.decrypt d = some p ∧ (tx = p ∨ tx = d) :=
  (ginv_runG cfg hist _ (start_inv height blocks)).sent tx h

/-- **next_operation_submits_only_for_held_appointments**: in the state reached by any history, whatever
the next operation submits is justified by an appointment held *at that moment* (or accepted by this
very request): nothing is submitted on behalf of appointments that were deleted, whose owner was
removed, or that were never triggered. -/
theorem next_operation_submits_only_for_held_appointments (cfg : Cfg) (height : Nat) (blocks : List (Nat × List TxId))
    (hist : List (Node × Op)) (node : Node) (op : Op) (tx : TxId) :
    let sg := runG cfg (start height blocks) hist
    Rpc.send tx ∈ (step cfg sg.1 node op).2.2 →
    JustifiedBy (heldDuring sg.1 node op) (sg.2.seen ++ opTxs op) tx := by
  intro sg h
  exact (stepOk_step cfg sg.1 sg.2.seen node op (ginv_runG cfg hist _ (start_inv height blocks)).just).sends tx h

/-- **responded_only_when_justified**: in every reachable state, an appointment reported as
`dispute_responded` (a tracker row) still has its appointment row, whose blob decrypts under the
tracker's dispute id to exactly the tracker's penalty, and that dispute was seen in a connected block -/
theorem responded_only_when_justified (cfg : Cfg) (height : Nat) (blocks : List (Nat × List TxId))
    (hist : List (Node × Op)) (k : Uuid) (t : Tracker) :
    let sg := runG cfg (start height blocks) hist
    sg.1.db.trackers k = some t →
    ∃ a, sg.1.db.appts k = some a ∧ a.blob.decrypt t.dispute = some t.penalty ∧ t.dispute ∈ sg.2.seen ∧
      locOf t.dispute = k.1 := by
  intro sg h
  exact (ginv_runG cfg hist _ (start_inv height blocks)).just.trk k t h

/-- **held_appointments_were_accepted**: every appointment row of a reachable state was answered with a
receipt earlier in the history -/
theorem held_appointments_were_accepted (cfg : Cfg) (height : Nat) (blocks : List (Nat × List TxId))
    (hist : List (Node × Op)) (k : Uuid) (a : Appt) :
    let sg := runG cfg (start height blocks) hist
    sg.1.db.appts k = some a → (k, a.blob) ∈ sg.2.accepted := by
  intro sg h
  exact (ginv_runG cfg hist _ (start_inv height blocks)).held k a.blob ⟨a, h, rfl⟩

/-- **restart_keeps_justification**: restarting on the database of any reachable state (any recent
blocks handed to the bootstrap) gives a state in which the invariant holds again -/
theorem restart_keeps_justification (cfg : Cfg) (height : Nat) (blocks : List (Nat × List TxId))
    (hist : List (Node × Op)) (height' : Nat) (blocks' : List (Nat × List TxId)) :
    let sg := runG cfg (start height blocks) hist
    GInv (boot sg.1.db height' blocks', { sg.2 with seen := sg.2.seen ++ blocks'.flatMap (·.2) }) := by
  intro sg
  have gi := ginv_runG cfg hist _ (start_inv height blocks)
  refine ⟨just_boot _ _ _ _ (gi.just.trk.mono (fun x h => List.mem_append.2 (Or.inl h))) ?_, gi.held, ?_⟩
  · intro b hb x hx
    exact List.mem_append.2 (Or.inr (List.mem_flatMap.2 ⟨b, hb, hx⟩))
  · intro tx h
    exact (gi.sent tx h).mono (fun _ _ hh => hh) (fun x hh => List.mem_append.2 (Or.inl hh))

/-! the hypotheses are met and the conclusion is not vacuous: a history in which a penalty is submitted -/

def demoNode : Node := { send := fun _ => .ok, get := fun _ => .rpc (-5) }
def demoCfg : Cfg := { slots := 10, duration := 100, grace := 10 }
def demoHist : List (Node × Op) :=
  [(demoNode, .register 7), (demoNode, .add (some 7) 2 (.enc 32 99 10) 20 1),
   (demoNode, .connect 1000 101 [32, 500]), (demoNode, .connect 1001 102 [])]

example : (runG demoCfg (start 100 []) demoHist).2.sent = [99] := by decide
example : (runG demoCfg (start 100 []) demoHist).2.accepted = [((2, 7), .enc 32 99 10)] := by decide

/-- **send_call_sites_are_the_modelled_ones** (tie to the source, regenerated on every run): in the
non-test source of `teos/src`, `sendrawtransaction` is issued only by `Carrier::send_transaction`
(which may call itself once the node is reachable again), and the carrier is asked to send only by
`Responder::handle_breach`, twice by `handle_reorged_txs` and once by `rebroadcast_stale_txs` — exactly
the call sites `handleBreach`, `reorgStep` and `rebroadcastStep` of the model; `handle_breach` itself is
called only from the watcher's two paths (`breachStep`, `storeTriggeredAppointment`). -/
theorem send_call_sites_are_the_modelled_ones :
    Gen.Calls.sendRaw = [("carrier", "send_transaction", "")] ∧
    Gen.Calls.carrierSend = [("carrier", "send_transaction", ""), ("responder", "handle_breach", ""),
      ("responder", "handle_reorged_txs", ""), ("responder", "handle_reorged_txs", ""),
      ("responder", "rebroadcast_stale_txs", "")] ∧
    Gen.Calls.handleBreach = [("watcher", "store_triggered_appointment", ""), ("watcher", "handle_breaches", "")] := by
  decide

end Teos.C02
