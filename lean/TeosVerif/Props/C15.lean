/-
C15 — Every HTTP request gets a documented answer; bad ones change nothing.

Model: `Model/Http.lean` (routing, size limits, decoding-error categories, field validation,
`match_status`; limits / error constants / the status table regenerated from the sources into
`Gen.Consts`) in front of the tower model `Model/Tower.lean` (the internal API).
The decoding of arbitrary bytes into one of the `Fault` categories is serde's and warp's: it is
compared on the real router for every category (single-fault bodies), and unstructured bytes are
checked by monitors only (documented status, JSON error with a documented code, no change).
-/
import TeosVerif.Model.Http
import TeosVerif.Model.Tower

namespace Teos.C15
open Teos.Http

/-- what the internal API can answer: success or one of the six gRPC codes its handlers use -/
def InternalOk (g : Grpc) : Prop := g = none ∨ ∃ c, g = some c ∧ c ∈ internalCodes

theorem grpcReply_internal (c : String) (h : c ∈ internalCodes) :
    (grpcReply c).1 ∈ [400, 401, 404, 503] ∧ (grpcReply c).2 ∈ documentedCodes ∧
    (grpcReply c).2 ≠ Gen.UNEXPECTED_ERROR := by
  simp only [internalCodes, List.mem_cons, List.mem_nil_iff, or_false] at h
  rcases h with rfl | rfl | rfl | rfl | rfl | rfl <;> decide

theorem faultCode_documented (f : Fault) (c : Nat) (h : faultCode f = some c) :
    c ∈ documentedCodes ∧ c ≠ Gen.UNEXPECTED_ERROR := by
  cases f <;> simp only [faultCode, Option.some.injEq, reduceCtorEq] at h <;> subst h <;> decide

/-- **every request gets a documented status**: 200, a 4xx from the documented set, or 503 —
never another 5xx — for every method, path, length and body, whatever the tower answers -/
theorem respond_documented (r : Request) (g : Grpc) (hg : InternalOk g) :
    (respond r g).1 ∈ [200, 400, 401, 404, 405, 411, 413, 503] := by
  unfold respond
  split
  · decide
  · split <;> decide
  · split
    · decide
    · split
      · decide
      · split
        · decide
        · split
          · simp
          · rcases hg with rfl | ⟨c, rfl, hc⟩
            · decide
            · have := (grpcReply_internal c hc).1
              simp only [List.mem_cons, List.mem_nil_iff, or_false] at this ⊢
              rcases this with h | h | h | h <;> simp [h]

/-- **a request that addressed an existing endpoint with the right method and an acceptable
size gets, when refused, a JSON error with a documented code — never the catch-all 255** -/
theorem routed_error_documented (r : Request) (g : Grpc) (hg : InternalOk g) (e : Endpoint)
    (he : r.endpoint = some e) (hp : e ≠ .ping) (hm : r.method = .post) (n : Nat)
    (hn : r.contentLength = some n) (hl : n ≤ e.limit) (hs : (respond r g).1 ≠ 200) :
    (respond r g).2 ∈ documentedCodes ∧ (respond r g).2 ≠ Gen.UNEXPECTED_ERROR := by
  unfold respond at hs ⊢
  rw [he] at hs ⊢
  cases e with
  | ping => exact absurd rfl hp
  | register | addAppointment | getAppointment | getSubscriptionInfo =>
    simp only [hm, ne_eq, not_true_eq_false, ↓reduceIte, hn, Nat.not_lt.mpr hl] at hs ⊢
    cases hf : faultCode r.fault with
    | some c => simp only [hf]; exact faultCode_documented _ _ hf
    | none =>
      simp only [hf] at hs ⊢
      rcases hg with rfl | ⟨c, rfl, hc⟩
      · simp at hs
      · exact (grpcReply_internal c hc).2

/-- a request that is not forwarded is answered without consulting the tower at all: whatever
the tower would say, the answer is the same — so such a request cannot change the tower -/
theorem refused_before_the_tower (r : Request) (h : forwarded r = false) (g1 g2 : Grpc) :
    respond r g1 = respond r g2 := by
  unfold forwarded at h
  unfold respond
  cases he : r.endpoint with
  | none => rfl
  | some e =>
    cases e with
    | ping => rfl
    | register | addAppointment | getAppointment | getSubscriptionInfo =>
      simp only [he] at h ⊢
      by_cases hm : r.method = .post
      · simp only [hm, decide_true, Bool.true_and, ne_eq, not_true_eq_false, ↓reduceIte] at h ⊢
        cases hn : r.contentLength with
        | none => rfl
        | some n =>
          simp only [hn] at h ⊢
          split
          · rfl
          · rename_i hl
            have hle := Nat.le_of_not_lt hl
            simp only [decide_eq_true hle, Bool.true_and] at h
            cases hc : faultCode r.fault with
            | some c => rfl
            | none => simp [hc] at h
      · simp [hm]

/-- **what reaches the internal API satisfies its unwritten preconditions**: the body decoded,
no field missing, empty, of the wrong type or of the wrong size — so `appointment.unwrap()` and
`Locator::from_slice(..).unwrap()` in api/internal.rs cannot fail -/
theorem forwarded_is_well_formed (r : Request) (h : forwarded r = true) :
    r.fault = .none ∨ r.fault = .notAKey := by
  unfold forwarded at h
  cases he : r.endpoint with
  | none => simp [he] at h
  | some e =>
    cases e with
    | ping => simp [he] at h
    | register | addAppointment | getAppointment | getSubscriptionInfo =>
      simp only [he, Bool.and_eq_true, Option.isNone_iff_eq_none] at h
      cases hf : r.fault <;> simp [hf, faultCode] at h ⊢

/-! ### behind the HTTP layer: refused requests leave the tower as it was -/

open Teos in
theorem abort_same (s : Tower) (site : String) (h : (s.abort site).aborted = s.aborted) :
    s.abort site = s := by
  unfold Tower.abort at h ⊢
  cases ha : s.aborted with
  | some x => rfl
  | none => simp [ha] at h

open Teos in
/-- registration refused (slot counter would overflow): nothing changes, unless the abort marker
appears (a store failure, which C11 excludes) -/
theorem register_refused_no_change (cfg : Cfg) (s s' : Tower) (u : User)
    (h : register cfg s u = (s', .maxSlots)) (hab : s'.aborted = s.aborted) : s' = s := by
  unfold register addUpdateUser at h
  cases hu : s.mem.users u with
  | some ui =>
    simp only [hu] at h
    by_cases hgt : ui.slots + cfg.slots > u32Max
    · simp only [hgt, ↓reduceIte, Prod.mk.injEq, and_true] at h; exact h.symm
    · simp [hgt] at h
  | none =>
    simp only [hu] at h
    cases hst : s.db.storeUser u { slots := cfg.slots, start := s.mem.gkHeight, expiry := s.mem.gkHeight + cfg.duration } with
    | none =>
      simp only [hst, Prod.mk.injEq, and_true] at h
      subst h
      exact abort_same s _ hab
    | some db' => simp [hst] at h

open Teos in
/-- a submission answered with an error (authentication, expiry, no slots, already triggered)
changes nothing -/
theorem add_refused_no_change (s s' : Tower) (node : Node) (sg : Option User) (l : Loc) (b : Blob)
    (t u : Nat) (r : Reply) (lg : List Rpc)
    (h : addAppointment s node sg l b t u = (s', r, lg))
    (herr : r = .authFail ∨ (∃ e, r = .expired e) ∨ r = .notEnoughSlots ∨ r = .alreadyTriggered)
    (hab : s'.aborted = s.aborted) : s' = s := by
  unfold addAppointment at h
  cases hauth : authCheck s sg with
  | error e => simp only [hauth, Prod.mk.injEq] at h; exact h.1.symm
  | ok p =>
    simp only [hauth] at h
    by_cases htr : (s.db.trackers (l, p.1)).isSome = true
    · simp only [htr, ↓reduceIte, Prod.mk.injEq] at h; exact h.1.symm
    · simp only [htr, Bool.false_eq_true, ↓reduceIte] at h
      unfold addUpdateAppointment at h
      cases hu : s.mem.users p.1 with
      | none =>
        simp only [hu, Prod.mk.injEq] at h
        obtain ⟨h1, _, _⟩ := h
        subst h1
        exact abort_same s _ hab
      | some ui =>
        simp only [hu] at h
        by_cases hfit : Gen.slotsFit (↑(slotsOf b.len) - ↑(slotsOf ((Option.map (fun a => a.blob.len) (s.db.appts (l, p.fst))).getD 0))) ↑ui.slots = true
        · simp only [hfit, ↓reduceIte, Prod.mk.injEq] at h
          obtain ⟨_, h2, _⟩ := h
          subst h2
          rcases herr with e | ⟨_, e⟩ | e | e <;> cases e
        · simp only [hfit, Bool.false_eq_true, ↓reduceIte, Prod.mk.injEq] at h
          exact h.1.symm

open Teos in
/-- reads never change the tower -/
theorem reads_no_change (cfg : Cfg) (s : Tower) (node : Node) (sg : Option User) (l : Loc) :
    (step cfg s node (.get sg l)).1 = s ∧ (step cfg s node (.sub sg)).1 = s := by
  simp only [step]
  constructor <;> split <;> rfl

/-- non-vacuity: a request with a 15-byte locator is refused with 400 / WRONG_FIELD_SIZE before the
tower sees it; a valid one whose user is unknown gets 401 / 7; an oversized one 413 -/
example :
    respond { method := .post, endpoint := some .addAppointment, contentLength := some 300, fault := .wrongSize } none = (400, 4) ∧
    respond { method := .post, endpoint := some .addAppointment, contentLength := some 300, fault := .none } (some "Unauthenticated") = (401, 7) ∧
    respond { method := .post, endpoint := some .register, contentLength := some 88, fault := .none } none = (413, 0) ∧
    respond { method := .get, endpoint := some .register, contentLength := some 0, fault := .none } none = (405, 0) := by
  decide

end Teos.C15
