/-
C07 — Slot accounting is conserved and identical in memory, on disk and on the wire.

Two parts.
(1) The slot formula. `compute_appointment_slots` is `(n as f32 / 2048 as f32).ceil() as u32`.
    `f32OfNat` below is IEEE-754 binary32 round-to-nearest-even of an integer; division by 2^11 is
    exact in binary floating point, `ceil` and the cast are exact. The theorem says the formula is
    the exact ceiling for every length below 2^24 (far above the 2 KiB HTTP and 4 MiB gRPC caps)
    and the bound is tight (witness 2^24 + 1). The correspondence harness compares `slotsF32` with
    the real function for every n ≤ 2^24 + 2^13 (exhaustive) and samples above.
(2) Conservation in differential form: each primitive changes `available + occupied` by exactly
    what the property allows (registration +slots; add/update the difference; refund +slots of
    the completed appointment; a drop without refund leaves the balance alone = forfeited).
    The sum form is what the monitor recomputes from the real tables after every operation.
(3) The sum form for whole histories (`Lemmas/TowerSlots.lean`): `held = available + occupied` of a user
    never grows by more than a registration grants, in any step of any history, so in every reachable
    state available + occupied ≤ granted (what is missing is what was forfeited).
-/
import TeosVerif.Lemmas.Tower
import TeosVerif.Lemmas.TowerUsers
import TeosVerif.Model.Slots
import TeosVerif.Lemmas.TowerSlots

namespace Teos.C07
open Teos

/-! ### (1) the formula -/

/-- **slots_formula**: below 2^24 bytes the float formula is the exact ceiling `⌈n / 2048⌉`. -/
theorem slots_formula (n : Nat) (h : n < 2 ^ 24) : slotsF32 n = (n + 2047) / 2048 := by
  unfold slotsF32 f32OfNat
  rw [if_pos h]; rfl

/-- the source still has the shape this model translates (`(n as f32 / max as f32).ceil() as u32`) -/
theorem formula_shape_is_modelled : Gen.slotsFormulaShape = "(blob_sizeasf32/blob_max_sizeasf32).ceil()asu32" := by decide

/-- the model's `slotsOf` is that ceiling -/
theorem slotsOf_eq (n : Nat) : slotsOf n = (n + 2047) / 2048 := by
  simp [slotsOf, Gen.ENCRYPTED_BLOB_MAX_SIZE]

theorem slotsOf_is_ceil (n : Nat) : slotsOf n * 2048 ≥ n ∧ (slotsOf n - 1) * 2048 < n ∨ n = 0 := by
  rw [slotsOf_eq]
  by_cases h0 : n = 0
  · exact Or.inr h0
  · left; omega

/-- **at least one slot for a non-empty blob** (the HTTP API refuses an empty `encrypted_blob`) -/
theorem at_least_one_slot (n : Nat) (h : 0 < n) : 1 ≤ slotsOf n := by
  rw [slotsOf_eq]; omega

/-- the bound is tight: at 2^24 + 1 the float formula is one slot short -/
theorem slots_formula_bound_tight :
    slotsF32 (2 ^ 24 + 1) = 8192 ∧ (2 ^ 24 + 1 + 2047) / 2048 = 8193 := by decide

/-! ### (2) conservation, step by step -/

/-- slots occupied so far by what is stored under key `k` (0 when nothing is) -/
def usedSlots (s : Tower) (k : Uuid) : Nat := slotsOf (((s.db.appts k).map fun a => a.blob.len).getD 0)

/-- **charge_is_diff**: an accepted submission/replacement changes the balance by exactly
`required − previously used`, and is accepted iff that difference fits the balance. -/
theorem charge_is_diff (s : Tower) (u : User) (k : Uuid) (len : Nat) (ui : UserInfo)
    (hu : s.mem.users u = some ui) :
    (slotsOf len ≤ ui.slots + usedSlots s k →
      (addUpdateAppointment s u k len).2 = some (ui.slots + usedSlots s k - slotsOf len) ∧
      (addUpdateAppointment s u k len).1.mem.users u =
        some { ui with slots := ui.slots + usedSlots s k - slotsOf len }) ∧
    (ui.slots + usedSlots s k < slotsOf len → addUpdateAppointment s u k len = (s, none)) := by
  unfold addUpdateAppointment usedSlots
  simp only [hu, Gen.slotsFit]
  generalize slotsOf ((Option.map (fun a => a.blob.len) (s.db.appts k)).getD 0) = used
  generalize slotsOf len = req
  constructor
  · intro hfit
    have hd : decide ((req : Int) - (used : Int) ≤ (ui.slots : Int)) = true := by
      apply decide_eq_true; omega
    have e : ((ui.slots : Int) - ((req : Int) - (used : Int))).toNat = ui.slots + used - req := by omega
    simp [hd, e]
  · intro hno
    have hd : decide ((req : Int) - (used : Int) ≤ (ui.slots : Int)) = false := by
      apply decide_eq_false; omega
    simp [hd]

/-- **charge_conserves**: `available + occupied` of the requester is the same before and after an
accepted charge (what leaves the balance is what the new blob occupies), so the balance never
goes negative. -/
theorem charge_conserves (s : Tower) (u : User) (k : Uuid) (len : Nat) (ui : UserInfo)
    (hu : s.mem.users u = some ui) (avail : Nat)
    (h : (addUpdateAppointment s u k len).2 = some avail) :
    avail + slotsOf len = ui.slots + usedSlots s k := by
  have := charge_is_diff s u k len ui hu
  by_cases hfit : slotsOf len ≤ ui.slots + usedSlots s k
  · rw [(this.1 hfit).1] at h
    simp only [Option.some.injEq] at h
    omega
  · rw [this.2 (by omega)] at h
    cases h

/-- **no_refund_no_change**: deleting without refund (invalid, rejected) never touches a balance:
those slots are forfeited. -/
theorem no_refund_no_change (s : Tower) (ks : List Uuid) :
    (deleteAppointments s ks false).mem.users = s.mem.users ∧
    (deleteAppointments s ks false).db.users = s.db.users := by
  simp [deleteAppointments]

/-- **refund_step**: the refund of one completed appointment adds exactly its slots to its owner
and to nobody else. -/
theorem refund_step (s : Tower) (upd : List User) (k : Uuid) (a : Appt) (ui : UserInfo)
    (ha : s.db.appts k = some a) (hu : s.mem.users a.user = some ui) :
    (refundStep (s, upd) k).1.mem.users a.user = some { ui with slots := ui.slots + slotsOf a.blob.len } ∧
    (∀ x, x ≠ a.user → (refundStep (s, upd) k).1.mem.users x = s.mem.users x) ∧
    a.user ∈ (refundStep (s, upd) k).2 := by
  unfold refundStep
  simp only [ha, hu]
  refine ⟨by simp, fun x hx => by simp [hx], ?_⟩
  unfold Db.addKey; split
  · assumption
  · simp

/-- **refund_only_on_completion**: while a block is processed the only refunding deletion is that
of the trackers `check_confirmations` reports as irrevocably resolved: when there is none, no
balance moves — whatever is re-sent, rejected or dropped in that block. -/
theorem refund_only_on_completion (s : Tower) (node : Node) (b height : Nat) (txs : List TxId)
    (hc : (checkConfirmations (respPrepare s b height txs) txs height).2 = []) :
    (respConnect s node b height txs).1.mem.users = s.mem.users ∧
    (respConnect s node b height txs).1.db.users = s.db.users := by
  unfold respConnect
  simp only
  have h2 := checkConfirmations_users (respPrepare s b height txs) txs height
  generalize hcc : checkConfirmations (respPrepare s b height txs) txs height = cc at h2 hc
  obtain ⟨s2, completed⟩ := cc
  simp only at hc h2 ⊢
  subst hc
  simp only [List.isEmpty_nil, ↓reduceIte]
  have hprep : (respPrepare s b height txs).mem.users = s.mem.users ∧ (respPrepare s b height txs).db.users = s.db.users := ⟨rfl, rfl⟩
  -- handle_reorged_txs (or not)
  have h4 : ∀ r : Tower × List Uuid × List Rpc,
      r = (if s2.mem.reorged.isEmpty then (s2, [], []) else handleReorgedTxs s2 node height) →
      r.1.mem.users = s2.mem.users ∧ r.1.db.users = s2.db.users := by
    intro r hr
    subst hr
    split
    · exact ⟨rfl, rfl⟩
    · exact handleReorgedTxs_users s2 node height
  generalize hr4 : (if s2.mem.reorged.isEmpty then (s2, [], []) else handleReorgedTxs s2 node height) = r4
  have h4' := h4 r4 hr4.symm
  obtain ⟨s4, rej1, log1⟩ := r4
  simp only at h4' ⊢
  have h5 := rebroadcastStaleTxs_users s4 node height
  generalize rebroadcastStaleTxs s4 node height = r5 at h5
  obtain ⟨s5, rej2, log2⟩ := r5
  simp only at h5 ⊢
  split
  · exact ⟨h5.1.trans (h4'.1.trans (h2.1.trans hprep.1)), h5.2.trans (h4'.2.trans (h2.2.trans hprep.2))⟩
  · have h6 := deleteAppointments_norefund_users s5 (rej1 ++ rej2)
    exact ⟨h6.1.trans (h5.1.trans (h4'.1.trans (h2.1.trans hprep.1))),
           h6.2.trans (h5.2.trans (h4'.2.trans (h2.2.trans hprep.2)))⟩

/-- **registration_grants**: a registration adds exactly the configured slots (or is refused). -/
theorem registration_grants (cfg : Cfg) (s : Tower) (u : User) (ui : UserInfo)
    (hm : s.mem.users u = some ui) :
    ((register cfg s u).1.mem.users u).map (·.slots) = some (ui.slots + cfg.slots) ∨
    (register cfg s u).1 = s := by
  by_cases h : ui.slots + cfg.slots > u32Max
  · right; simp [register, addUpdateUser, hm, h]
  · left; simp [register, addUpdateUser, hm, h]

/-- **wire_equals_state**: the balance reported by `add_appointment` and by `register` is the
one the tower holds after the operation. -/
theorem wire_equals_memory_register (cfg : Cfg) (s : Tower) (u : User) (sl st e : Nat)
    (h : (register cfg s u).2 = .registered sl st e) :
    (register cfg s u).1.mem.users u = some { slots := sl, start := st, expiry := e } := by
  unfold register addUpdateUser at *
  cases hm : s.mem.users u with
  | some ui =>
    simp only [hm] at h ⊢
    by_cases hx : ui.slots + cfg.slots > u32Max
    · simp [hx] at h
    · simp only [hx, ↓reduceIte, Reply.registered.injEq] at h ⊢
      obtain ⟨h1, h2, h3⟩ := h
      subst h1; subst h2; subst h3
      simp
  | none =>
    simp only [hm] at h ⊢
    cases hs : s.db.storeUser u { slots := cfg.slots, start := s.mem.gkHeight, expiry := s.mem.gkHeight + cfg.duration } with
    | none => simp [hs] at h
    | some db' =>
      simp only [hs, Reply.registered.injEq] at h ⊢
      obtain ⟨h1, h2, h3⟩ := h
      subst h1; subst h2; subst h3
      simp

/-- non-vacuity: a 2049-byte blob costs 2 slots, replacing it by a 100-byte one returns 1 -/
example :
    let cfg : Cfg := { slots := 3, duration := 10, grace := 3 }
    let s := (register cfg (boot Db.empty 100 []) 7).1
    let s1 := (addAppointment s { send := fun _ => .ok, get := fun _ => .rpc (-5) } (some 7) 4 (.junk 1 2049) 0 0).1
    let s2 := (addAppointment s1 { send := fun _ => .ok, get := fun _ => .rpc (-5) } (some 7) 4 (.junk 2 100) 0 0).1
    (s1.mem.users 7).map (·.slots) = some 1 ∧ (s2.mem.users 7).map (·.slots) = some 2 ∧
    (s2.db.users 7).map (·.slots) = some 2 := by decide


/-! ### history level -/

/-- **the balance kept in memory and the one persisted are the same number, always**: after any
history whatsoever (registrations, submissions and replacements, reads, blocks with breaches,
completions with refunds, purges, reorgs; any node behaviour), for every user the record in the
gatekeeper's memory is the row of the users table — slots, start and expiry. -/
theorem memory_equals_disk_forever (cfg : Cfg) (db : Db) (height : Nat) (blocks : List (Nat × List TxId))
    (hist : List (Node × Op)) (u : User) :
    (runHistory cfg (boot db height blocks) hist).mem.users u =
      (runHistory cfg (boot db height blocks) hist).db.users u :=
  congrFun (usersEq_history cfg hist (boot db height blocks) rfl) u

/-- in particular a refunding deletion (completed trackers) writes to disk exactly the balances
it computed in memory, whatever the set of completed trackers and their owners -/
theorem refund_persists_what_memory_holds (s : Tower) (ks : List Uuid) (h : s.mem.users = s.db.users) :
    (deleteAppointments s ks true).mem.users = (deleteAppointments s ks true).db.users :=
  refund_users_eq s ks h


/-! ### the sum form, for whole histories -/

/-- **a_step_adds_only_what_it_grants**: in one step of any history — whatever the state, the request, the
block, the node's answers — a user's available + occupied slots (`held`) grow by at most what the step grants
them: the configured slots when it is their own registration and is not refused, nothing otherwise. A
charge, an update (bigger, smaller, undecryptable, rejected), a refund of completed trackers, a drop of
invalid or rejected ones, a purge, a reorg: none of them creates a slot. -/
theorem a_step_adds_only_what_it_grants (cfg : Cfg) (s : Tower) (node : Node) (op : Op) (h : TInv s)
    (hv : OpValid s op) (u : User) :
    held (step cfg s node op).1 u ≤ held s u + granted cfg s op u :=
  held_step cfg s node op h hv u

/-- **a_submission_creates_no_slot**: `add_appointment` never leaves anyone with more available + occupied
slots than before — in particular an update is charged against the stored version only when that version
is replaced or dropped with it (the defect repaired by ac6383c: an undecryptable smaller update of a
triggered appointment handed slots back while the old version stayed stored). -/
theorem a_submission_creates_no_slot (s : Tower) (node : Node) (sg : Option User) (l : Loc) (b : Blob) (t w : Nat)
    (h : TInv s) (u : User) : held (addAppointment s node sg l b t w).1 u ≤ held s u :=
  (hl_addAppointment s node sg l b t w h).2 u

/-- **a_block_creates_no_slot**: processing a block (purge of outdated users, breaches, completions with
their refunds, reorged and stale trackers) never leaves anyone with more than before: a refund returns
exactly what the deleted rows occupied, each once. -/
theorem a_block_creates_no_slot (cfg : Cfg) (s : Tower) (node : Node) (b height : Nat) (txs : List TxId)
    (h : TInv s) (hb : b ∉ s.mem.txIndex.blocks) (hh : Gen.CONFIRMATIONS_BEFORE_RETRY ≤ height) (u : User) :
    held (connectBlock cfg s node b height txs).1 u ≤ held s u :=
  (hl_connectBlock cfg s node b height txs h hb hh).2 u

/-- **refund_returns_what_was_occupied**: deleting completed trackers with refund leaves available + occupied
of every user exactly... at most what it was (the rows' slots move from occupied to available, each row once). -/
theorem refund_returns_what_was_occupied (s : Tower) (ks : List Uuid) (h : TInv s)
    (hk : ∀ k ∈ ks, (s.db.appts k).isSome = true) (nd : ks.Nodup) (u : User) :
    held (deleteAppointments s ks true) u ≤ held s u :=
  (hl_delete_refund s ks h hk nd).2 u

/-- **nobody_holds_more_than_granted**: start the tower on an empty database and run ANY valid history. In the
state reached, for every user, available slots + slots occupied by the appointments and trackers held
for them ≤ the slots their registrations granted since their current record began (`runGrants` keeps that
ghost count: + the configured slots at each accepted registration, back to zero when the record is purged).
The difference is what was forfeited. -/
theorem nobody_holds_more_than_granted (cfg : Cfg) (height : Nat) (blocks : List (Nat × List TxId))
    (hnd : (blocks.map (·.1)).Nodup) (hist : List (Node × Op))
    (hv : HistoryValid cfg (boot Db.empty height blocks) hist) (u : User) :
    held (runGrants cfg (boot Db.empty height blocks) (fun _ => 0) hist).1 u ≤
      (runGrants cfg (boot Db.empty height blocks) (fun _ => 0) hist).2 u := by
  apply held_le_granted cfg hist _ _ (tinv_boot Db.empty height blocks DbInv.empty hnd) hv
  intro x
  have : held (boot Db.empty height blocks) x = 0 := by
    apply held_absent _ (tinv_boot Db.empty height blocks DbInv.empty hnd)
    rfl
  omega

/-- the state the ghost run reaches is the state the history reaches -/
theorem ghost_run_is_the_run (cfg : Cfg) (hist : List (Node × Op)) (s : Tower) (g : User → Nat) :
    (runGrants cfg s g hist).1 = runHistory cfg s hist := runGrants_fst cfg hist s g

set_option maxRecDepth 20000 in
/-- non-vacuity, on the history of the repaired defect: a 3-slot appointment; its dispute is mined and the node
reports the penalty as already in the chain (no tracker); a 1-slot undecryptable update follows. The user
ends with 4 available and nothing stored, of 5 granted: the update cost its one slot (before the repair: 4 available and 3 still occupied). -/
example :
    let cfg : Cfg := { slots := 5, duration := 400, grace := 6 }
    let quiet : Node := { send := fun _ => .ok, get := fun _ => .rpc (-5) }
    let inChain : Node := { send := fun _ => .rpc Gen.RPC_VERIFY_ALREADY_IN_CHAIN, get := fun _ => .rpc (-5) }
    let hist : List (Node × Op) := [(quiet, .register 1), (quiet, .add (some 1) 3 (.enc 48 16480 4097) 10 0),
      (inChain, .connect 101 111 [48]), (quiet, .add (some 1) 3 (.junk 7 100) 10 1)]
    let blocks : List (Nat × List TxId) := [(1, []), (2, []), (3, []), (4, []), (5, []), (6, [])]
    let r := runGrants cfg (boot Db.empty 110 blocks) (fun _ => 0) hist
    HistoryValid cfg (boot Db.empty 110 blocks) hist ∧ avail r.1 1 = 4 ∧ occ r.1.db 1 = 0 ∧ r.2 1 = 5 := by
  refine ⟨⟨trivial, trivial, ⟨by decide, by decide⟩, trivial, trivial⟩, by decide⟩

end Teos.C07
