/-
C04 — Responses follow the active chain through reorgs until 100 confirmations.

Per-tracker statements about one iteration of `check_confirmations`, `block_disconnected`,
`handle_reorged_txs` and `rebroadcast_stale_txs` (the loop bodies, named `…Step` in the model), for
every state, height, block content and node behaviour; plus block-level statements about refunds.
The constants (100, 6), the `==` of completion and the `<=` / `=` of the tracker queries are taken
from the sources (`Gen`).
-/
import TeosVerif.Lemmas.Tower
import TeosVerif.Lemmas.TowerChain
import TeosVerif.Gen.Calls

namespace Teos.C04
open Teos Teos.TxIndex

/-- **completion_iff_100**: a tracker is reported completed at height `H` exactly when it is
recorded as confirmed at some `h`, its confirming block has not been disconnected, its penalty is
not (re)confirmed in this very block, and `H − h = 100`. -/
theorem completion_iff_100 (txids : List TxId) (H : Nat) (s : Tower) (done : List Uuid) (k : Uuid)
    (t : Tracker) (ht : s.db.trackers k = some t) :
    (confirmStep txids H (s, done) k).2 = done ++ [k] ↔
      (t.penalty ∉ txids ∧ k ∉ s.mem.reorged ∧ ∃ h, t.status = .confirmedIn h ∧ h ≤ H ∧ H - h = Gen.IRREVOCABLY_RESOLVED) := by
  have hne : done ≠ done ++ [k] := by
    intro e
    have := congrArg List.length e
    simp at this
  unfold confirmStep
  simp only [ht]
  by_cases hin : t.penalty ∈ txids
  · simp only [hin, ↓reduceIte, not_true_eq_false, false_and, iff_false]
    split <;> exact hne
  · simp only [hin, ↓reduceIte, not_false_eq_true, true_and]
    by_cases hr : k ∈ s.mem.reorged
    · simp only [hr, ↓reduceIte, not_true_eq_false, false_and, iff_false]; exact hne
    · simp only [hr, ↓reduceIte, not_false_eq_true, true_and]
      cases hst : t.status with
      | confirmedIn h =>
        simp only
        by_cases hc : Gen.isCompleted (H - h) = true
        · simp only [hc, ↓reduceIte, true_iff]
          simp only [Gen.isCompleted, decide_eq_true_eq] at hc
          have : Gen.IRREVOCABLY_RESOLVED = 100 := rfl
          exact ⟨h, rfl, by omega, hc⟩
        · simp only [hc, Bool.false_eq_true, ↓reduceIte]
          constructor
          · intro e; exact absurd e hne
          · rintro ⟨h', he, _, heq⟩
            cases he
            simp [Gen.isCompleted, heq] at hc
      | inMempoolSince h =>
        simp only
        constructor
        · intro e; exact absurd e hne
        · rintro ⟨h', he, _⟩; cases he
      | irrevocablyResolved =>
        simp only
        constructor
        · intro e; exact absurd e hne
        · rintro ⟨h', he, _⟩; cases he
      | rejected c =>
        simp only
        constructor
        · intro e; exact absurd e hne
        · rintro ⟨h', he, _⟩; cases he

/-- the number of confirmations required is the one of BOLT 5 -/
theorem irrevocably_resolved_is_100 : Gen.IRREVOCABLY_RESOLVED = 100 := rfl

/-- **confirmation_recorded_at_block_height**: a tracker whose penalty is in the connected block is
recorded as confirmed at that block's height and leaves the reorged set. -/
theorem confirmation_recorded (txids : List TxId) (H : Nat) (s : Tower) (done : List Uuid) (k : Uuid)
    (t : Tracker) (ht : s.db.trackers k = some t) (hacc : True) (hin : t.penalty ∈ txids) :
    (confirmStep txids H (s, done) k).1.db.trackers k = some { t with status := .confirmedIn H } ∧
    k ∉ (confirmStep txids H (s, done) k).1.mem.reorged := by
  unfold confirmStep
  simp only [ht, hin, ↓reduceIte, Db.updateTrackerStatus, CStatus.accepted, Bool.not_true, Bool.false_eq_true]
  simp

/-- **disconnection_marks_confirmed_trackers**: disconnecting the block at height `H` puts into
the reorged set every tracker recorded as confirmed at `H` (and keeps the ones already there). -/
theorem disconnection_marks (s : Tower) (b H : Nat) (k : Uuid) (t : Tracker)
    (hk : k ∈ s.db.apptKeys) (ht : s.db.trackers k = some t) (hst : t.status = .confirmedIn H) :
    k ∈ (respDisconnect s b H).mem.reorged := by
  unfold respDisconnect
  simp only
  have hin : k ∈ s.db.liveTrackers.filter (fun k => match s.db.trackers k with
      | some t => match t.status with
        | .confirmedIn h => Gen.confirmedCmp h H
        | _ => false
      | none => false) := by
    simp [Db.liveTrackers, List.mem_filter, hk, ht, hst, Gen.confirmedCmp]
  generalize s.db.liveTrackers.filter (fun k => match s.db.trackers k with
      | some t => match t.status with
        | .confirmedIn h => Gen.confirmedCmp h H
        | _ => false
      | none => false) = l at hin
  -- folding addKey over a list containing k yields a list containing k
  have key : ∀ (l : List Uuid) (init : List Uuid), (k ∈ l ∨ k ∈ init) →
      k ∈ l.foldl (fun l k => Db.addKey k l) init := by
    intro l
    induction l with
    | nil => intro init h; rcases h with h | h; cases h; exact h
    | cons x r ih =>
      intro init h
      simp only [List.foldl_cons]
      apply ih
      rcases h with h | h
      · rcases List.mem_cons.1 h with h | h
        · right; subst h; unfold Db.addKey; split; assumption; simp
        · left; exact h
      · right; unfold Db.addKey; split; exact h; exact List.mem_append_left _ h
  exact key l _ (Or.inl hin)

/-- **reorg_resubmits**: for a reorged tracker the dispute is re-sent first. If the node rejects
it the tracker is dropped (returned in the rejected list, deleted without refund) and the penalty
is not sent. -/
theorem reorg_dispute_rejected (node : Node) (H : Nat) (s : Tower) (rej : List Uuid) (log : List Rpc)
    (k : Uuid) (t : Tracker) (ht : s.db.trackers k = some t) (m1 : Mem) (c : Int) (l1 : List Rpc)
    (h1 : carrierSend s.mem node t.dispute = (m1, .rejected c, l1)) :
    reorgStep node H (s, rej, log) k = ({ s with mem := m1 }, rej ++ [k], log ++ l1) := by
  unfold reorgStep; simp only [ht, h1]

/-- …otherwise (in mempool / already in the stronger chain) the penalty is re-sent next; if that is
rejected the tracker is dropped… -/
theorem reorg_penalty_rejected (node : Node) (H : Nat) (s : Tower) (rej : List Uuid) (log : List Rpc)
    (k : Uuid) (t : Tracker) (ht : s.db.trackers k = some t) (m1 m2 : Mem) (st1 : CStatus) (c : Int)
    (l1 l2 : List Rpc) (h1 : carrierSend s.mem node t.dispute = (m1, st1, l1))
    (hst1 : st1 = .irrevocablyResolved ∨ ∃ h, st1 = .inMempoolSince h)
    (h2 : carrierSend m1 node t.penalty = (m2, .rejected c, l2)) :
    reorgStep node H (s, rej, log) k = ({ s with mem := m2 }, rej ++ [k], log ++ l1 ++ l2) := by
  unfold reorgStep
  rcases hst1 with e | ⟨h, e⟩ <;> subst e <;> simp only [ht, h1, h2, CStatus.isRejected, ↓reduceIte]

/-- …and if it is taken the tracker is recorded as in the mempool since this height (it will be
seen confirmed in one of the next blocks, or re-sent again 6 blocks later). -/
theorem reorg_resubmitted (node : Node) (H : Nat) (s : Tower) (rej : List Uuid) (log : List Rpc)
    (k : Uuid) (t : Tracker) (ht : s.db.trackers k = some t) (m1 m2 : Mem) (st1 st2 : CStatus)
    (l1 l2 : List Rpc) (h1 : carrierSend s.mem node t.dispute = (m1, st1, l1))
    (hst1 : st1 = .irrevocablyResolved ∨ ∃ h, st1 = .inMempoolSince h)
    (h2 : carrierSend m1 node t.penalty = (m2, st2, l2)) (hst2 : st2.isRejected = false) :
    (reorgStep node H (s, rej, log) k).2 = (rej, log ++ l1 ++ l2) ∧
    (reorgStep node H (s, rej, log) k).1.db.trackers k = some { t with status := .inMempoolSince H } := by
  unfold reorgStep
  rcases hst1 with e | ⟨h, e⟩ <;> subst e <;>
    simp [ht, h1, h2, hst2, Db.updateTrackerStatus, CStatus.accepted]

/-- the re-sent transactions of a reorged tracker are its dispute, then its penalty (each one RPC
unless already sent while handling this block) -/
theorem reorg_sends_dispute_then_penalty (m : Mem) (node : Node) (tx : TxId) (h : m.receipts tx = none) :
    (carrierSend m node tx).2.2 = [.send tx] ∧
    (carrierSend m node tx).2.1 = sendVerdict m.cHeight (node.send tx) := by
  rw [carrierSend_fresh m node tx h]; exact ⟨rfl, rfl⟩

/-- **rebroadcast_cadence**: a tracker is re-sent at height `H` exactly when it has been
unconfirmed since some `h` with `h + 6 ≤ H`. -/
theorem rebroadcast_cadence (s : Tower) (H : Nat) (k : Uuid) (hH : 6 ≤ H) :
    isStale s H k = true ↔
      ∃ t h, s.db.trackers k = some t ∧ t.status = .inMempoolSince h ∧ h + 6 ≤ H := by
  unfold isStale
  cases ht : s.db.trackers k with
  | none => simp
  | some t =>
    cases hst : t.status with
    | inMempoolSince h =>
      have e : Gen.staleCmp h (H - Gen.CONFIRMATIONS_BEFORE_RETRY) = true ↔ h + 6 ≤ H := by
        unfold Gen.staleCmp Gen.CONFIRMATIONS_BEFORE_RETRY
        rw [decide_eq_true_iff]; omega
      simp only [hst, e]
      constructor
      · intro hle; exact ⟨t, h, rfl, hst, hle⟩
      · rintro ⟨t', h', e1, e2, hle⟩
        cases e1; rw [hst] at e2; cases e2; exact hle
    | confirmedIn h => simp [hst]
    | irrevocablyResolved => simp [hst]
    | rejected c => simp [hst]

/-- the re-submission period is 6 blocks -/
theorem retry_period_is_6 : Gen.CONFIRMATIONS_BEFORE_RETRY = 6 := rfl

/-- **rebroadcast_outcome**: a stale tracker's penalty is re-sent; rejected ⇒ dropped (returned in
the rejected list), otherwise its clock restarts at this height. -/
theorem rebroadcast_outcome (node : Node) (H : Nat) (s : Tower) (k : Uuid) (t : Tracker)
    (ht : s.db.trackers k = some t) (hm : s.mem.receipts t.penalty = none) :
    let r := rebroadcastStep node H (s, [], []) k
    let v := sendVerdict s.mem.cHeight (node.send t.penalty)
    r.2.2 = [.send t.penalty] ∧
    (v.isRejected = true → r.2.1 = [k]) ∧
    (v.isRejected = false → r.2.1 = [] ∧ r.1.db.trackers k = some { t with status := .inMempoolSince H }) := by
  intro r v
  have e1 := carrierSend_fresh s.mem node t.penalty hm
  simp only [r, rebroadcastStep, ht]
  rw [e1]
  simp only [List.nil_append]
  by_cases hp : (sendVerdict s.mem.cHeight (node.send t.penalty)).isRejected = true
  · simp [v, hp]
  · simp only [v, hp, Bool.false_eq_true, ↓reduceIte, false_implies, true_and]
    simp [Db.updateTrackerStatus, CStatus.accepted, ht]

/-- **rejected_resubmission_dropped_no_refund** and **never_confirms_never_refunded**: every
deletion of the block step other than that of completed trackers is without refund: no balance
moves unless `check_confirmations` reports a completion (see also C07 `refund_only_on_completion`).
(`hfk`: the foreign key — no tracker without its appointment row.) -/
theorem dropped_without_refund (s : Tower) (ks : List Uuid) (k : Uuid) (hk : k ∈ ks)
    (hfk : s.db.appts k = none → s.db.trackers k = none) :
    (deleteAppointments s ks false).db.trackers k = none ∧ (deleteAppointments s ks false).db.appts k = none ∧
    (deleteAppointments s ks false).mem.users = s.mem.users ∧ (deleteAppointments s ks false).db.users = s.db.users := by
  refine ⟨?_, ?_, ?_, ?_⟩
  · simp only [deleteAppointments, Bool.false_eq_true, ↓reduceIte]
    exact Db.removeAppts_trackers_mem _ _ _ hk hfk
  · simp [deleteAppointments, Db.removeAppts_appts, hk]
  · simp [deleteAppointments]
  · simp [deleteAppointments]

/-- **completed_is_forgotten_and_refunded**: the refunding deletion removes the rows of exactly
the given trackers, in the same durable write as the refunded balances. -/
theorem completed_is_forgotten (s : Tower) (ks : List Uuid) (k : Uuid) :
    (deleteAppointments s ks true).db.trackers k =
      if k ∈ ks then none else (ks.foldl refundStep (s, [])).1.db.trackers k := by
  unfold deleteAppointments
  simp only [↓reduceIte]
  generalize (ks.foldl refundStep (s, [])) = acc
  obtain ⟨s1, upd⟩ := acc
  simp only [Db.removeApptsRefund]
  rw [foldl_db_trackers _ (by intro d u; simp)]
  simp [Db.dropAppts]

/-- the deletion and the refund are a single durable write: a crash cannot separate them -/
theorem refund_is_one_write (s : Tower) (ks : List Uuid) :
    ∃ balances, (deleteAppointments s ks true).db.log =
      (ks.foldl refundStep (s, [])).1.db.log ++ [.removeAppts ks balances] := by
  unfold deleteAppointments
  simp only [↓reduceIte]
  generalize (ks.foldl refundStep (s, [])) = acc
  obtain ⟨s1, upd⟩ := acc
  exact ⟨_, rfl⟩

/-- **deletion_call_sites_are_the_modelled_ones** (tie to the source, regenerated on every run):
`Gatekeeper::delete_appointments` is called with `refund = true` only for the completed trackers of
`Responder::filtered_block_connected`; the rejected trackers there, the watcher's invalid breaches and
a late appointment whose penalty is rejected or whose blob does not decrypt (two sites in
`store_triggered_appointment`) are deleted with `refund = false`; tracker statuses are
written only by `check_confirmations`, `handle_reorged_txs` and `rebroadcast_stale_txs`. -/
theorem deletion_call_sites_are_the_modelled_ones :
    Gen.Calls.deleteAppointments = [("responder", "filtered_block_connected", "true"),
      ("responder", "filtered_block_connected", "false"), ("watcher", "store_triggered_appointment", "false"),
      ("watcher", "store_triggered_appointment", "false"), ("watcher", "filtered_block_connected", "false")] ∧
    Gen.Calls.updateTrackerStatus = [("responder", "check_confirmations", ""), ("responder", "handle_reorged_txs", ""),
      ("responder", "rebroadcast_stale_txs", "")] ∧
    Gen.Calls.removeUsers = [("gatekeeper", "filtered_block_connected", "")] := by
  decide

/-! ### whole histories, against the active chain -/

/-- **confirmed_only_in_the_active_chain**: start a fresh tower on any recent blocks and run ANY valid
history of requests, block connections and disconnections (reorgs of any shape no deeper than the index
holds, any node behaviour, no bound on length). In the state reached, every tracker recorded as
`ConfirmedIn(h)` either awaits re-announcement because its block was just disconnected (it is in the
responder's `reorged` set, emptied by the next connected block), or the block at height `h` of the
ACTIVE chain really contains its penalty. -/
theorem confirmed_only_in_the_active_chain (cfg : Cfg) (height : Nat) (blocks : List (Nat × List TxId))
    (hpos : 0 < blocks.length) (hle : blocks.length ≤ height) (hnb : (blocks.map (·.1)).Nodup)
    (hnk : (blocks.flatMap (·.2)).Nodup) (hist : List (Node × Op))
    (hv : HistoryValidC cfg (height - blocks.length) (boot Db.empty height blocks, bootChain blocks) hist)
    (k : Uuid) (t : Tracker) (h : Nat) :
    let r := runC cfg (boot Db.empty height blocks, bootChain blocks) hist
    r.1.db.trackers k = some t → t.status = .confirmedIn h →
    k ∈ r.1.mem.reorged ∨ ConfOk r.2 (height - blocks.length) t.penalty h := by
  intro r hx hs
  exact (cinv_history cfg _ hist _ (cinv_boot height blocks hpos hle hnb hnk) hv).conf k t h hx hs

/-- **after_a_connected_block_every_confirmation_is_true**: once a block has been processed nothing is
excused any more: every `ConfirmedIn(h)` of the resulting state is true of the active chain (trackers
whose block had been disconnected were re-confirmed in the new block, re-announced and reset to
"in mempool", or dropped because the node rejected them). -/
theorem after_a_connected_block_every_confirmation_is_true (cfg : Cfg) (s : Tower) (C : Chain) (base : Nat)
    (node : Node) (b height : Nat) (txs : List TxId) (hinv : CInv s C base)
    (hv : OpValidC s C base (.connect b height txs)) (k : Uuid) (t : Tracker) (h : Nat) :
    (connectBlock cfg s node b height txs).1.db.trackers k = some t → t.status = .confirmedIn h →
    ConfOk (C ++ [(b, blockData b txs)]) base t.penalty h :=
  (cinv_connectBlock cfg s C base node b height txs hinv hv.1 hv.2.1 hv.2.2).2 k t h

/-- the invariant is kept by every valid operation from any state satisfying it, and holds at start-up -/
theorem chain_invariant_step (cfg : Cfg) (s : Tower) (C : Chain) (base : Nat) (node : Node) (op : Op)
    (h : CInv s C base) (hv : OpValidC s C base op) : CInv (step cfg s node op).1 (chainStep C op) base :=
  cinv_step cfg s C base node op h hv

/-! non-vacuity: a history with a breach, the penalty's block, a reorg of that block and a replacement
block that confirms the penalty again is valid, and ends with the tracker confirmed in the new block -/

def cNode : Node := { send := fun _ => .ok, get := fun _ => .rpc (-5) }
def cCfg : Cfg := { slots := 10, duration := 1000, grace := 10 }
def cHist : List (Node × Op) :=
  [(cNode, .register 7), (cNode, .add (some 7) 2 (.enc 32 99 10) 20 1),
   (cNode, .connect 1000 101 [32, 500]), (cNode, .connect 1001 102 [99]),
   (cNode, .disconnect 1001 102), (cNode, .connect 1002 102 [99, 7])]

example : HistoryValidC cCfg 99 (boot Db.empty 100 [(999, [1])], bootChain [(999, [1])]) cHist := by
  refine ⟨trivial, trivial, ⟨⟨by decide, by decide⟩, by decide, by decide⟩, ⟨⟨by decide, by decide⟩, by decide, by decide⟩,
    ⟨⟨⟨_, _, rfl⟩, by decide⟩, by decide, by decide⟩, ⟨⟨by decide, by decide⟩, by decide, by decide⟩, trivial⟩

example : ((runC cCfg (boot Db.empty 100 [(999, [1])], bootChain [(999, [1])]) cHist).1.db.trackers (2, 7)).map (·.status)
    = some (.confirmedIn 102) := by decide

end Teos.C04
