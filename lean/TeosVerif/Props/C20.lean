/-
C20 — Effective config is CLI over file over defaults; unsafe configs are refused.

The model is generated from `teos/src/config.rs` on every run (`Gen/Config.lean`): field list,
defaults, the patch rule of every field, the authentication table, the network table. The theorems
below are re-checked against whatever the source says now.
-/
import TeosVerif.Model.Config
namespace Teos.C20
open Teos.Gen Teos.Config

/-- **precedence** (options with a value): command line, else file, else default. -/
theorem precedence_option (dflt : String) (file cli : Option String) :
    effective .cliOption dflt file cli =
      match cli, file with
      | some c, _ => c
      | none, some f => f
      | none, none => dflt := by
  cases cli <;> cases file <;> rfl

/-- **precedence** (switches that can also be set in the file): on if given on the command line,
else the file value, else the default. -/
theorem precedence_flag (dflt : String) (file : Option String) :
    effective .orFlag dflt file (some "true") = "true" ∧
    effective .orFlag dflt file none = file.getD dflt := by
  constructor <;> simp [effective]

/-- **precedence** (settings without a command-line option): file, else default. -/
theorem precedence_file_only (dflt : String) (file cli : Option String) :
    effective .fileOnly dflt file cli = file.getD dflt := rfl

/-- **one_shot_cli_only**: the two destructive switches take effect only from the command line:
whatever the file says, absent from the command line they are off. -/
theorem one_shot_cli_only :
    (fieldInfo "overwrite_key").map (·.2) = some .cliOnly ∧
    (fieldInfo "force_update").map (·.2) = some .cliOnly ∧
    (∀ dflt file, effective .cliOnly dflt file none = "false") ∧
    (∀ dflt file, effective .cliOnly dflt file (some "true") = "true") := by
  refine ⟨by decide, by decide, fun _ _ => rfl, fun _ _ => rfl⟩

/-- no other field is treated as command-line-only -/
theorem only_those_two_are_cli_only :
    (configFields.filter fun f => f.2.2 = .cliOnly).map (·.1) = ["overwrite_key", "force_update"] := by decide

/-- **every command-line option is patched in**: the options of `Opt` (all but `data_dir`) are
exactly the fields with a command-line rule, so none is silently ignored. -/
theorem every_cli_option_is_patched :
    (cliOptions.filter fun o => o ≠ "data_dir" ∧
        ((fieldInfo o).map fun i => decide (i.2 ≠ .fileOnly)) ≠ some true) = [] ∧
    ((configFields.filter fun f => f.2.2 ≠ .fileOnly).map (·.1)).all (fun f => cliOptions.contains f) = true := by
  decide

/-- **fields are independent**: the effective value of a field depends on nothing but that
field's own default, file value and command-line value (it is a function of exactly those). -/
theorem fields_independent (name : String) (file cli : Option String) :
    effectiveField name file cli = (fieldInfo name).map fun i => effective i.2 i.1 file cli := by
  unfold effectiveField
  cases fieldInfo name <;> rfl

/-- **auth_exactly_one**: the daemon starts iff exactly one method is configured: user AND
password without cookie, or cookie without user and password (arguments: "is empty"). -/
theorem auth_exactly_one (u p c : Bool) :
    authOk u p c = true ↔ ((u = false ∧ p = false ∧ c = true) ∨ (u = true ∧ p = true ∧ c = false)) := by
  cases u <;> cases p <;> cases c <;> decide

/-- **network_known**: accepted networks and their default RPC ports; anything else is refused. -/
theorem network_known :
    verifyNet "mainnet" 0 = some ("main", 8332) ∧ verifyNet "testnet" 0 = some ("test", 18332) ∧
    verifyNet "regtest" 0 = some ("regtest", 18443) ∧ verifyNet "signet" 0 = some ("signet", 38332) ∧
    verifyNet "bitcoin" 0 = none ∧ verifyNet "" 0 = none ∧ verifyNet "net" 0 = none := by decide

/-- a network is accepted exactly when its normalised name is in the table -/
theorem network_accepted_iff (n : String) (port : Nat) :
    (verifyNet n port).isSome ↔ (networkPorts.lookup (normalizeNet n)).isSome := by
  unfold verifyNet
  simp only
  cases networkPorts.lookup (normalizeNet n) <;> simp

/-- **port_default**: an explicitly set port is kept; otherwise the network's default. -/
theorem port_default (n : String) (port d : Nat) (h : networkPorts.lookup (normalizeNet n) = some d) :
    verifyNet n port = some (normalizeNet n, if port = 0 then d else port) := by
  unfold verifyNet
  simp only [h]
  rfl

/-- the documented defaults (README / conf_template) are the ones of `impl Default` -/
theorem documented_defaults :
    fieldInfo "api_port" = some ("9814", .cliOption) ∧ fieldInfo "rpc_port" = some ("8814", .cliOption) ∧
    fieldInfo "btc_network" = some ("mainnet", .cliOption) ∧ fieldInfo "btc_rpc_connect" = some ("localhost", .cliOption) ∧
    fieldInfo "subscription_slots" = some ("10000", .fileOnly) ∧ fieldInfo "subscription_duration" = some ("4320", .fileOnly) ∧
    fieldInfo "expiry_delta" = some ("6", .fileOnly) ∧ fieldInfo "tor_control_port" = some ("9051", .cliOption) := by decide

end Teos.C20
