/-
The wire format shared by the tower's HTTP API and the client: hex and byte-reversed hex
fields, status names, JSON objects as key/value lists, and the signed byte layouts.
Field adapters, message definitions, status names and layouts come from `Gen.Wire`
(regenerated from build.rs, the .proto files, appointment.rs, receipts.rs on every run).
Core Lean only.
-/
import TeosVerif.Gen.Wire

namespace Teos.Wire

/-! ### hex (the `hex` crate: lower-case output, either case accepted) -/

def hexDigit (n : Nat) : Char := if n < 10 then Char.ofNat (48 + n) else Char.ofNat (87 + n)

def hexVal (c : Char) : Option Nat :=
  let n := c.toNat
  if 48 ≤ n ∧ n ≤ 57 then some (n - 48)
  else if 97 ≤ n ∧ n ≤ 102 then some (n - 87)
  else if 65 ≤ n ∧ n ≤ 70 then some (n - 55)
  else none

/-- `hex::encode` -/
def hexEncode : List Nat → List Char
  | [] => []
  | b :: bs => hexDigit (b / 16) :: hexDigit (b % 16) :: hexEncode bs

/-- `hex::decode`: odd length and non-hex characters are errors -/
def hexDecode : List Char → Option (List Nat)
  | [] => some []
  | [_] => none
  | a :: b :: rest =>
    match hexVal a, hexVal b, hexDecode rest with
    | some x, some y, some r => some ((16 * x + y) :: r)
    | _, _, _ => none

/-- `ser::serde_be`: the bytes reversed, then hex -/
def beEncode (bs : List Nat) : List Char := hexEncode bs.reverse
def beDecode (s : List Char) : Option (List Nat) := (hexDecode s).map List.reverse

/-- `ser::serde_vec_bytes` -/
def vecEncode (vs : List (List Nat)) : List (List Char) := vs.map hexEncode
def vecDecode : List (List Char) → Option (List (List Nat))
  | [] => some []
  | s :: ss => match hexDecode s, vecDecode ss with
    | some v, some vs => some (v :: vs)
    | _, _ => none

/-! ### status names (`ser::serde_status` over `AppointmentStatus`'s Display / FromStr) -/

def statusShow (n : Nat) : Option String := Gen.Wire.statusShow.lookup n
def statusParse (s : String) : Option Nat := Gen.Wire.statusParse.lookup s

/-! ### big-endian u32 and the signed layouts -/

def be32 (n : Nat) : List Nat := [n / 16777216 % 256, n / 65536 % 256, n / 256 % 256, n % 256]

def unbe32 : List Nat → Option Nat
  | [a, b, c, d] => some (a * 16777216 + b * 65536 + c * 256 + d)
  | _ => none

inductive Kind where
  | fixed (n : Nat)
  | var
deriving DecidableEq, Repr

/-- a field kind of `Gen.Wire.layouts` -/
def kindOf : String → Kind
  | "fixed16" => .fixed 16 | "fixed33" => .fixed 33 | "be32" => .fixed 4 | _ => .var

def WellSized (k : Kind) (v : List Nat) : Prop :=
  match k with
  | .fixed n => v.length = n
  | .var => True

/-- `to_vec`: the fields' bytes one after the other -/
def serialize : List (List Nat) → List Nat
  | [] => []
  | v :: vs => v ++ serialize vs

def fixedTotal : List Kind → Option Nat
  | [] => some 0
  | .fixed n :: ks => (fixedTotal ks).map (· + n)
  | .var :: _ => none

/-- a layout can be decoded unambiguously when at most one field has a variable length -/
def decodable : List Kind → Bool
  | [] => true
  | .fixed _ :: ks => decodable ks
  | .var :: ks => (fixedTotal ks).isSome

/-! ### JSON objects as the two sides see them: keys with printed values -/

/-- does an object with these keys deserialise into a struct with these required fields?
(serde: every non-optional field must be present, unknown keys are ignored) -/
def parsesAs (required keys : List String) : Bool := required.all keys.contains

end Teos.Wire
