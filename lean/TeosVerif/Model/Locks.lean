/-
The seven locks of the tower and the order in which the code nests them. `lockRank` is the rank
used by the deadlock-freedom theorem (`Props/C11.lean`): a lock may be acquired only while every
lock held has a smaller rank. The dynamic lock-order graph recorded on the real code (hook H5)
must be a subgraph of `rank a < rank b`.
-/
namespace Teos.Locks

def lockRank : String → Option Nat
  | "cache" => some 0
  | "reorged" => some 1
  | "carrier" => some 2
  | "tx_index" => some 3
  | "users" => some 4
  | "db" => some 5
  | "reachable" => some 6
  | _ => none

/-- may lock `b` be acquired while `a` is held -/
def edgeAllowed (a b : String) : Bool :=
  match lockRank a, lockRank b with
  | some x, some y => decide (x < y)
  | _, _ => false

end Teos.Locks
