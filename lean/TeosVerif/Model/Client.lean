/-
The client's durable store (watchtower-plugin/src/dbm.rs) and its in-memory mirror
(watchtower-plugin/src/wt_client.rs). Core Lean only.

Every `DBM` method that writes is one sqlite transaction, so it either happens or fails as a
whole; a failure is a constraint violation (primary key, foreign key) and `WTClient` unwraps
it: the handler panics while the state mutex is held, which poisons it (`dead`).
-/
namespace Teos.Client

abbrev TowerId := Nat
abbrev Loc := Nat

/-- `watchtower_plugin::TowerStatus` -/
inductive TStatus where
  | reachable | tempUnreachable | unreachable | subscriptionError | misbehaving
deriving DecidableEq, Repr

def TStatus.isRetryable : TStatus → Bool
  | .unreachable => true
  | .subscriptionError => true
  | _ => false

structure RegReceipt where
  slots  : Nat
  start  : Nat
  expiry : Nat
  sig    : Nat
deriving DecidableEq, Repr

structure ApptReceipt where
  start : Nat
  usig  : Nat
  tsig  : Nat
deriving DecidableEq, Repr

/-- a row of `appointments`: the data needed to send the appointment again -/
structure Body where
  blob : Nat
  tsd  : Nat
deriving DecidableEq, Repr

structure Proof where
  loc       : Loc
  recovered : Nat
deriving DecidableEq, Repr

structure TowerRow where
  addr  : Nat
  slots : Nat
deriving DecidableEq, Repr

/-- The sqlite file. `pending` and `invalid` are the row sets of the two reference tables
(needed as lists: `delete_pending_appointment` counts rows over all towers). -/
structure Store where
  towers  : TowerId → Option TowerRow
  regs    : TowerId → List RegReceipt
  rcpts   : TowerId → Loc → Option ApptReceipt
  pending : List (TowerId × Loc)
  invalid : List (TowerId × Loc)
  bodies  : Loc → Option Body
  proofs  : TowerId → Option Proof

def Store.empty : Store :=
  { towers := fun _ => none, regs := fun _ => [], rcpts := fun _ _ => none,
    pending := [], invalid := [], bodies := fun _ => none, proofs := fun _ => none }

def Store.isPending (s : Store) (t : TowerId) (l : Loc) : Bool := s.pending.contains (t, l)
def Store.isInvalid (s : Store) (t : TowerId) (l : Loc) : Bool := s.invalid.contains (t, l)

/-- the receipt with the largest expiry (`MAX(subscription_expiry)`) -/
def maxReg : List RegReceipt → Option RegReceipt
  | [] => none
  | r :: rs => match maxReg rs with
    | none => some r
    | some m => if m.expiry < r.expiry then some r else some m

/-- `DBM::store_tower_record`: upsert the tower row, insert the receipt
(primary key `(tower_id, subscription_expiry)`). -/
def Store.storeTowerRecord (s : Store) (t : TowerId) (addr : Nat) (r : RegReceipt) : Option Store :=
  if (s.regs t).any (fun x => x.expiry = r.expiry) then none
  else some { s with
    towers := fun x => if x = t then some { addr := addr, slots := r.slots } else s.towers x,
    regs := fun x => if x = t then s.regs t ++ [r] else s.regs x }

/-- `DELETE FROM towers WHERE tower_id=?` with the cascades of the schema: registration
receipts, appointment receipts (and through them the misbehaviour proof), pending and invalid
references. `appointments` rows are not referenced *by* towers and stay. -/
def Store.removeTowerRecord (s : Store) (t : TowerId) : Store :=
  { s with
    towers := fun x => if x = t then none else s.towers x,
    regs := fun x => if x = t then [] else s.regs x,
    rcpts := fun x l => if x = t then none else s.rcpts x l,
    proofs := fun x => if x = t then none else s.proofs x,
    pending := s.pending.filter (fun p => p.1 ≠ t),
    invalid := s.invalid.filter (fun p => p.1 ≠ t) }

/-- `DBM::store_appointment_receipt`: insert or, for a receipt the tower handed out before,
overwrite; the tower row must exist (foreign key). -/
def Store.storeApptReceipt (s : Store) (t : TowerId) (l : Loc) (slots : Nat) (r : ApptReceipt) :
    Option Store :=
  match s.towers t with
  | some row => some { s with
      rcpts := fun x y => if x = t ∧ y = l then some r else s.rcpts x y,
      towers := fun x => if x = t then some { row with slots := slots } else s.towers x }
  | none => none

/-- `DBM::store_appointment` inside another transaction; an existing row wins -/
def Store.withBody (s : Store) (l : Loc) (b : Body) : Store :=
  match s.bodies l with
  | some _ => s
  | none => { s with bodies := fun x => if x = l then some b else s.bodies x }

/-- `DBM::store_pending_appointment` -/
def Store.storePending (s : Store) (t : TowerId) (l : Loc) (b : Body) : Option Store :=
  if s.towers t = none ∨ s.isPending t l then none
  else some { s.withBody l b with pending := s.pending ++ [(t, l)] }

/-- `DBM::store_invalid_appointment` -/
def Store.storeInvalid (s : Store) (t : TowerId) (l : Loc) (b : Body) : Option Store :=
  if s.towers t = none ∨ s.isInvalid t l then none
  else some { s.withBody l b with invalid := s.invalid ++ [(t, l)] }

/-- number of rows of both reference tables that name `l` -/
def Store.refCount (s : Store) (l : Loc) : Nat :=
  (s.pending.filter (fun p => p.2 = l)).length + (s.invalid.filter (fun p => p.2 = l)).length

/-- `DBM::delete_pending_appointment`: this tower's pending row goes; the body goes with it
when no pending or invalid row names the locator any more. -/
def Store.deletePending (s : Store) (t : TowerId) (l : Loc) : Store :=
  let s1 := { s with pending := s.pending.filter (fun p => p ≠ (t, l)) }
  if s1.refCount l = 0 then { s1 with bodies := fun x => if x = l then none else s.bodies x }
  else s1

/-- `DBM::store_misbehaving_proof`: the offending receipt and the proof, one transaction -/
def Store.storeProof (s : Store) (t : TowerId) (p : Proof) (r : ApptReceipt) : Option Store :=
  match s.towers t, s.proofs t with
  | some _, none => some { s with
      rcpts := fun x y => if x = t ∧ y = p.loc then some r else s.rcpts x y,
      proofs := fun x => if x = t then some p else s.proofs x }
  | _, _ => none

/-- `TowerSummary` -/
structure Summary where
  addr    : Nat
  slots   : Nat
  start   : Nat
  expiry  : Nat
  status  : TStatus
  pending : List Loc
  invalid : List Loc
deriving DecidableEq, Repr

def locsOf (rows : List (TowerId × Loc)) (t : TowerId) : List Loc :=
  (rows.filter (fun p => p.1 = t)).map (·.2)

/-- the status `load_towers` / `load_tower_record` reconstruct -/
def reconStatus (hasProof : Bool) (pending : List Loc) : TStatus :=
  if hasProof then .misbehaving
  else if pending.isEmpty then .reachable else .tempUnreachable

/-- one entry of `DBM::load_towers` -/
def Store.loadSummary (s : Store) (t : TowerId) : Option Summary :=
  match s.towers t, maxReg (s.regs t) with
  | some row, some r =>
    let p := locsOf s.pending t
    some { addr := row.addr, slots := row.slots, start := r.start, expiry := r.expiry,
           status := reconStatus (s.proofs t).isSome p, pending := p,
           invalid := locsOf s.invalid t }
  | _, _ => none

/-- `WTClient`: the store, the summaries, and whether a handler has panicked with the state
mutex held. -/
structure Client where
  store  : Store
  towers : TowerId → Option Summary
  dead   : Bool := false

def Client.fresh : Client := { store := Store.empty, towers := fun _ => none }

/-- `WTClient::with_proxy` on an existing file -/
def Client.reload (c : Client) : Client :=
  { store := c.store, towers := fun t => c.store.loadSummary t, dead := false }

inductive Reply where
  | ok | errExpiry | errSlots | notFound | unknownTower | panicked | dead
deriving DecidableEq, Repr

def Client.setSummary (c : Client) (t : TowerId) (s : Summary) : Client :=
  { c with towers := fun x => if x = t then some s else c.towers x }

/-- what a failed `.unwrap()` leaves behind: the memory write that preceded it, a dead client -/
def Client.panic (c : Client) : Client × Reply := ({ c with dead := true }, .panicked)

/-- `WTClient::add_update_tower`: a known tower's subscription is only ever extended (expiry
against the summary in memory, slots against the stored record). -/
def Client.addUpdateTower (c : Client) (t : TowerId) (addr : Nat) (r : RegReceipt) :
    Client × Reply :=
  match c.towers t with
  | none =>
    match c.store.storeTowerRecord t addr r with
    | none => c.panic
    | some st =>
      ({ c with store := st }.setSummary t
        { addr := addr, slots := r.slots, start := r.start, expiry := r.expiry,
          status := .reachable, pending := [], invalid := [] }, .ok)
  | some old =>
    if r.expiry ≤ old.expiry then (c, .errExpiry)
    else match c.store.loadSummary t with
      | none => c.panic
      | some disk =>
        if r.slots ≤ disk.slots then (c, .errSlots)
        else match c.store.storeTowerRecord t addr r with
          | none => c.panic
          | some st =>
            ({ c with store := st }.setSummary t
              { old with addr := addr, slots := r.slots, start := r.start, expiry := r.expiry }, .ok)

/-- `WTClient::set_tower_status` -/
def Client.setStatus (c : Client) (t : TowerId) (st : TStatus) : Client :=
  match c.towers t with
  | some sm => if sm.status = .misbehaving then c else c.setSummary t { sm with status := st }
  | none => c

/-- `WTClient::add_appointment_receipt` -/
def Client.addReceipt (c : Client) (t : TowerId) (l : Loc) (slots : Nat) (r : ApptReceipt) :
    Client × Reply :=
  match c.towers t with
  | none => (c, .unknownTower)
  | some sm =>
    let c1 := c.setSummary t { sm with slots := slots }
    match c.store.storeApptReceipt t l slots r with
    | none => c1.panic
    | some st => ({ c1 with store := st }, .ok)

/-- `WTClient::add_pending_appointment` -/
def Client.addPending (c : Client) (t : TowerId) (l : Loc) (b : Body) : Client × Reply :=
  match c.towers t with
  | none => (c, .unknownTower)
  | some sm =>
    if sm.pending.contains l then (c, .ok) else
    let c1 := c.setSummary t { sm with pending := sm.pending ++ [l] }
    match c.store.storePending t l b with
    | none => c1.panic
    | some st => ({ c1 with store := st }, .ok)

/-- `WTClient::remove_pending_appointment` -/
def Client.removePending (c : Client) (t : TowerId) (l : Loc) : Client × Reply :=
  match c.towers t with
  | none => (c, .unknownTower)
  | some sm =>
    let c1 := c.setSummary t { sm with pending := sm.pending.filter (· ≠ l) }
    ({ c1 with store := c.store.deletePending t l }, .ok)

/-- `WTClient::add_invalid_appointment` -/
def Client.addInvalid (c : Client) (t : TowerId) (l : Loc) (b : Body) : Client × Reply :=
  match c.towers t with
  | none => (c, .unknownTower)
  | some sm =>
    if sm.invalid.contains l then (c, .ok) else
    let c1 := c.setSummary t { sm with invalid := sm.invalid ++ [l] }
    match c.store.storeInvalid t l b with
    | none => c1.panic
    | some st => ({ c1 with store := st }, .ok)

/-- `WTClient::flag_misbehaving_tower` -/
def Client.flagMisbehaving (c : Client) (t : TowerId) (p : Proof) (r : ApptReceipt) :
    Client × Reply :=
  match c.towers t with
  | none => (c, .unknownTower)
  | some sm =>
    if sm.status = .misbehaving then (c, .ok) else
    match c.store.storeProof t p r with
    | none => c.panic
    | some st => ({ c with store := st }.setSummary t { sm with status := .misbehaving }, .ok)

/-- `WTClient::remove_tower` -/
def Client.removeTower (c : Client) (t : TowerId) : Client × Reply :=
  match c.towers t with
  | none => (c, .notFound)
  | some _ =>
    ({ c with towers := fun x => if x = t then none else c.towers x,
              store := c.store.removeTowerRecord t }, .ok)

inductive Op where
  | register (t : TowerId) (addr : Nat) (r : RegReceipt)
  | receipt (t : TowerId) (l : Loc) (slots : Nat) (r : ApptReceipt)
  | pending (t : TowerId) (l : Loc) (b : Body)
  | unpend (t : TowerId) (l : Loc)
  | invalid (t : TowerId) (l : Loc) (b : Body)
  | misbehaving (t : TowerId) (p : Proof) (r : ApptReceipt)
  | abandon (t : TowerId)
  | status (t : TowerId) (s : TStatus)
  | reload
deriving Repr

def Client.step (c : Client) (op : Op) : Client × Reply :=
  match op with
  | .reload => (c.reload, .ok)
  | _ =>
    if c.dead then (c, .dead) else
    match op with
    | .register t a r => c.addUpdateTower t a r
    | .receipt t l s r => c.addReceipt t l s r
    | .pending t l b => c.addPending t l b
    | .unpend t l => c.removePending t l
    | .invalid t l b => c.addInvalid t l b
    | .misbehaving t p r => c.flagMisbehaving t p r
    | .abandon t => c.removeTower t
    | .status t s => (c.setStatus t s, .ok)
    | .reload => (c.reload, .ok)

def Client.run (c : Client) (ops : List Op) : Client := ops.foldl (fun c op => (c.step op).1) c

end Teos.Client
