/- Lock acquisition/release traces of tower operations, as recorded on the real code through hook H5
   (harness component `conc`, one operation run alone in the state its scenario sets up).
   The correspondence run re-records them on every check and compares (`cc trace …`);
   `Props/C11.lean` proves that every trace respects the lock ranks. Locks are numbered by rank:
   0 cache, 1 reorged, 2 carrier, 3 tx_index, 4 reachable, 5 users, 6 db. -/
import TeosVerif.Lemmas.Deadlock
namespace Teos.Locks
open Teos.Conc

def a (l : Nat) : Ev := .acq l
def r (l : Nat) : Ev := .rel l

def opTraces : List (String × List Ev) := [
  ("add-vs-block-with-dispute#0", [a 4, r 4, a 5, r 5, a 5, r 5, a 0, a 6, r 6, a 5, a 6, r 6, a 6, r 6, r 5, a 6, r 6, r 0]),
  ("add-vs-block-with-dispute#1", [a 5, r 5, a 0, a 6, r 6, r 0, a 2, r 2, a 3, r 3, a 1, a 6, r 6, r 1, a 1, r 1, a 2, a 6, r 6, r 2, a 2, r 2]),
  ("same-appointment-twice#0", [a 4, r 4, a 5, r 5, a 5, r 5, a 0, a 6, r 6, a 5, a 6, r 6, a 6, r 6, r 5, a 6, r 6, r 0]),
  ("same-appointment-twice#1", [a 4, r 4, a 5, r 5, a 5, r 5, a 0, a 6, r 6, a 5, a 6, r 6, a 6, r 6, r 5, a 6, r 6, r 0]),
  ("register-vs-add#0", [a 4, r 4, a 5, a 6, r 6, r 5]),
  ("register-vs-add#1", [a 4, r 4, a 5, r 5, a 5, r 5, a 0, a 6, r 6, a 5, a 6, r 6, a 6, r 6, r 5, a 6, r 6, r 0]),
  ("add-vs-completing-block#0", [a 4, r 4, a 5, r 5, a 5, r 5, a 0, a 6, r 6, a 5, a 6, r 6, a 6, r 6, r 5, a 6, r 6, r 0]),
  ("add-vs-completing-block#1", [a 5, r 5, a 0, a 6, r 6, r 0, a 2, r 2, a 3, r 3, a 1, a 6, r 6, r 1, a 5, a 6, r 6, r 5, a 1, r 1, a 2, a 6, r 6, r 2, a 2, r 2]),
  ("late-add-vs-rebroadcasting-block#0", [a 4, r 4, a 5, r 5, a 5, r 5, a 0, a 6, r 6, a 5, a 6, r 6, a 6, r 6, r 5, a 6, r 6, a 2, a 3, a 4, r 4, a 4, r 4, a 6, r 6, r 3, r 2, r 0]),
  ("late-add-vs-rebroadcasting-block#1", [a 5, r 5, a 0, a 6, r 6, r 0, a 2, r 2, a 3, r 3, a 1, a 6, r 6, r 1, a 1, r 1, a 2, a 6, r 6, r 2, a 2, r 2]),
  ("add-vs-purging-block#0", [a 4, r 4, a 5, r 5, a 5, r 5, a 0, a 6, r 6, a 5, a 6, r 6, a 6, r 6, r 5, a 6, r 6, r 0]),
  ("add-vs-purging-block#1", [a 5, r 5, a 5, r 5, a 6, r 6, a 0, a 6, r 6, r 0, a 2, r 2, a 3, r 3, a 1, a 6, r 6, r 1, a 1, r 1, a 2, a 6, r 6, r 2, a 2, r 2]),
  ("get-vs-block-with-dispute#0", [a 4, r 4, a 5, r 5, a 5, r 5, a 6, r 6]),
  ("get-vs-block-with-dispute#1", [a 5, r 5, a 0, a 6, r 6, a 6, r 6, a 6, r 6, a 2, a 3, a 4, r 4, a 4, r 4, a 6, r 6, r 3, r 2, r 0, a 2, r 2, a 3, r 3, a 1, a 6, r 6, r 1, a 1, r 1, a 2, a 6, r 6, r 2, a 2, r 2]),
  ("update-vs-block-with-dispute#0", [a 4, r 4, a 5, r 5, a 5, r 5, a 0, a 6, r 6, a 5, a 6, r 6, a 6, r 6, r 5, a 6, r 6, r 0]),
  ("update-vs-block-with-dispute#1", [a 5, r 5, a 0, a 6, r 6, a 6, r 6, a 6, r 6, a 2, a 3, a 4, r 4, a 4, r 4, a 6, r 6, r 3, r 2, r 0, a 2, r 2, a 3, r 3, a 1, a 6, r 6, r 1, a 1, r 1, a 2, a 6, r 6, r 2, a 2, r 2]),
  ("late-add-vs-disconnect#0", [a 4, r 4, a 5, r 5, a 5, r 5, a 0, a 6, r 6, a 5, a 6, r 6, a 6, r 6, r 5, a 6, r 6, a 2, a 3, a 4, r 4, a 4, r 4, a 6, r 6, r 3, r 2, r 0]),
  ("late-add-vs-disconnect#1", [a 0, r 0, a 2, r 2, a 3, r 3, a 1, a 6, r 6, r 1]),
  ("two-users-same-locator#0", [a 4, r 4, a 5, r 5, a 5, r 5, a 0, a 6, r 6, a 5, a 6, r 6, a 6, r 6, r 5, a 6, r 6, r 0]),
  ("two-users-same-locator#1", [a 4, r 4, a 5, r 5, a 5, r 5, a 0, a 6, r 6, a 5, a 6, r 6, a 6, r 6, r 5, a 6, r 6, r 0])
]

end Teos.Locks
