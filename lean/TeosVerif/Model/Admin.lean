/-
The tower admin's read-only view (private API of teos/src/api/internal.rs: get_tower_info, get_users,
get_user, get_all_appointments, get_appointments) as functions of the tower state. Core Lean only.
-/
import TeosVerif.Model.Tower

namespace Teos

/-- `DBM::load_appointments(None)` / `get_appointments_count`: appointment rows without a tracker row -/
def watcherAppts (d : Db) : List Uuid := d.liveAppts.filter fun k => (d.trackers k).isNone

/-- `Gatekeeper::get_user_ids`: the users held in memory -/
def adminUsers (s : Tower) : List User := s.db.userKeys.filter fun u => (s.mem.users u).isSome

structure TowerInfo where
  nUsers : Nat
  nAppointments : Nat
  nTrackers : Nat
  reachable : Bool
deriving DecidableEq, Repr

/-- `get_tower_info` -/
def adminTowerInfo (s : Tower) : TowerInfo :=
  { nUsers := (adminUsers s).length, nAppointments := (watcherAppts s.db).length,
    nTrackers := s.db.liveTrackers.length, reachable := s.mem.reachable }

/-- `get_user`: balance, expiry and the user's appointments (watched and responded) -/
def adminUser (s : Tower) (u : User) : Option (Nat × Nat × List Loc) :=
  (s.mem.users u).map fun ui => (ui.slots, ui.expiry, s.db.userLocators u)

inductive AdminItem where
  | appt (loc : Loc) (blob : Blob) (tsd : Nat)
  | tracker (dispute penalty : TxId)
deriving DecidableEq, Repr

/-- `get_all_appointments` (`loc = none`) and `get_appointments(locator)` -/
def adminAppointments (s : Tower) (loc : Option Loc) : List AdminItem :=
  let sel := fun (k : Uuid) => match loc with | some l => k.1 = l | none => true
  ((watcherAppts s.db).filter sel).filterMap (fun k => (s.db.appts k).map fun a => .appt a.loc a.blob a.tsd) ++
  (s.db.liveTrackers.filter sel).filterMap (fun k => (s.db.trackers k).map fun t => .tracker t.dispute t.penalty)

end Teos
