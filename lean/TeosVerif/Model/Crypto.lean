/-
`teos_common::cryptography` over abstract primitives. The primitives (ChaCha20-Poly1305, SHA-256,
consensus (de)serialisation, recoverable ECDSA over the Lightning message prefix) are parameters
with the *functional* laws they satisfy; how `encrypt`/`decrypt`/`verify` compose them (key
derivation, nonce, what is sealed) is read from the source (`Gen/Crypto.lean`).
-/
import TeosVerif.Gen.Crypto
namespace Teos.Crypto

abbrev Bytes := List UInt8

/-- a deterministic AEAD (ChaCha20-Poly1305 with empty associated data). Both laws are functional
facts of the construction: opening what was sealed gives it back; for a fixed key and nonce the
keystream and the tag are functions of the input, so whatever opens to `m` *is* `seal k n m`. -/
structure AEAD where
  Key : Type
  Nonce : Type
  aenc : Key → Nonce → Bytes → Bytes
  adec : Key → Nonce → Bytes → Option Bytes
  dec_enc : ∀ k n m, adec k n (aenc k n m) = some m
  dec_some_is_enc : ∀ k n c m, adec k n c = some m → c = aenc k n m

/-- everything `encrypt`/`decrypt` need -/
structure Suite where
  aead : AEAD
  Tx : Type
  TxId : Type
  kdf : String → TxId → aead.Key          -- named key derivation (`sha256::Hash::hash(secret…)`)
  nonce : String → aead.Nonce              -- named nonce (`Nonce::default()` = twelve zero bytes)
  ser : Tx → Bytes
  deser : Bytes → Option Tx
  deser_ser : ∀ t, deser (ser t) = some t

variable (S : Suite)

/-- `cryptography::encrypt(message, secret)` -/
def encrypt (t : S.Tx) (k : S.TxId) : Bytes :=
  S.aead.aenc (S.kdf Gen.encRecipe.1 k) (S.nonce Gen.encRecipe.2.2) (S.ser t)

/-- `cryptography::decrypt(blob, secret)` -/
def decrypt (c : Bytes) (k : S.TxId) : Option S.Tx :=
  match S.aead.adec (S.kdf Gen.decRecipe.1 k) (S.nonce Gen.decRecipe.2.2) c with
  | some b => S.deser b
  | none => none

/-- recoverable signatures (`message_signing::{sign, recover_pk}`) -/
structure SigScheme where
  SK : Type
  PK : Type
  Sig : Type
  pk : SK → PK
  sign : Bytes → SK → Sig
  recover : Bytes → Sig → Option PK
  recover_sign : ∀ m sk, recover m (sign m sk) = some (pk sk)

variable (G : SigScheme) [DecidableEq G.PK]

/-- `cryptography::verify(msg, sig, pk)` -/
def verify (m : Bytes) (s : G.Sig) (p : G.PK) : Bool :=
  match G.recover m s with
  | some x => decide (x = p)
  | none => false

/-- `Locator::new(txid)`: the first `LOCATOR_LEN` bytes -/
def locator (txid : Bytes) : Bytes := txid.take Gen.LOCATOR_LEN

end Teos.Crypto
