/-
The reachability protocol between `Carrier` (API thread or chain thread inside `handle_breach`),
`ChainMonitor::poll_best_tip` (the only code that sets the flag back and notifies) and
`InternalAPI::check_service_unavailable`, at the granularity the property talks about.

Carrier: every RPC starts with `hang_until_bitcoind_reachable` (wait while the flag is false); a
transport error sets the flag to false and retries the same call. A thread inside
`add_appointment`'s triggered path holds the locator-cache lock while it waits.
ChainMonitor: a transient poll error sets the flag to false; a successful poll delivers the new
blocks to the listeners (the Watcher needs the locator-cache lock), then sets the flag to true and
notifies. A block whose download fails stops the delivery there (partial progress is kept).
-/
namespace Teos.Outage

inductive ApiSt where
  | idle | run | wait | done
deriving DecidableEq, Repr

inductive ChainSt where
  | idle | wait | blocked
deriving DecidableEq, Repr

structure St where
  flag : Bool := true
  nodeUp : Bool := true          -- block source and RPC interface reachable
  rpcDown : Bool := false        -- RPC interface refusing connections
  rpcDownAfter : Option Nat := none
  api : ApiSt := .idle
  apiRem : Nat := 0              -- RPCs the API thread still has to get through (2 = getrawtransaction, sendrawtransaction)
  chain : ChainSt := .idle
  chainRem : Nat := 0            -- RPCs of the breach the chain thread is in the middle of
  pending : List Bool := []      -- mined blocks not delivered yet (true: carries the dispute of a stored appointment)
  failAt : Option Nat := none    -- index (in `pending`) of a block whose download fails
  sends : Nat := 0
  trackers : Nat := 0
deriving Repr

inductive Act where
  | nodeDown | nodeUp | rpcDownAfter (i : Nat) | mine (dispute : Bool) | failBlock (i : Nat)
  | apiStart | apiRun | poll | probe
  | nodeBehind        -- the node answers again but its best block is the parent of the tower's tip (a poll finds a worse tip)
deriving DecidableEq, Repr

/-- one RPC attempt: `true` = answered, `false` = transport error -/
def rpcAttempt (s : St) : St × Bool :=
  let s1 : St := match s.rpcDownAfter with
    | some 0 => { s with rpcDown := true, rpcDownAfter := none }
    | some (n + 1) => { s with rpcDownAfter := some n }
    | none => s
  if s1.rpcDown then (s1, false) else (s1, true)

/-- a thread working through `rem` RPCs (the last one is the `sendrawtransaction`): returns the
state, what is left, and whether the thread is now waiting for the flag -/
def runRpcs (s : St) (rem : Nat) : Nat → St × Nat × Bool
  | 0 => (s, rem, rem != 0)
  | fuel + 1 =>
    match rem with
    | 0 => (s, 0, false)
    | r + 1 =>
      if !s.flag then (s, r + 1, true)
      else
        let (s1, ok) := rpcAttempt s
        if ok then
          let s2 := if r = 0 then { s1 with sends := s1.sends + 1, trackers := s1.trackers + 1 } else s1
          runRpcs s2 r fuel
        else runRpcs { s1 with flag := false } (r + 1) fuel

def apiHoldsCache (s : St) : Bool := s.api = .run ∨ s.api = .wait

/-- the chain thread delivers pending blocks (index `i` = how many were delivered in this poll) -/
def deliver (s : St) : Nat → Nat → St
  | 0, _ => s
  | fuel + 1, i =>
    match s.pending with
    | [] => { s with flag := true, api := if s.api = .wait then .run else s.api }   -- poll done: flag + notify_all
    | d :: rest =>
      if s.failAt = some i then
        -- download failed: what was connected stays connected; the poll itself returns Ok
        { s with flag := true, api := if s.api = .wait then .run else s.api }
      else if apiHoldsCache s then { s with chain := .blocked }
      else if d then
        let (s1, rem, waiting) := runRpcs { s with pending := rest } 2 8
        if waiting then { s1 with chain := .wait, chainRem := rem, failAt := s1.failAt.map (· - (i + 1)) }
        else deliver { s1 with failAt := s1.failAt } fuel (i + 1)
      else deliver { s with pending := rest } fuel (i + 1)

def step (s : St) : Act → St
  | .nodeDown => { s with nodeUp := false, rpcDown := true }
  | .nodeUp => { s with nodeUp := true, rpcDown := false, rpcDownAfter := none, failAt := none }
  | .rpcDownAfter i => { s with rpcDownAfter := some i }
  | .mine d => { s with pending := s.pending ++ [d] }
  | .failBlock i => { s with failAt := some i }
  | .apiStart => { s with api := .run, apiRem := 2 }
  | .apiRun =>
    if s.api = .run then
      let (s1, rem, waiting) := runRpcs s s.apiRem 8
      if waiting then { s1 with api := .wait, apiRem := rem } else { s1 with api := .done, apiRem := 0 }
    else s
  | .poll =>
    match s.chain with
    | .wait => s                       -- the chain thread is the waiter: nobody polls
    | .blocked => if apiHoldsCache s then s else deliver { s with chain := .idle } 16 0
    | .idle =>
      if !s.nodeUp then { s with flag := false }
      else deliver s 16 0
  | .probe => s
  -- a worse tip gives the poll nothing to deliver: it ends like a poll that finds nothing new (flag set, waiters woken)
  | .nodeBehind => s

/-- `InternalAPI::check_service_unavailable` -/
def apiStatus (s : St) : Nat := if s.flag then 200 else 503

end Teos.Outage
