/-
Crash and restart. The database is the sequence of durable writes committed so far (`Db.log`); a
process that dies keeps a prefix of the writes of the operation in flight (sqlite: a statement or an
explicit transaction is atomic) and loses all memory. `DbWrite.apply` is what one write does to the
tables — including what sqlite itself refuses (primary keys, foreign keys) — independently of which
operation issued it.
-/
import TeosVerif.Model.Tower
namespace Teos

/-- what sqlite does with one write (constraint violations leave the tables unchanged) -/
def DbWrite.apply (d : Db) : DbWrite → Db
  | .storeUser u i =>
    match d.users u with
    | some _ => d
    | none => { d with users := fun x => if x = u then some i else d.users x, userKeys := Db.addKey u d.userKeys }
  | .updateUser u i =>
    match d.users u with
    | none => d
    | some _ => { d with users := fun x => if x = u then some i else d.users x }
  | .storeAppt k a =>
    match d.appts k, d.users a.user with
    | none, some _ => { d with appts := fun x => if x = k then some a else d.appts x, apptKeys := Db.addKey k d.apptKeys }
    | _, _ => d
  | .updateAppt k a =>
    match d.appts k with
    | none => d
    | some old =>
      let upd : Appt := { old with blob := a.blob, tsd := a.tsd, usig := a.usig, start := a.start }
      { d with appts := fun x => if x = k then some upd else d.appts x }
  | .storeTracker k t =>
    match d.trackers k, d.appts k with
    | none, some _ => { d with trackers := fun x => if x = k then some t else d.trackers x }
    | _, _ => d
  | .updateTracker k st =>
    match d.trackers k with
    | none => d
    | some t => { d with trackers := fun x => if x = k then some { t with status := st } else d.trackers x }
  | .removeAppts ks balances =>
    balances.foldl (fun d (b : User × Nat) => d.setSlots b.1 b.2) (d.dropAppts ks)
  | .removeUsers us =>
    -- ON DELETE CASCADE follows the `user_id` column of the appointment, then the appointment's key
    let gone : Uuid → Bool := fun k => match d.appts k with
      | some a => decide (a.user ∈ us)
      | none => false
    { d with users := fun x => if x ∈ us then none else d.users x
             appts := fun x => if gone x then none else d.appts x
             trackers := fun x => if gone x then none else d.trackers x }
  | .lastKnown b => { d with lastKnown := some b }

/-- the tables after the given writes -/
def replay (d : Db) (ws : List DbWrite) : Db := ws.foldl DbWrite.apply d

/-- the database file found after a crash that let `k` of the writes of the operation in flight
through (`before`: when the operation started; `after`: had it completed) -/
def crashDb (before after : Db) (k : Nat) : Db :=
  let ws := (after.log.drop before.log.length).take k
  { (replay before ws) with log := before.log ++ ws }

/-- referential integrity, as sqlite enforces it: every appointment has its user, every tracker
its appointment -/
def DurableInv (d : Db) : Prop :=
  (∀ k a, d.appts k = some a → (d.users a.user).isSome) ∧
  (∀ k t, d.trackers k = some t → (d.appts k).isSome)

/-- the stronger form the tower maintains: an appointment is stored under its owner's key -/
def OwnedInv (d : Db) : Prop := ∀ k a, d.appts k = some a → a.user = k.2

/-- one `ChainMonitor::poll_best_tip` that delivered `blocks` (in order) and then recorded `tip` as
the last known block -/
def pollBlocks (cfg : Cfg) (s : Tower) (node : Node) (blocks : List (Nat × Nat × List TxId)) (tip : Nat) :
    Tower × List Rpc :=
  let (s1, log) := blocks.foldl (fun (acc : Tower × List Rpc) (b : Nat × Nat × List TxId) =>
      let (s', l) := connectBlock cfg acc.1 node b.1 b.2.1 b.2.2
      (s', acc.2 ++ l)) (s, [])
  ({ s1 with db := s1.db.storeLastKnown tip }, log)

end Teos
