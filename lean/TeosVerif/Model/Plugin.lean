/-
The client plugin above its store: the `commitment_revocation` handler (main.rs), the retry
manager and the retriers (retrier.rs), the `registertower` / `retrytower` / `abandontower`
commands and a restart — at the granularity of *stable points*: every event is followed by
whatever the retry machinery does on its own while the towers keep behaving the same way.
Core Lean only. The store and summaries are `Model/Client.lean`.
-/
import TeosVerif.Model.Client

namespace Teos.Plugin
open Teos.Client

/-- how a tower answers `add_appointment` when it can be reached -/
inductive AddMode where
  | accept | subErr | reject | garbage | wrongSigner
  /-- a subscription error until the client has registered again, a receipt from then on (what a
  real tower does when the subscription has run out) -/
  | subErrUntilReg
deriving DecidableEq, Repr

/-- how a tower answers `register` when it can be reached -/
inductive RegMode where
  | accept       -- a receipt extending the previous one
  | same         -- the previous receipt again
  | sameExpiry   -- more slots, same expiry
  | wrongSigner  -- a receipt (extending) signed by somebody else
  | garbage      -- not a registration receipt (non-JSON, error object)
deriving DecidableEq, Repr

structure Beh where
  down : Bool := false
  add  : AddMode := .accept
  reg  : RegMode := .accept
  /-- the next `once` add_appointment requests are answered as `onceAdd` (a transient kind),
  whatever `add` says: a tower that recovers between two attempts of one back-off round -/
  once : Nat := 0
  onceAdd : AddMode := .garbage
  /-- the tower accepts the connection but does not answer (until released): a retrier that
  reaches it stays "running" -/
  hold : Bool := false
  /-- the tower has answered a `register` request with a receipt since `add` was last set -/
  renewed : Bool := false
deriving Repr

/-- `net::http::send_appointment`'s result, as the two callers distinguish it -/
inductive Outcome where
  | accepted      -- a receipt whose signature recovers to the tower id
  | connErr       -- `RequestError::ConnectionError`
  | unparsable    -- any other `RequestError` (body that is not the expected JSON, undecodable signature)
  | subErr        -- `ApiError` with INVALID_SIGNATURE_OR_SUBSCRIPTION_ERROR
  | rejected      -- any other `ApiError`
  | wrongSigner   -- `SignatureError(proof)`
deriving DecidableEq, Repr

def classifyMode (m : AddMode) : Outcome :=
  match m with
  | .accept => .accepted
  | .subErr => .subErr
  | .reject => .rejected
  | .garbage => .unparsable
  | .wrongSigner => .wrongSigner
  | .subErrUntilReg => .subErr

def classify (b : Beh) : Outcome :=
  if b.down then .connErr else
  if b.once > 0 then classifyMode b.onceAdd else
  if b.add = .subErrUntilReg ∧ b.renewed = true then .accepted else classifyMode b.add

structure St where
  client : Client := Client.fresh
  /-- an idle retrier (gave up, waits for the auto-retry delay or a manual retry) -/
  idle   : TowerId → Bool := fun _ => false
  beh    : TowerId → Beh := fun _ => {}
  /-- the tower's subscription is ahead of what the client has recorded (it handed out a receipt
  the client did not accept) -/
  ahead  : TowerId → Bool := fun _ => false
  /-- a retrier that is running, blocked on a request the tower has not answered yet -/
  running : TowerId → Bool := fun _ => false
  /-- tower ids in use: 0 .. n-1 -/
  n      : Nat := 0

def body : Body := { blob := 0, tsd := 42 }
def rcpt : ApptReceipt := { start := 0, usig := 0, tsig := 0 }

def St.status (s : St) (t : TowerId) : Option TStatus := (s.client.towers t).map (·.status)

/-- one add_appointment request reached tower `t`: a one-shot answer is used up -/
def St.consume (s : St) (t : TowerId) : St :=
  if (s.beh t).down || (s.beh t).once = 0 then s
  else { s with beh := fun x => if x = t then { s.beh t with once := (s.beh t).once - 1 } else s.beh x }

def St.withClient (s : St) (c : Client) : St := { s with client := c }

/-- the next registration receipt a tower hands out that the client accepts: strictly larger
than what it has (numbers are not compared with the implementation, only the decisions) -/
def nextReceipt (c : Client) (t : TowerId) : RegReceipt :=
  match c.towers t with
  | none => { slots := 100, start := 100, expiry := 210, sig := 0 }
  | some sm => { slots := sm.slots + 100, start := sm.start, expiry := sm.expiry + 10, sig := 0 }

/-- does a registration reply of this kind get recorded? (`register` in main.rs and the
re-registration in `Retrier::run`: verify, then `add_update_tower`) -/
def regAccepted (s : St) (t : TowerId) : Bool :=
  match (s.beh t).reg with
  | .accept => true
  | .same | .sameExpiry => (s.client.towers t).isNone || s.ahead t
  | .wrongSigner | .garbage => false

/-- the tower's side of a `register` request: its subscription moves on for the replies that
carry a new receipt, whether or not the client accepts it -/
def St.towerRegisters (s : St) (t : TowerId) : St :=
  match (s.beh t).reg with
  | .garbage => s
  | .wrongSigner =>
    { s with ahead := fun x => if x = t then true else s.ahead x,
             beh := fun x => if x = t then { s.beh t with renewed := true } else s.beh x }
  | _ => { s with beh := fun x => if x = t then { s.beh t with renewed := true } else s.beh x }

def St.recordRegistration (s : St) (t : TowerId) : St :=
  let c := (s.client.addUpdateTower t t (nextReceipt s.client t)).1
  { s with client := c, ahead := fun x => if x = t then false else s.ahead x }

/-! ### the retrier -/

inductive RunResult where
  | ok                 -- every locator delivered (accepted or rejected)
  | transient          -- back off and call `run` again
  | permanentSub       -- the subscription cannot be renewed: the retrier fails, status stays "subscription error"
  | misbehaving        -- wrong signer: the retrier fails, the tower is flagged
deriving DecidableEq, Repr

/-- sending the retrier's locators one after the other (`for locator in locators`) -/
def sendAll (c : Client) (t : TowerId) (o : Outcome) : List Loc → Client × RunResult
  | [] => (c, .ok)
  | l :: ls =>
    match o with
    | .accepted =>
      let c1 := (c.addReceipt t l 0 rcpt).1
      let c2 := (c1.removePending t l).1
      sendAll c2 t o ls
    | .rejected =>
      let c1 := (c.addInvalid t l body).1
      let c2 := (c1.removePending t l).1
      sendAll c2 t o ls
    | .connErr | .unparsable => (c, .transient)
    | .subErr => (c.setStatus t .subscriptionError, .transient)
    | .wrongSigner => ((c.flagMisbehaving t { loc := l, recovered := 99 } rcpt).1, .misbehaving)

/-- the first part of `Retrier::run`: with a subscription error the client registers again
before anything is sent; `some r` ends the call with that result -/
def reRegister (s : St) (t : TowerId) : St × Option RunResult :=
  if s.status t = some .subscriptionError then
    if (s.beh t).down then (s, some .transient)
    else match (s.beh t).reg with
      | .garbage => (s, some .transient)
      | .wrongSigner => (s.towerRegisters t, some .permanentSub)
      | _ =>
        if regAccepted s t then ((s.towerRegisters t).recordRegistration t, none)
        else (s.towerRegisters t, some .permanentSub)
  else (s, none)

/-- one call of `Retrier::run` -/
def runOnce (s : St) (t : TowerId) (locs : List Loc) : St × RunResult :=
  match reRegister s t with
  | (s1, some r) => (s1, r)
  | (s1, none) =>
    let (c, r) := sendAll s1.client t (classify (s1.beh t)) locs
    ((s1.withClient c).consume t, r)

/-- the back-off loop under an unchanging tower: a transient error is retried; when the same
call fails again in the same state the strategy eventually runs out of time (give up) -/
def runRetrier (fuel : Nat) (s : St) (t : TowerId) (locs : List Loc) : St × RunResult :=
  match fuel with
  | 0 => (s, .transient)
  | fuel + 1 =>
    let (s1, r) := runOnce s t locs
    match r with
    | .transient => runRetrier fuel s1 t locs
    | r => (s1, r)

/-- `Retrier::start` + the end of its task: what a retrier created with `locs` leaves behind when
the tower answers every request -/
def St.retryRun (s : St) (t : TowerId) (locs : List Loc) : St :=
  if locs.isEmpty then s else
  match s.status t with
  | none => s
  | some st =>
    let s0 := if st = .subscriptionError then s
              else s.withClient (s.client.setStatus t .tempUnreachable)
    let (s1, r) := runRetrier 4 s0 t locs
    match r with
    | .ok => s1.withClient (s1.client.setStatus t .reachable)
    | .transient =>
      { s1 with client := s1.client.setStatus t .unreachable,
                idle := fun x => if x = t then true else s1.idle x }
    | .permanentSub => s1.withClient (s1.client.setStatus t .subscriptionError)
    | .misbehaving => s1

/-- does a retrier started now get stuck on an unanswered request? -/
def St.parks (s : St) (t : TowerId) (locs : List Loc) : Bool :=
  (s.beh t).hold && !(s.beh t).down && !locs.isEmpty &&
    (match s.status t with
     | some st => st ≠ .subscriptionError && st ≠ .misbehaving
     | none => false)

/-- `Retrier::start` up to the first request, which the tower holds -/
def St.park (s : St) (t : TowerId) : St :=
  { s with client := s.client.setStatus t .tempUnreachable,
           running := fun x => if x = t then true else s.running x }

/-- a retrier created with `locs` -/
def St.retry (s : St) (t : TowerId) (locs : List Loc) : St :=
  if s.parks t locs then s.park t else s.retryRun t locs

def St.pendingOf (s : St) (t : TowerId) : List Loc :=
  match s.client.towers t with
  | some sm => sm.pending
  | none => []

/-! ### the notification handler -/

/-- `send_to_retrier`: data reaches the manager unless the tower's retrier is idle -/
def St.sendToRetrier (s : St) (t : TowerId) : Bool := !s.idle t

/-- one tower's share of `on_commitment_revocation` (status as snapshotted when the handler
started); returns whether a retrier is to be started for the tower -/
def hookTower (s : St) (t : TowerId) (l : Loc) : St × Bool :=
  match s.client.towers t with
  | none => (s, false)
  | some sm =>
    -- a repeated notification: the tower has already answered for this appointment
    if (s.client.store.rcpts t l).isSome || sm.invalid.contains l then (s, false) else
    match sm.status with
    | .misbehaving => (s, false)
    | .reachable =>
      match classify (s.beh t) with
      | .accepted => (s.withClient (s.client.addReceipt t l 0 rcpt).1, false)
      | .connErr | .unparsable =>
        let c := s.client.setStatus t .tempUnreachable
        (s.withClient (c.addPending t l body).1, s.sendToRetrier t)
      | .subErr =>
        let c := s.client.setStatus t .subscriptionError
        (s.withClient (c.addPending t l body).1, s.sendToRetrier t)
      | .rejected => (s.withClient (s.client.addInvalid t l body).1, false)
      | .wrongSigner =>
        (s.withClient (s.client.flagMisbehaving t { loc := l, recovered := 99 } rcpt).1, false)
    | .unreachable => (s.withClient (s.client.addPending t l body).1, false)
    | .tempUnreachable | .subscriptionError =>
      (s.withClient (s.client.addPending t l body).1, s.sendToRetrier t)

/-- one tower's turn in the handler, then the retrier it woke up -/
def St.consumeIf (s : St) (b : Bool) (t : TowerId) : St := if b then s.consume t else s

/-- does the handler make a request to tower `t`? only when it is shown reachable and has not
answered for `l` yet -/
def asked (acc : St) (t : TowerId) (l : Loc) : Bool :=
  match acc.client.towers t with
  | some sm => sm.status = .reachable && !((acc.client.store.rcpts t l).isSome || sm.invalid.contains l)
  | none => false

def notifyTower (acc : St) (t : TowerId) (l : Loc) : St :=
  match hookTower acc t l with
  | (s1, true) =>
    -- a running retrier is simply handed the new locator
    if acc.running t then s1 else (s1.consumeIf (asked acc t l) t).retry t (s1.pendingOf t)
  | (s1, false) => s1.consumeIf (asked acc t l) t

/-- the handler over all towers -/
def St.notify (s : St) (l : Loc) : St :=
  (List.range s.n).foldl (fun acc t => notifyTower acc t l) s

/-! ### commands -/

inductive Reply where
  | ok | errConnection | errBody | errBadSig | errExpiry | errSlots | errStatus | errUnknown | errBeingRetried
deriving DecidableEq, Repr

/-- the model iterates over tower ids `0 .. n-1` -/
def St.grow (s : St) (t : TowerId) : St := if s.n ≤ t then { s with n := t + 1 } else s

def St.registerCore (s : St) (t : TowerId) : St × Reply :=
  if (s.beh t).down then
    -- only a tower thought reachable is downgraded by a failed command
    (if s.status t = some .reachable then s.withClient (s.client.setStatus t .tempUnreachable) else s,
     .errConnection)
  else match (s.beh t).reg with
    | .garbage => (s, .errBody)
    | .wrongSigner => (s.towerRegisters t, .errBadSig)
    | _ =>
      if regAccepted s t then ((s.towerRegisters t).recordRegistration t, .ok)
      else (s.towerRegisters t, .errExpiry)

/-- `registertower` -/
def St.register (s : St) (t : TowerId) : St × Reply := (s.grow t).registerCore t

/-- the idle retrier of `t` is woken up -/
def St.wake (s : St) (t : TowerId) : St :=
  { s with idle := fun x => if x = t then false else s.idle x }

/-- `retrytower` at a stable point (no retrier is running) -/
def St.manualRetry (s : St) (t : TowerId) : St × Reply :=
  match s.status t with
  | none => (s, .errUnknown)
  | some st =>
    if s.running t then (s, .errBeingRetried) else
    if s.idle t then
      -- the idle retrier is fed what is pending in the database
      ((s.wake t).retry t ((s.wake t).pendingOf t), .ok)
    else if st.isRetryable then (s.retry t (s.pendingOf t), .ok)
    else (s, .errStatus)

/-- `abandontower` -/
def St.abandon (s : St) (t : TowerId) : St × Reply :=
  match s.client.towers t with
  | none => (s, .errUnknown)
  | some _ =>
    -- the manager forgets the (idle) retrier of a tower that is gone
    ({ s with client := (s.client.removeTower t).1, idle := fun x => if x = t then false else s.idle x,
              running := fun x => if x = t then false else s.running x }, .ok)

/-- what a restart leaves before any retrier has run: summaries rebuilt from the file, every
retrier gone -/
def St.reloaded (s : St) : St :=
  { s with client := s.client.reload, idle := fun _ => false, running := fun _ => false }

/-- a tower that comes back "temporary unreachable" gets a retrier -/
def restartTower (acc : St) (t : TowerId) : St :=
  if acc.status t = some .tempUnreachable then acc.retry t (acc.pendingOf t) else acc

/-- SIGKILL + start -/
def St.restart (s : St) : St := (List.range s.n).foldl restartTower s.reloaded

/-- the tower answers the request it was holding as `m` would, and goes on answering like that -/
def St.release (s : St) (t : TowerId) (m : AddMode) : St :=
  let s1 : St := { s with beh := fun x => if x = t then { s.beh t with add := m, hold := false } else s.beh x }
  if s.running t then
    let s2 : St := { s1 with running := fun x => if x = t then false else s1.running x }
    s2.retry t (s2.pendingOf t)
  else s1

/-- one tower's turn in the handler of `holdAfter`: tower `t` refuses the connection and is back,
holding every request, by the time its retrier starts; the others are notified as usual -/
def holdTurn (t : TowerId) (l : Loc) (acc : St) (x : TowerId) : St :=
  if x = t then
    match hookTower acc t l with
    | (s1, start) =>
      let s2 : St := { s1 with beh := fun y => if y = t then { s1.beh t with down := false } else s1.beh y }
      if start then s2.retry t (s2.pendingOf t) else s2
  else notifyTower acc x l

/-- a revocation arrives while tower `t` refuses connections; before its retrier's next attempt
the tower is back but holds every request: the retrier ends up running, blocked -/
def St.holdAfter (s : St) (t : TowerId) (l : Loc) : St :=
  let down : St := { s with beh := fun x => if x = t then { s.beh t with down := true, hold := true } else s.beh x }
  (List.range s.n).foldl (holdTurn t l) down

inductive Ev where
  | register (t : TowerId)
  | notify (l : Loc)
  | setBeh (t : TowerId) (b : Beh)
  | retry (t : TowerId)
  | abandon (t : TowerId)
  | restart
  /-- the tower answers the request it was holding as `m` would -/
  | release (t : TowerId) (m : AddMode)
  /-- a revocation while tower `t` is down; it comes back holding every request -/
  | holdAfter (t : TowerId) (l : Loc)
deriving Repr

def St.step (s : St) : Ev → St × Option Reply
  | .register t => let (s', r) := s.register t; (s', some r)
  | .notify l => (s.notify l, none)
  | .setBeh t b => ({ s with beh := fun x => if x = t then b else s.beh x }, none)
  | .retry t => let (s', r) := s.manualRetry t; (s', some r)
  | .abandon t => let (s', r) := s.abandon t; (s', some r)
  | .restart => (s.restart, none)
  | .release t m => (s.release t m, none)
  | .holdAfter t l => (s.holdAfter t l, none)

end Teos.Plugin
