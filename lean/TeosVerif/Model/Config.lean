/-
The effective configuration of `teosd` (`teos/src/config.rs`): `from_file` (serde defaults) +
`patch_with_options` + `verify`. The per-field rules, defaults and tables are regenerated from the
source (`Gen/Config.lean`); this file gives them their reading.
-/
import TeosVerif.Gen.Config
namespace Teos.Config
open Teos.Gen

/-- The effective value of a field: `dflt` the documented default, `file` the value in
`teos.toml` if present, `cli` the command-line value if given (for a flag: `some "true"` when the
switch is on the command line). -/
def effective (rule : PatchRule) (dflt : String) (file cli : Option String) : String :=
  match rule with
  | .cliOption => match cli with
    | some c => c
    | none => file.getD dflt
  | .orFlag => if cli = some "true" then "true" else file.getD dflt
  | .cliOnly => cli.getD "false"
  | .fileOnly => file.getD dflt

def fieldInfo (name : String) : Option (String × PatchRule) :=
  (configFields.find? fun f => f.1 = name).map fun f => (f.2.1, f.2.2)

/-- effective value of field `name` -/
def effectiveField (name : String) (file cli : Option String) : Option String :=
  (fieldInfo name).map fun (d, r) => effective r d file cli

/-- `get_auth_method` on (user empty?, password empty?, cookie empty?) -/
def authMethod (u p c : Bool) : String :=
  ((authTable.find? fun r => r.1 = u ∧ r.2.1 = p ∧ r.2.2.1 = c).map (·.2.2.2)).getD "?"

/-- does `verify` accept the credentials -/
def authOk (u p c : Bool) : Bool := !(authRefused.contains (authMethod u p c))

/-- network normalisation of `verify` -/
def normalizeNet (n : String) : String :=
  if networkTrimmed.contains n then String.ofList (n.toList.take (n.length - networkTrimSuffix.length)) else n

/-- `verify` on (network, port): normalised network and effective port, or refusal -/
def verifyNet (n : String) (port : Nat) : Option (String × Nat) :=
  let n' := normalizeNet n
  match networkPorts.lookup n' with
  | none => none
  | some d => some (n', if port = portSentinel then d else port)

end Teos.Config
