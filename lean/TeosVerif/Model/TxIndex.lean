/-
Model of `teos/src/tx_index.rs` (`TxIndex<K, V>`): the bounded index of the last `size` blocks.
Core Lean only. One definition per Rust method; `&mut self` methods return the new value.

Rust                          | model
------------------------------|---------------------------
`index: HashMap<K,V>`         | `index : K → Option V`
`blocks: VecDeque<BlockHash>` | `blocks : List Nat` (oldest first)
`tx_in_block: HashMap<..>`    | `txIn : Nat → Option (List K)`
`tip: u32`, `size: usize`     | `tip size : Nat`
-/
import TeosVerif.Gen.Consts

namespace Teos

structure TxIndex (K V : Type) where
  index  : K → Option V
  blocks : List Nat
  txIn   : Nat → Option (List K)
  tip    : Nat
  size   : Nat

namespace TxIndex
variable {K V : Type} [DecidableEq K]

/-- first value bound to `k` in an association list (a block's `HashMap` has unique keys) -/
def lookup (k : K) : List (K × V) → Option V
  | [] => none
  | (k', v) :: r => if k' = k then some v else lookup k r

def empty (size tip : Nat) : TxIndex K V :=
  { index := fun _ => none, blocks := [], txIn := fun _ => none, tip := tip, size := size }

/-- `TxIndex::get` -/
def get (t : TxIndex K V) (k : K) : Option V := t.index k

/-- `TxIndex::is_full`: `self.blocks.len() > self.size` (comparator taken from the source) -/
def isFull (t : TxIndex K V) : Bool := Gen.txIndexIsFull t.blocks.length t.size

/-- position of a block hash in the queue -/
def position (b : Nat) : List Nat → Option Nat
  | [] => none
  | x :: r => if x = b then some 0 else (position b r).map (· + 1)

/-- `TxIndex::get_height`: `tip + pos + 1 - blocks.len()` (formula taken from the source) -/
def getHeight (t : TxIndex K V) (b : Nat) : Option Nat :=
  (position b t.blocks).map fun pos => Gen.txIndexHeight t.tip pos t.blocks.length

/-- `TxIndex::remove_oldest_block` (the two `unwrap`s cannot fail right after a push) -/
def removeOldest (t : TxIndex K V) : TxIndex K V :=
  match t.blocks with
  | [] => t
  | h :: rest =>
    let ks := (t.txIn h).getD []
    { t with blocks := rest
             txIn := fun b => if b = h then none else t.txIn b
             index := fun k => if k ∈ ks then none else t.index k }

/-- `TxIndex::update` -/
def update (t : TxIndex K V) (b : Nat) (data : List (K × V)) : TxIndex K V :=
  let t1 : TxIndex K V :=
    { t with blocks := t.blocks ++ [b]
             index := fun k => match lookup k data with
                               | some v => some v
                               | none => t.index k
             txIn := fun x => if x = b then some (data.map (·.1)) else t.txIn x
             tip := t.tip + 1 }
  if t1.isFull then removeOldest t1 else t1

/-- `TxIndex::remove_disconnected_block` -/
def removeDisconnected (t : TxIndex K V) (b : Nat) : TxIndex K V :=
  match t.txIn b with
  | none => t
  | some ks =>
    { t with txIn := fun x => if x = b then none else t.txIn x
             index := fun k => if k ∈ ks then none else t.index k
             blocks := t.blocks.dropLast
             tip := if t.blocks.isEmpty then t.tip else t.tip - 1 }

/-- `TxIndex::new(last_n_blocks, height)`; `blks` oldest first (the Rust slice is newest first and
iterated in reverse). -/
def new (blks : List (Nat × List (K × V))) (height : Nat) : TxIndex K V :=
  let t := blks.foldl (fun t (b : Nat × List (K × V)) => update t b.1 b.2)
              (empty blks.length height)
  { t with tip := height }

end TxIndex
end Teos
