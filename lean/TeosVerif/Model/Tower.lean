/-
Executable model of the tower core: `Gatekeeper`, `Watcher`, `Responder`, `Carrier` and the parts
of `DBM` they use. One definition per Rust method, in the order the Rust code performs its
effects. `&self` + interior mutability become state-passing. Node replies are an oracle.

Abort sites (`unwrap`, `unreachable!`, checked arithmetic in builds with overflow checks) set the
sticky `aborted` marker instead of being totalised away; `Props/C11.lean` proves them unreachable.
-/
import TeosVerif.Model.Basic

namespace Teos
open TxIndex

/-- `compute_appointment_slots(len, ENCRYPTED_BLOB_MAX_SIZE)` as exact ceiling division;
`Props/C07.lean` proves the f32 formula of the source equals this below the transport limit. -/
def slotsOf (len : Nat) : Nat :=
  (len + (Gen.ENCRYPTED_BLOB_MAX_SIZE - 1)) / Gen.ENCRYPTED_BLOB_MAX_SIZE

def Tower.abort (s : Tower) (site : String) : Tower :=
  match s.aborted with
  | some _ => s
  | none => { s with aborted := some site }

/-! ### DBM (teos/src/dbm.rs): only what the schema (PK, FK, ON DELETE CASCADE) makes observable -/
namespace Db

def addKey {α : Type} [DecidableEq α] (k : α) (l : List α) : List α := if k ∈ l then l else l ++ [k]

/-- `store_user`: INSERT; `Err(AlreadyExists)` on a primary-key clash -/
def storeUser (d : Db) (u : User) (i : UserInfo) : Option Db :=
  match d.users u with
  | some _ => none
  | none => some { d with users := fun x => if x = u then some i else d.users x, userKeys := addKey u d.userKeys,
                          log := d.log ++ [.storeUser u i] }

/-- `update_user`: UPDATE … WHERE user_id; silently nothing when the row is missing -/
def updateUser (d : Db) (u : User) (i : UserInfo) : Db :=
  match d.users u with
  | none => d
  | some _ => { d with users := fun x => if x = u then some i else d.users x, log := d.log ++ [.updateUser u i] }

/-- `UPDATE users SET available_slots` (inside `batch_remove_appointments`; not a write of its own) -/
def setSlots (d : Db) (u : User) (slots : Nat) : Db :=
  match d.users u with
  | none => d
  | some i => { d with users := fun x => if x = u then some { i with slots := slots } else d.users x }

/-- `store_appointment`: INSERT; PK clash → AlreadyExists, unknown user → MissingForeignKey -/
def storeAppt (d : Db) (k : Uuid) (a : Appt) : Option Db :=
  match d.appts k, d.users a.user with
  | none, some _ => some { d with appts := fun x => if x = k then some a else d.appts x, apptKeys := addKey k d.apptKeys,
                                  log := d.log ++ [.storeAppt k a] }
  | _, _ => none

/-- `update_appointment`: blob, to_self_delay, user_signature, start_block; NotFound when missing -/
def updateAppt (d : Db) (k : Uuid) (a : Appt) : Option Db :=
  match d.appts k with
  | none => none
  | some old =>
    some { d with appts := fun x => if x = k then
                     some { old with blob := a.blob, tsd := a.tsd, usig := a.usig, start := a.start }
                   else d.appts x
                  log := d.log ++ [.updateAppt k a] }

/-- `store_tracker`: needs a storable status, a fresh key and the appointment row (FK) -/
def storeTracker (d : Db) (k : Uuid) (t : Tracker) : Option Db :=
  if !t.status.accepted then none else
  match d.trackers k, d.appts k with
  | none, some _ => some { d with trackers := fun x => if x = k then some t else d.trackers x,
                                  log := d.log ++ [.storeTracker k t] }
  | _, _ => none

/-- `update_tracker_status` -/
def updateTrackerStatus (d : Db) (k : Uuid) (st : CStatus) : Option Db :=
  if !st.accepted then none else
  match d.trackers k with
  | none => none
  | some t => some { d with trackers := fun x => if x = k then some { t with status := st } else d.trackers x,
                            log := d.log ++ [.updateTracker k st] }

/-- the rows a deletion removes: appointments and (cascade) their trackers -/
def dropAppts (d : Db) (ks : List Uuid) : Db :=
  { d with appts := fun x => if x ∈ ks then none else d.appts x
           trackers := fun x => if x ∈ ks then none else d.trackers x }

/-- `remove_appointment` / `batch_remove_appointments` without refund. A single `DELETE` of a row
that does not exist changes nothing (and is not a successful write). -/
def removeAppts (d : Db) (ks : List Uuid) : Db :=
  match ks with
  | [k] => if (d.appts k).isSome then { (d.dropAppts ks) with log := d.log ++ [.removeAppts ks []] } else d
  | _ => { (d.dropAppts ks) with log := d.log ++ [.removeAppts ks []] }

/-- `batch_remove_appointments(uuids, updated_users)`: one transaction deleting the rows and writing
the refunded balances -/
def removeApptsRefund (d : Db) (ks : List Uuid) (balances : List (User × Nat)) : Db :=
  let d1 := d.dropAppts ks
  let d2 := balances.foldl (fun d (b : User × Nat) => d.setSlots b.1 b.2) d1
  { d2 with log := d.log ++ [.removeAppts ks balances] }

/-- `batch_remove_users`: DELETE FROM users (+ cascade to appointments, then to trackers) -/
def removeUsers (d : Db) (us : List User) : Db :=
  { d with users := fun x => if x ∈ us then none else d.users x
           appts := fun x => if x.2 ∈ us then none else d.appts x
           trackers := fun x => if x.2 ∈ us then none else d.trackers x
           log := d.log ++ [.removeUsers us] }

/-- `store_last_known_block` -/
def storeLastKnown (d : Db) (b : Nat) : Db := { d with lastKnown := some b, log := d.log ++ [.lastKnown b] }

def liveUsers (d : Db) : List User := d.userKeys.filter fun u => (d.users u).isSome
def liveAppts (d : Db) : List Uuid := d.apptKeys.filter fun k => (d.appts k).isSome
def liveTrackers (d : Db) : List Uuid := d.apptKeys.filter fun k => (d.trackers k).isSome

/-- `load_uuids(locator)`: every appointment row with that locator (triggered ones included) -/
def uuidsWithLoc (d : Db) (l : Loc) : List Uuid := d.liveAppts.filter fun k => k.1 = l

/-- `load_user_locators(user)` -/
def userLocators (d : Db) (u : User) : List Loc := (d.liveAppts.filter fun k => k.2 = u).map (·.1)

end Db

/-! ### Carrier (teos/src/carrier.rs) -/

/-- the verdict table of `Carrier::send_transaction`: the arms for RPC error codes are extracted
from the source (`Gen.sendVerdictArms`), anything else is `Rejected(UNKNOWN_JSON_RPC_EXCEPTION)` -/
def sendVerdict (height : Nat) : SendReply → CStatus
  | .ok => .inMempoolSince height
  | .rpc c =>
    match Gen.sendVerdictArms.lookup c with
    | some (.rejected code) => .rejected code
    | some .resolved => .irrevocablyResolved
    | none => .rejected Gen.UNKNOWN_JSON_RPC_EXCEPTION
  | .other => .rejected Gen.UNKNOWN_JSON_RPC_EXCEPTION

/-- `Carrier::send_transaction` with the per-block memo `issued_receipts` -/
def carrierSend (m : Mem) (node : Node) (tx : TxId) : Mem × CStatus × List Rpc :=
  match m.receipts tx with
  | some r => (m, r, [])
  | none =>
    let r := sendVerdict m.cHeight (node.send tx)
    ({ m with receipts := fun x => if x = tx then some r else m.receipts x }, r, [.send tx])

/-- `Carrier::in_mempool` -/
def carrierInMempool (node : Node) (tx : TxId) : Bool :=
  match node.get tx with
  | .found confirmed => !confirmed
  | _ => false

/-! ### Gatekeeper (teos/src/gatekeeper.rs) -/

/-- one iteration of the refund loop of `delete_appointments`: give the slots of `k` back to its
owner (in memory) and remember that the owner changed -/
def refundStep (acc : Tower × List User) (k : Uuid) : Tower × List User :=
  let (s, upd) := acc
  match s.db.appts k with
  | none => (s.abort "gatekeeper.delete_appointments: appointment missing", upd)
  | some a =>
    match s.mem.users a.user with
    | none => (s.abort "gatekeeper.delete_appointments: user missing", upd)
    | some ui =>
      let ui' := { ui with slots := ui.slots + slotsOf a.blob.len }
      ({ s with mem := { s.mem with users := fun x => if x = a.user then some ui' else s.mem.users x } },
       Db.addKey a.user upd)

/-- `Gatekeeper::delete_appointments(uuids, refund)` -/
def deleteAppointments (s : Tower) (ks : List Uuid) (refund : Bool) : Tower :=
  if refund then
    let (s1, upd) := ks.foldl refundStep (s, [])
    let balances := upd.filterMap fun u => (s1.mem.users u).map fun ui => (u, ui.slots)
    { s1 with db := s1.db.removeApptsRefund ks balances }
  else
    { s with db := s.db.removeAppts ks }

/-- `Gatekeeper::add_update_user` -/
def addUpdateUser (cfg : Cfg) (s : Tower) (u : User) : Tower × Option UserInfo :=
  let h := s.mem.gkHeight
  match s.mem.users u with
  | some ui =>
    if ui.slots + cfg.slots > u32Max then (s, none)          -- checked_add → MaxSlotsReached
    else
      let ui' : UserInfo := { slots := ui.slots + cfg.slots, start := ui.start,
                              expiry := min (ui.expiry + cfg.duration) u32Max }
      ({ s with mem := { s.mem with users := fun x => if x = u then some ui' else s.mem.users x }
                db := s.db.updateUser u ui' }, some ui')
  | none =>
    let ui : UserInfo := { slots := cfg.slots, start := h, expiry := h + cfg.duration }
    match s.db.storeUser u ui with
    | none => (s.abort "gatekeeper.add_update_user: store_user", none)
    | some db' =>
      ({ s with mem := { s.mem with users := fun x => if x = u then some ui else s.mem.users x }, db := db' }, some ui)

/-- `Gatekeeper::add_update_appointment`: diff-based charging -/
def addUpdateAppointment (s : Tower) (u : User) (k : Uuid) (blobLen : Nat) : Tower × Option Nat :=
  match s.mem.users u with
  | none => (s.abort "gatekeeper.add_update_appointment: user missing", none)
  | some ui =>
    let used := slotsOf (((s.db.appts k).map fun a => a.blob.len).getD 0)
    let required := slotsOf blobLen
    let diff : Int := (required : Int) - (used : Int)
    if Gen.slotsFit diff (ui.slots : Int) then
      let ui' := { ui with slots := ((ui.slots : Int) - diff).toNat }
      ({ s with mem := { s.mem with users := fun x => if x = u then some ui' else s.mem.users x }
                db := s.db.updateUser u ui' }, some ui'.slots)
    else (s, none)

/-- `Gatekeeper::get_outdated_users(height)` -/
def outdatedUsers (cfg : Cfg) (s : Tower) (height : Nat) : List User :=
  s.db.userKeys.filter fun u =>
    match s.mem.users u with
    | some ui => Gen.userOutdated height ui.expiry cfg.grace
    | none => false

/-- `Gatekeeper::filtered_block_connected` -/
def gkConnect (cfg : Cfg) (s : Tower) (height : Nat) : Tower :=
  let outdated := outdatedUsers cfg s height
  let s1 := if outdated.isEmpty then s else
    { s with mem := { s.mem with users := fun x => if x ∈ outdated then none else s.mem.users x }
             db := s.db.removeUsers outdated }
  { s1 with mem := { s1.mem with gkHeight := height } }

/-! ### Responder (teos/src/responder.rs) -/

/-- `Responder::add_tracker`: a failed insert (duplicate) is only logged -/
def addTracker (s : Tower) (k : Uuid) (t : Tracker) : Tower :=
  match s.db.storeTracker k t with
  | some db' => { s with db := db' }
  | none => s

/-- `Responder::handle_breach` -/
def handleBreach (s : Tower) (node : Node) (k : Uuid) (dispute penalty : TxId) (u : User) :
    Tower × CStatus × List Rpc :=
  match s.mem.txIndex.get penalty with
  | some b =>
    match s.mem.txIndex.getHeight b with
    | none => (s.abort "responder.handle_breach: get_height", .rejected 0, [])
    | some h =>
      let st := CStatus.confirmedIn h
      (addTracker s k { dispute := dispute, penalty := penalty, status := st, user := u }, st, [])
  | none =>
    if carrierInMempool node penalty then
      let st := CStatus.inMempoolSince s.mem.cHeight
      (addTracker s k { dispute := dispute, penalty := penalty, status := st, user := u }, st, [.get penalty])
    else
      let (m', st, rpcs) := carrierSend s.mem node penalty
      let s' := { s with mem := m' }
      let s'' := if st.accepted then
          addTracker s' k { dispute := dispute, penalty := penalty, status := st, user := u } else s'
      (s'', st, .get penalty :: rpcs)

/-- one iteration of `check_confirmations` for tracker `k` -/
def confirmStep (txids : List TxId) (height : Nat) (acc : Tower × List Uuid) (k : Uuid) : Tower × List Uuid :=
  let (s, done) := acc
  match s.db.trackers k with
  | none => acc
  | some t =>
    if t.penalty ∈ txids then
      match s.db.updateTrackerStatus k (.confirmedIn height) with
      | none => (s.abort "responder.check_confirmations: update_tracker_status", done)
      | some db' => ({ s with db := db', mem := { s.mem with reorged := s.mem.reorged.filter (· ≠ k) } }, done)
    else if k ∈ s.mem.reorged then acc
    else match t.status with
      | .confirmedIn h =>
        -- `current_height.saturating_sub(h)` (natural-number subtraction saturates as well)
        if Gen.isCompleted (height - h) then (s, done ++ [k]) else acc
      | _ => acc

/-- `Responder::check_confirmations`; returns the completed trackers -/
def checkConfirmations (s : Tower) (txids : List TxId) (height : Nat) : Tower × List Uuid :=
  s.db.liveTrackers.foldl (confirmStep txids height) (s, [])

/-- one iteration of `handle_reorged_txs`: re-announce the dispute, then the penalty, of `k` -/
def reorgStep (node : Node) (height : Nat) (acc : Tower × List Uuid × List Rpc) (k : Uuid) :
    Tower × List Uuid × List Rpc :=
  let (s, rej, log) := acc
  match s.db.trackers k with
  | none => acc      -- the tracker is gone (dropped by the Watcher in this very block): skipped
  | some t =>
    let (m1, st1, l1) := carrierSend s.mem node t.dispute
    let s1 := { s with mem := m1 }
    match st1 with
    | .confirmedIn _ => (s1.abort "responder.handle_reorged_txs: unreachable", rej, log ++ l1)
    | .rejected _ => (s1, rej ++ [k], log ++ l1)
    | _ =>
      let (m2, st2, l2) := carrierSend s1.mem node t.penalty
      let s2 := { s1 with mem := m2 }
      if st2.isRejected then (s2, rej ++ [k], log ++ l1 ++ l2)
      else match s2.db.updateTrackerStatus k (.inMempoolSince height) with
        | none => (s2.abort "responder.handle_reorged_txs: update_tracker_status", rej, log ++ l1 ++ l2)
        | some db' => ({ s2 with db := db' }, rej, log ++ l1 ++ l2)

/-- `Responder::handle_reorged_txs`; returns the rejected trackers -/
def handleReorgedTxs (s : Tower) (node : Node) (height : Nat) : Tower × List Uuid × List Rpc :=
  s.mem.reorged.foldl (reorgStep node height) ({ s with mem := { s.mem with reorged := [] } }, [], [])

/-- is tracker `k` stale at `height`: unconfirmed since at least `CONFIRMATIONS_BEFORE_RETRY` blocks -/
def isStale (s : Tower) (height : Nat) (k : Uuid) : Bool :=
  match s.db.trackers k with
  | some t => match t.status with
    | .inMempoolSince h => Gen.staleCmp h (height - Gen.CONFIRMATIONS_BEFORE_RETRY)
    | _ => false
  | none => false

/-- one iteration of `rebroadcast_stale_txs` -/
def rebroadcastStep (node : Node) (height : Nat) (acc : Tower × List Uuid × List Rpc) (k : Uuid) :
    Tower × List Uuid × List Rpc :=
  let (s, rej, log) := acc
  match s.db.trackers k with
  | none => (s.abort "responder.rebroadcast_stale_txs: load_tracker", rej, log)
  | some t =>
    let (m1, st, l1) := carrierSend s.mem node t.penalty
    let s1 := { s with mem := m1 }
    if st.isRejected then (s1, rej ++ [k], log ++ l1)
    else match s1.db.updateTrackerStatus k (.inMempoolSince height) with
      | none => (s1.abort "responder.rebroadcast_stale_txs: update_tracker_status", rej, log ++ l1)
      | some db' => ({ s1 with db := db' }, rej, log ++ l1)

/-- `Responder::rebroadcast_stale_txs`; returns the rejected trackers -/
def rebroadcastStaleTxs (s : Tower) (node : Node) (height : Nat) : Tower × List Uuid × List Rpc :=
  if height < Gen.CONFIRMATIONS_BEFORE_RETRY then
    (s.abort "responder.rebroadcast_stale_txs: height - CONFIRMATIONS_BEFORE_RETRY", [], [])
  else
    (s.db.liveTrackers.filter (isStale s height)).foldl (rebroadcastStep node height) (s, [], [])

/-- the first two statements of `Responder::filtered_block_connected`: carrier height and tx index -/
def respPrepare (s : Tower) (b : Nat) (height : Nat) (txs : List TxId) : Tower :=
  { s with mem := { s.mem with cHeight := height,
                               txIndex := s.mem.txIndex.update b (txs.map fun t => (t, b)) } }

/-- `Responder::filtered_block_connected` -/
def respConnect (s : Tower) (node : Node) (b : Nat) (height : Nat) (txs : List TxId) : Tower × List Rpc :=
  let s1 := respPrepare s b height txs
  let (s2, completed) := checkConfirmations s1 txs height
  let s3 := if completed.isEmpty then s2 else deleteAppointments s2 completed true
  let (s4, rej1, log1) := if s3.mem.reorged.isEmpty then (s3, [], []) else handleReorgedTxs s3 node height
  let (s5, rej2, log2) := rebroadcastStaleTxs s4 node height
  let del := rej1 ++ rej2
  let s6 := if del.isEmpty then s5 else deleteAppointments s5 del false
  ({ s6 with mem := { s6.mem with receipts := fun _ => none } }, log1 ++ log2)

/-- `Responder::block_disconnected` -/
def respDisconnect (s : Tower) (b : Nat) (height : Nat) : Tower :=
  let confirmedHere := s.db.liveTrackers.filter fun k =>
    match s.db.trackers k with
    | some t => match t.status with
      | .confirmedIn h => Gen.confirmedCmp h height
      | _ => false
    | none => false
  { s with mem := { s.mem with cHeight := height,
                               txIndex := s.mem.txIndex.removeDisconnected b,
                               reorged := confirmedHere.foldl (fun l k => Db.addKey k l) s.mem.reorged } }

/-! ### Watcher (teos/src/watcher.rs) -/

/-- `Watcher::store_appointment`: update if the row exists, insert otherwise -/
def storeAppointment (s : Tower) (k : Uuid) (a : Appt) : Tower :=
  match s.db.appts k with
  | some _ =>
    match s.db.updateAppt k a with
    | some db' => { s with db := db' }
    | none => s.abort "watcher.store_appointment: update_appointment"
  | none =>
    match s.db.storeAppt k a with
    | some db' => { s with db := db' }
    | none => s.abort "watcher.store_appointment: store_appointment"

/-- `Watcher::store_triggered_appointment` -/
def storeTriggeredAppointment (s : Tower) (node : Node) (k : Uuid) (a : Appt) (dispute : TxId) :
    Tower × List Rpc :=
  match a.blob.decrypt dispute with
  | some penalty =>
    let s1 := storeAppointment s k a
    let (s2, st, log) := handleBreach s1 node k dispute penalty a.user
    if st.isRejected then (deleteAppointments s2 [k] false, log) else (s2, log)
  -- undecryptable: nothing is stored, and when this was an update the version it was charged against
  -- goes too (`if appointment_exists { delete_appointments([uuid], false) }`)
  | none => (deleteAppointments s [k] false, [])

inductive Reply where
  | registered (slots start expiry : Nat)
  | maxSlots
  | accepted (start : Nat) (usig : Nat) (available : Nat) (expiry : Nat)
  | authFail
  | expired (expiry : Nat)
  | notEnoughSlots
  | alreadyTriggered
  | appt (loc : Loc) (blob : Blob) (tsd : Nat)
  | tracker (dispute penalty : TxId)
  | notFound
  | subscription (slots expiry : Nat) (locs : List Loc)
  | done
deriving DecidableEq, Repr

/-- `Watcher::register` -/
def register (cfg : Cfg) (s : Tower) (u : User) : Tower × Reply :=
  match addUpdateUser cfg s u with
  | (s', some ui) => (s', .registered ui.slots ui.start ui.expiry)
  | (s', none) => (s', .maxSlots)

/-- `Gatekeeper::authenticate_user` + `has_subscription_expired`, as used by every request:
`signer` is what `recover_pk(message, signature)` yields for the message the request defines. -/
def authCheck (s : Tower) (signer : Option User) : Except Reply (User × UserInfo) :=
  match signer with
  | none => .error .authFail
  | some u =>
    match s.mem.users u with
    | none => .error .authFail
    | some ui => if Gen.subscriptionExpired s.mem.gkHeight ui.expiry then .error (.expired ui.expiry) else .ok (u, ui)

/-- `Watcher::add_appointment` -/
def addAppointment (s : Tower) (node : Node) (signer : Option User) (loc : Loc) (blob : Blob)
    (tsd usig : Nat) : Tower × Reply × List Rpc :=
  match authCheck s signer with
  | .error e => (s, e, [])
  | .ok (u, ui) =>
    let k : Uuid := (loc, u)
    let a : Appt := { loc := loc, user := u, blob := blob, tsd := tsd, usig := usig, start := s.mem.wHeight }
    if (s.db.trackers k).isSome then (s, .alreadyTriggered, [])
    else
      match addUpdateAppointment s u k blob.len with
      | (s1, none) => (s1, .notEnoughSlots, [])
      | (s1, some avail) =>
        let (s2, log) := match s1.mem.cache.get loc with
          | some dispute => storeTriggeredAppointment s1 node k a dispute
          | none => (storeAppointment s1 k a, [])
        (s2, .accepted a.start usig avail ui.expiry, log)

/-- `Watcher::get_appointment` -/
def getAppointment (s : Tower) (signer : Option User) (loc : Loc) : Reply :=
  match authCheck s signer with
  | .error e => e
  | .ok (u, _) =>
    match s.db.trackers (loc, u), s.db.appts (loc, u) with
    | some t, some _ => .tracker t.dispute t.penalty
    | _, some a => .appt a.loc a.blob a.tsd
    | _, none => .notFound

/-- `Watcher::get_subscription_info` -/
def getSubscriptionInfo (s : Tower) (signer : Option User) : Reply :=
  match authCheck s signer with
  | .error e => e
  | .ok (u, ui) => .subscription ui.slots ui.expiry (s.db.userLocators u)

/-- one iteration of the inner loop of `handle_breaches`: appointment `k` triggered by dispute `d` -/
def breachStep (node : Node) (d : TxId) (acc : Tower × List Uuid × List Rpc) (k : Uuid) :
    Tower × List Uuid × List Rpc :=
  let (s, inv, log) := acc
  match s.db.appts k with
  | none => (s.abort "watcher.handle_breaches: load_appointment", inv, log)
  | some a =>
    match a.blob.decrypt d with
    | some p =>
      let (s', st, l) := handleBreach s node k d p a.user
      if st.isRejected then (s', inv ++ [k], log ++ l) else (s', inv, log ++ l)
    | none => (s, inv ++ [k], log)

/-- the outer loop: every appointment whose locator is the locator of dispute `d` -/
def disputeStep (node : Node) (acc : Tower × List Uuid × List Rpc) (d : TxId) :
    Tower × List Uuid × List Rpc :=
  (acc.1.db.uuidsWithLoc (locOf d)).foldl (breachStep node d) acc

/-- `Watcher::handle_breaches` over the breaches of one block; returns the invalid ones -/
def handleBreaches (s : Tower) (node : Node) (disputes : List TxId) : Tower × List Uuid × List Rpc :=
  disputes.foldl (disputeStep node) (s, [], [])

/-- `Watcher::filtered_block_connected` -/
def watcherConnect (s : Tower) (node : Node) (b : Nat) (height : Nat) (txs : List TxId) : Tower × List Rpc :=
  let s1 := { s with mem := { s.mem with cache := s.mem.cache.update b (txs.map fun t => (locOf t, t)) } }
  -- get_breaches: the block's transactions whose locator is the locator of some stored appointment
  let disputes := txs.filter fun t => !(s1.db.uuidsWithLoc (locOf t)).isEmpty
  let (s2, invalid, log) := handleBreaches s1 node disputes
  let s3 := if invalid.isEmpty then s2 else deleteAppointments s2 invalid false
  ({ s3 with mem := { s3.mem with wHeight := height } }, log)

/-- `Watcher::block_disconnected` -/
def watcherDisconnect (s : Tower) (b : Nat) (height : Nat) : Tower :=
  { s with mem := { s.mem with cache := s.mem.cache.removeDisconnected b, wHeight := height - 1 } }

/-! ### The listener chain of `main.rs`: gatekeeper → watcher → responder -/

def connectBlock (cfg : Cfg) (s : Tower) (node : Node) (b : Nat) (height : Nat) (txs : List TxId) :
    Tower × List Rpc :=
  let s1 := gkConnect cfg s height
  let (s2, l1) := watcherConnect s1 node b height txs
  let (s3, l2) := respConnect s2 node b height txs
  (s3, l1 ++ l2)

def disconnectBlock (s : Tower) (b : Nat) (height : Nat) : Tower :=
  let s1 := { s with mem := { s.mem with gkHeight := height - 1 } }
  let s2 := watcherDisconnect s1 b height
  respDisconnect s2 b height

/-- Bootstrap (`main.rs`): components built on the last 100 / 6 blocks at `height`; users loaded
from the database. `blocks` oldest first, each with its transactions. -/
def boot (db : Db) (height : Nat) (blocks : List (Nat × List TxId)) : Tower :=
  let last6 := blocks.drop (blocks.length - 6)
  { db := db
    mem := { gkHeight := height, wHeight := height, cHeight := height
             users := db.users
             cache := TxIndex.new (last6.map fun b => (b.1, b.2.map fun t => (locOf t, t))) height
             txIndex := TxIndex.new (blocks.map fun b => (b.1, b.2.map fun t => (t, b.1))) height
             receipts := fun _ => none
             reorged := []
             reachable := true } }

/-! ### One step of a history -/

inductive Op where
  | register (u : User)
  | add (signer : Option User) (loc : Loc) (blob : Blob) (tsd usig : Nat)
  | get (signer : Option User) (loc : Loc)
  | sub (signer : Option User)
  | connect (b : Nat) (height : Nat) (txs : List TxId)
  | disconnect (b : Nat) (height : Nat)

def step (cfg : Cfg) (s : Tower) (node : Node) : Op → Tower × Reply × List Rpc
  | .register u => if s.aborted.isSome then (s, .done, []) else
      let (s', r) := register cfg s u; (s', r, [])
  | .add sg l b t u => if s.aborted.isSome then (s, .done, []) else addAppointment s node sg l b t u
  | .get sg l => if s.aborted.isSome then (s, .done, []) else (s, getAppointment s sg l, [])
  | .sub sg => if s.aborted.isSome then (s, .done, []) else (s, getSubscriptionInfo s sg, [])
  | .connect b h txs => if s.aborted.isSome then (s, .done, []) else
      let (s', l) := connectBlock cfg s node b h txs; (s', .done, l)
  | .disconnect b h => if s.aborted.isSome then (s, .done, []) else (disconnectBlock s b h, .done, [])

end Teos
