/-
The public HTTP API (teos/src/api/http.rs): routing, body-size limits, JSON decoding error
categories (`handle_rejection`), field validation in the four handlers, and the mapping of the
internal API's gRPC status to (HTTP status, error code) (`match_status`).
Limits, error constants and the `match_status` table come from `Gen.Consts` (regenerated from the
sources on every run). Core Lean only.
-/
import TeosVerif.Gen.Consts

namespace Teos.Http

inductive Endpoint where
  | register | addAppointment | getAppointment | getSubscriptionInfo | ping
deriving DecidableEq, Repr

def Endpoint.limit : Endpoint → Nat
  | .register => Gen.REGISTER_BODY_LEN
  | .addAppointment => Gen.ADD_APPOINTMENT_BODY_LEN
  | .getAppointment => Gen.GET_APPOINTMENT_BODY_LEN
  | .getSubscriptionInfo => Gen.GET_SUBSCRIPTION_INFO_BODY_LEN
  | .ping => 0

inductive Method where
  | get | post | other
deriving DecidableEq, Repr

/-- what is wrong with the body of a request that reached a handler's route (at most one thing:
the generator produces single-fault requests; serde reports the first problem it meets, whose
position depends on the key order, which is not modelled) -/
inductive Fault where
  | none
  /-- the body is not a JSON document / is empty / has a duplicate key / a number out of range -/
  | notJson | emptyBody | duplicateKey | numberOutOfRange
  /-- the top-level value is not an object -/
  | notAnObject
  | missingField        -- a required key is absent (for `appointment`: the handler reports it)
  | wrongType           -- a value of another JSON type
  | hexOddLength | hexBadChar
  | emptyField          -- `""` for a hex field or the signature
  | wrongSize           -- user_id ≠ 33 bytes, locator ≠ 16 bytes
  | notAKey             -- 33 bytes that are not a compressed public key (only the internal API notices)
deriving DecidableEq, Repr

/-- `handle_rejection` + the handlers' own `ApiError`s: error code of a faulty body (`none`:
the request is forwarded to the internal API) -/
def faultCode : Fault → Option Nat
  | .none => none
  | .notJson | .emptyBody | .duplicateKey | .numberOutOfRange => some Gen.INVALID_REQUEST_FORMAT
  | .notAnObject => some Gen.WRONG_FIELD_TYPE
  | .missingField => some Gen.MISSING_FIELD
  | .wrongType => some Gen.WRONG_FIELD_TYPE
  | .hexOddLength | .hexBadChar => some Gen.WRONG_FIELD_FORMAT
  | .emptyField => some Gen.EMPTY_FIELD
  | .wrongSize => some Gen.WRONG_FIELD_SIZE
  | .notAKey => none

/-- what the internal API answered, as a gRPC code name (`none`: success) -/
abbrev Grpc := Option String

def grpcReply (g : String) : Nat × Nat :=
  match Gen.matchStatus.lookup g with
  | some r => r
  | none => (400, Gen.UNEXPECTED_ERROR)

structure Request where
  method : Method
  /-- `none`: no route has this path -/
  endpoint : Option Endpoint
  /-- `none`: no Content-Length header -/
  contentLength : Option Nat
  fault : Fault
deriving Repr

/-- (HTTP status, error code) — error code 0 when the body is not a JSON error object.
`internal` is what the internal API answers when the request gets that far. -/
def respond (r : Request) (internal : Grpc) : Nat × Nat :=
  match r.endpoint with
  -- no route matches the path: for every method some route rejects with "method not allowed",
  -- which warp ranks above "not found" when it combines the rejections
  | none => (405, 0)
  | some .ping => if r.method = .get then (200, 0) else (405, 0)
  | some e =>
    if r.method ≠ .post then (405, 0) else
    match r.contentLength with
    | none => (411, 0)
    | some n =>
      if n > e.limit then (413, 0) else
      match faultCode r.fault with
      | some c => (400, c)
      | none =>
        match internal with
        | none => (200, 0)
        | some g => grpcReply g

/-- does the request reach the internal API? -/
def forwarded (r : Request) : Bool :=
  match r.endpoint with
  | none | some .ping => false
  | some e =>
    r.method = .post && (match r.contentLength with | some n => n ≤ e.limit | none => false) &&
      (faultCode r.fault).isNone

/-- the error codes the documentation lists for an existing endpoint (everything but 255) -/
def documentedCodes : List Nat :=
  [Gen.MISSING_FIELD, Gen.EMPTY_FIELD, Gen.WRONG_FIELD_TYPE, Gen.WRONG_FIELD_SIZE, Gen.WRONG_FIELD_FORMAT,
   Gen.INVALID_REQUEST_FORMAT, Gen.INVALID_SIGNATURE_OR_SUBSCRIPTION_ERROR, Gen.SERVICE_UNAVAILABLE,
   Gen.APPOINTMENT_ALREADY_TRIGGERED, Gen.APPOINTMENT_NOT_FOUND, Gen.REGISTRATION_RESOURCE_EXHAUSTED]

/-- the gRPC codes the internal API's four public handlers can return (api/internal.rs) -/
def internalCodes : List String :=
  ["InvalidArgument", "NotFound", "AlreadyExists", "ResourceExhausted", "Unauthenticated", "Unavailable"]

end Teos.Http
