/-
Small-step model of `RetryManager::manage_retry` and of the status machine of `Retrier`
(watchtower-plugin/src/retrier.rs): which retrier objects exist, in which status, and how many retry
tasks (tokio tasks spawned by `Retrier::start`) are alive for each tower. Everything the tasks do to
the towers is abstracted into *when they finish and how*. Core Lean only.

Rust                                              | model
--------------------------------------------------|----------------------------------------------
`retriers: HashMap<TowerId, Arc<Retrier>>`        | `retrier : TowerId → Option Retrier`
`Retrier.status`, `.pending_appointments`         | `Retrier.status`, `.pending` (is it non-empty)
`wt_client.towers.contains_key`                   | `known : TowerId → Bool`
tasks spawned by `start` and not finished yet     | `tasks : TowerId → Nat` (ghost)
`unreachable_towers` channel                      | the `recv` step takes any message (the channel is
                                                  | fed by other threads at any time)
-/
namespace Teos.Retry

abbrev TowerId := Nat

/-- `RetrierStatus` (the instant of `Idle` is irrelevant here) -/
inductive RStatus where
  | stopped | running | failed | idle
deriving DecidableEq, Repr

structure Retrier where
  status : RStatus
  /-- `has_pending_appointments()` -/
  pending : Bool
deriving DecidableEq, Repr

structure Mgr where
  known : TowerId → Bool
  retrier : TowerId → Option Retrier
  tasks : TowerId → Nat

def Mgr.init : Mgr := { known := fun _ => false, retrier := fun _ => none, tasks := fun _ => 0 }

/-- how a retry task ends (`retry_notify` returned) -/
inductive Outcome where
  | ok            -- every pending appointment delivered: `Stopped`
  | gaveUp        -- transient error until the back-off ran out: `Idle`
  | permanent     -- subscription cannot be renewed / misbehaving tower / abandoned tower: `Failed`
deriving DecidableEq, Repr

inductive Step where
  /-- `registertower` / `abandontower` seen from here: the set of known towers changes -/
  | setKnown (t : TowerId) (k : Bool)
  /-- one message taken from the channel: `data_is_none` (a manual retry of an idle retrier) or locators -/
  | recv (t : TowerId) (dataIsNone : Bool)
  /-- the `Empty` branch for tower `t`: `retain`, then start / wake up (`autoWake`: the idle time is over) -/
  | tick (t : TowerId) (autoWake : Bool)
  /-- a task of tower `t` finishes -/
  | finish (t : TowerId) (o : Outcome)
  /-- a running task delivered everything it had: `pending_appointments` becomes empty (it may fill again) -/
  | drained (t : TowerId)
deriving Repr

/-- the tower a step is about -/
def Step.target : Step → TowerId
  | .setKnown t _ => t | .recv t _ => t | .tick t _ => t | .finish t _ => t | .drained t => t

def setR (m : Mgr) (t : TowerId) (r : Option Retrier) : Mgr :=
  { m with retrier := fun x => if x = t then r else m.retrier x }

/-- `should_start()` -/
def Retrier.shouldStart (r : Retrier) : Bool := r.status = .stopped && r.pending

/-- the `recv` branch of `manage_retry` -/
def recv (m : Mgr) (t : TowerId) (dataIsNone : Bool) : Mgr :=
  if !m.known t then m else
  match m.retrier t with
  | some r =>
    if r.status = .idle then
      if !dataIsNone then m          -- "data was sent to an idle retrier": logged, ignored
      else setR m t (some { status := .stopped, pending := true })   -- woken up, fed from the database
    else setR m t (some { r with pending := r.pending || !dataIsNone })    -- `add_pending_appointments`: extend
  | none => setR m t (some { status := .stopped, pending := true })        -- a new retrier (pending from the store)

/-- the `Empty` branch of `manage_retry`, for one tower: `retain`, then `start_retrying` / auto wake-up -/
def tick (m : Mgr) (t : TowerId) (autoWake : Bool) : Mgr :=
  match m.retrier t with
  | none => m
  | some r =>
    -- retain
    let keep := if !m.known t && r.status ≠ .running then false
                else r.shouldStart || r.status = .running || r.status = .idle
    if !keep then setR m t none else
    -- start all the ready retriers
    if r.shouldStart then
      -- `Retrier::start`: status := Running, then `tokio::spawn`
      { (setR m t (some { r with status := .running })) with tasks := fun x => if x = t then m.tasks t + 1 else m.tasks x }
    else if r.status = .idle && autoWake then setR m t (some { status := .stopped, pending := true })
    else m

/-- the end of the task spawned by `start` -/
def finish (m : Mgr) (t : TowerId) (o : Outcome) : Mgr :=
  if m.tasks t = 0 then m else      -- no task, nothing finishes
  let m1 : Mgr := { m with tasks := fun x => if x = t then m.tasks t - 1 else m.tasks x }
  match m.retrier t with
  | none => m1
  | some r =>
    match o with
    | .ok => setR m1 t (some { r with status := .stopped })
    | .gaveUp => setR m1 t (some { status := .idle, pending := false })
    | .permanent => setR m1 t (some { r with status := .failed })

def step (m : Mgr) : Step → Mgr
  | .setKnown t k => { m with known := fun x => if x = t then k else m.known x }
  | .recv t d => recv m t d
  | .tick t a => tick m t a
  | .finish t o => finish m t o
  | .drained t => match m.retrier t with
    | some r => if r.status = .running then setR m t (some { r with pending := false }) else m
    | none => m

def run (m : Mgr) (steps : List Step) : Mgr := steps.foldl step m

end Teos.Retry
