/-
Core types of the tower model (Gatekeeper + Watcher + Responder + Carrier + DBM).
Core Lean only. See DESIGN.md section 4 for the conventions.
-/
import TeosVerif.Model.TxIndex

namespace Teos

abbrev User := Nat
abbrev Loc := Nat
abbrev TxId := Nat

/-- `Locator::new(txid)`: the first 16 bytes of the id. In the model an id is a number and its
locator the id divided by 16, so distinct ids *may* share a locator (prefix collisions). -/
def locOf (t : TxId) : Loc := t / 16

/-- `UUID::new(locator, user_id)` = RIPEMD160(locator ‖ user_id), assumed injective. -/
abbrev Uuid := Loc × User

/-- An encrypted blob under the ideal cipher (C17 relates it to `cryptography::{encrypt,decrypt}`):
`enc d p len` is `encrypt(p, d)` (of byte length `len`), `junk` is anything that never decrypts
to a transaction. -/
inductive Blob where
  | enc (dispute : TxId) (penalty : TxId) (len : Nat)
  | junk (tag : Nat) (len : Nat)
deriving DecidableEq, Repr

def Blob.len : Blob → Nat
  | .enc _ _ l => l
  | .junk _ l => l

/-- `cryptography::decrypt(blob, dispute_txid)` -/
def Blob.decrypt : Blob → TxId → Option TxId
  | .enc d p _, k => if d = k then some p else none
  | .junk _ _, _ => none

structure UserInfo where
  slots  : Nat
  start  : Nat
  expiry : Nat
deriving DecidableEq, Repr

structure Appt where
  loc   : Loc
  user  : User
  blob  : Blob
  tsd   : Nat
  usig  : Nat
  start : Nat
deriving DecidableEq, Repr

/-- `responder::ConfirmationStatus` -/
inductive CStatus where
  | confirmedIn (h : Nat)
  | inMempoolSince (h : Nat)
  | irrevocablyResolved
  | rejected (code : Int)
deriving DecidableEq, Repr

/-- `ConfirmationStatus::accepted` -/
def CStatus.accepted : CStatus → Bool
  | .confirmedIn _ => true
  | .inMempoolSince _ => true
  | _ => false

def CStatus.isRejected : CStatus → Bool
  | .rejected _ => true
  | _ => false

structure Tracker where
  dispute : TxId
  penalty : TxId
  status  : CStatus
  user    : User
deriving DecidableEq, Repr

/-- One durable write: a statement (or an explicit transaction) that sqlite has committed. The
tower's database is the result of applying these one after the other; a crash keeps a prefix. -/
inductive DbWrite where
  | storeUser (u : User) (i : UserInfo)
  | updateUser (u : User) (i : UserInfo)
  | storeAppt (k : Uuid) (a : Appt)
  | updateAppt (k : Uuid) (a : Appt)
  | storeTracker (k : Uuid) (t : Tracker)
  | updateTracker (k : Uuid) (st : CStatus)
  /-- `DELETE FROM appointments …` and, in the same transaction, the refunded balances -/
  | removeAppts (ks : List Uuid) (balances : List (User × Nat))
  | removeUsers (us : List User)
  | lastKnown (b : Nat)
deriving Repr

/-- The sqlite file. Tables are functions; the key lists over-approximate the live keys (a key
is appended when first inserted and never removed) so that iteration = filter over the list.
`log` is ghost: the durable writes committed so far, in order. -/
structure Db where
  users     : User → Option UserInfo
  appts     : Uuid → Option Appt
  trackers  : Uuid → Option Tracker
  userKeys  : List User
  apptKeys  : List Uuid
  lastKnown : Option Nat
  log       : List DbWrite := []

def Db.empty : Db :=
  { users := fun _ => none, appts := fun _ => none, trackers := fun _ => none,
    userKeys := [], apptKeys := [], lastKnown := none, log := [] }

/-- replies of bitcoind to `sendrawtransaction` (transport errors are the subject of C12) -/
inductive SendReply where
  | ok
  | rpc (code : Int)
  | other
deriving DecidableEq, Repr

/-- replies of bitcoind to `getrawtransaction` -/
inductive GetReply where
  | found (confirmed : Bool)
  | rpc (code : Int)
  | other
deriving DecidableEq, Repr

/-- The node as an oracle, fixed for the duration of one tower operation. Every theorem is
quantified over it. -/
structure Node where
  send : TxId → SendReply
  get  : TxId → GetReply

inductive Rpc where
  | send (t : TxId)
  | get (t : TxId)
deriving DecidableEq, Repr

structure Mem where
  gkHeight : Nat
  wHeight  : Nat
  cHeight  : Nat
  users    : User → Option UserInfo
  cache    : TxIndex Loc TxId
  txIndex  : TxIndex TxId Nat
  receipts : TxId → Option CStatus
  reorged  : List Uuid
  reachable : Bool

structure Cfg where
  slots    : Nat
  duration : Nat
  grace    : Nat
deriving Repr

/-- The tower: durable state, volatile state, and a sticky abort marker (a panic while a mutex
is held poisons it: nothing works afterwards). -/
structure Tower where
  db      : Db
  mem     : Mem
  aborted : Option String := none

def u32Max : Nat := 4294967295

end Teos
