/-
`teos_common::appointment::compute_appointment_slots`:
    (blob_size as f32 / blob_max_size as f32).ceil() as u32
modelled exactly: usize→f32 is round-to-nearest-even to a 24-bit significand; dividing by the
power of two 2048 is exact; `ceil` and the cast are exact (values far below 2^32).
-/
import TeosVerif.Gen.Consts
namespace Teos

/-- IEEE-754 binary32 round-to-nearest-even of a natural number, as an exact natural number -/
def f32OfNat (n : Nat) : Nat :=
  if n < 2 ^ 24 then n else
    let e := Nat.log2 n - 23          -- low bits that do not fit the significand
    let q := n / 2 ^ e
    let r := n % 2 ^ e
    let half := 2 ^ (e - 1)
    let q' := if r > half then q + 1 else if r < half then q else (if q % 2 = 0 then q else q + 1)
    q' * 2 ^ e

/-- the slot formula of the source, with the divisor taken from `Gen` -/
def slotsF32 (n : Nat) : Nat :=
  (f32OfNat n + (Gen.ENCRYPTED_BLOB_MAX_SIZE - 1)) / Gen.ENCRYPTED_BLOB_MAX_SIZE

end Teos
