import TeosVerif.Model.Client
import TeosVerif.Driver.Util
/- `cl …` lines: drives `Model.Client` (the plugin's WTClient + DBM). -/
namespace Teos.Drv
open Teos.Client

/-- towers and locators the harness uses are numbered below this bound -/
def clUniverse : List Nat := List.range 8

def clFmtStatus : TStatus → String
  | .reachable => "r" | .tempUnreachable => "tu" | .unreachable => "u"
  | .subscriptionError => "se" | .misbehaving => "m"

def clParseStatus : String → Option TStatus
  | "r" => some .reachable | "tu" => some .tempUnreachable | "u" => some .unreachable
  | "se" => some .subscriptionError | "m" => some .misbehaving | _ => none

def clFmtLocs (ls : List Nat) : String := joinWith "," ((sortDedup ls).map toString)

def clFmtReply : Reply → String
  | .ok => "ok" | .errExpiry => "err-expiry" | .errSlots => "err-slots" | .notFound => "notfound"
  | .unknownTower => "unknown-tower" | .panicked => "abort" | .dead => "dead"

def clDumpMem (c : Client) : String :=
  joinWith ";" (clUniverse.filterMap fun t => (c.towers t).map fun s =>
    s!"{t}:{s.addr}:{s.slots}:{s.start}:{s.expiry}:{clFmtStatus s.status}:p={clFmtLocs s.pending}:i={clFmtLocs s.invalid}")

def clFmtRows (rows : List (Nat × Nat)) : String :=
  joinWith "," (clUniverse.flatMap fun t => clUniverse.filterMap fun l =>
    if rows.contains (t, l) then some s!"{t}/{l}" else none)

def clDumpStore (s : Store) : String :=
  let towers := joinWith "," (clUniverse.filterMap fun t => (s.towers t).map fun r => s!"{t}:{r.addr}:{r.slots}")
  let regs := joinWith "," (clUniverse.flatMap fun t => (s.regs t).map fun r =>
    s!"{t}:{r.slots}:{r.start}:{r.expiry}:{r.sig}")
  let rcpts := joinWith "," (clUniverse.flatMap fun t => clUniverse.filterMap fun l =>
    (s.rcpts t l).map fun r => s!"{t}/{l}:{r.start}:{r.usig}:{r.tsig}")
  let bodies := joinWith "," (clUniverse.filterMap fun l => (s.bodies l).map fun b => s!"{l}:{b.blob}:{b.tsd}")
  let proofs := joinWith "," (clUniverse.filterMap fun t => (s.proofs t).map fun p => s!"{t}:{p.loc}:{p.recovered}")
  s!"towers=[{towers}] regs=[{regs}] rcpts=[{rcpts}] pend=[{clFmtRows s.pending}] inval=[{clFmtRows s.invalid}] bodies=[{bodies}] proofs=[{proofs}]"

def clDump (c : Client) : String := s!"mem=[{clDumpMem c}] {clDumpStore c.store}"

def clNat4 (a b c d : String) : Option (Nat × Nat × Nat × Nat) := do
  some (← a.toNat?, ← b.toNat?, ← c.toNat?, ← d.toNat?)

def clParse (ws : List String) : Option Op :=
  match ws with
  | ["reg", t, addr, slots, start, expiry, sig] => do
    some (.register (← t.toNat?) (← addr.toNat?)
      { slots := ← slots.toNat?, start := ← start.toNat?, expiry := ← expiry.toNat?, sig := ← sig.toNat? })
  | ["rcpt", t, l, slots, start, usig, tsig] => do
    some (.receipt (← t.toNat?) (← l.toNat?) (← slots.toNat?)
      { start := ← start.toNat?, usig := ← usig.toNat?, tsig := ← tsig.toNat? })
  | ["pend", t, l, blob, tsd] => do
    some (.pending (← t.toNat?) (← l.toNat?) { blob := ← blob.toNat?, tsd := ← tsd.toNat? })
  | ["unpend", t, l] => do some (.unpend (← t.toNat?) (← l.toNat?))
  | ["inval", t, l, blob, tsd] => do
    some (.invalid (← t.toNat?) (← l.toNat?) { blob := ← blob.toNat?, tsd := ← tsd.toNat? })
  | ["misb", t, l, start, usig, tsig, rec] => do
    some (.misbehaving (← t.toNat?) { loc := ← l.toNat?, recovered := ← rec.toNat? }
      { start := ← start.toNat?, usig := ← usig.toNat?, tsig := ← tsig.toNat? })
  | ["abandon", t] => do some (.abandon (← t.toNat?))
  | ["status", t, s] => do some (.status (← t.toNat?) (← clParseStatus s))
  | ["reload"] => some .reload
  | _ => none

def clStep (c : Client) (ws : List String) : Client × String :=
  match ws with
  | ["new"] => (Client.fresh, "ok")
  | ["dump"] => (c, if c.dead then "dead" else clDump c)
  | ["dbdump"] => (c, clDumpStore c.store)
  | _ =>
    match clParse ws with
    | some op => let (c', r) := c.step op; (c', clFmtReply r)
    | none => (c, "bad-op")

end Teos.Drv
