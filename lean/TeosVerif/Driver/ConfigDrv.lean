import TeosVerif.Model.Config
import TeosVerif.Driver.Util
namespace Teos.Drv
open Teos.Config

def cfVal (w : String) : Option String :=
  if w = "-" then none else if w = "@empty" then some "" else some w

def cfShow (s : String) : String := if s = "" then "@empty" else s

def cfStep (ws : List String) : String :=
  match ws with
  | ["eff", field, file, cli] =>
    match effectiveField field (cfVal file) (cfVal cli) with
    | some v => cfShow v
    | none => "?"
  | ["auth", u, p, c] => if authOk (u = "1") (p = "1") (c = "1") then "ok" else "refused"
  | ["net", n, port] =>
    match port.toNat? with
    | some p => match verifyNet (if n = "@empty" then "" else n) p with
      | some (n', p') => s!"ok {n'} {p'}"
      | none => "refused"
    | none => "bad-op"
  | _ => "bad-op"

end Teos.Drv
