import TeosVerif.Model.Http
import TeosVerif.Driver.Util
/- `ht …` lines: the HTTP layer around the tower model. -/
namespace Teos.Drv
open Teos.Http

def htEndpoint : String → Option (Option Endpoint)
  | "register" => some (some .register) | "add_appointment" => some (some .addAppointment)
  | "get_appointment" => some (some .getAppointment)
  | "get_subscription_info" => some (some .getSubscriptionInfo) | "ping" => some (some .ping)
  | "none" => some none | _ => none

def htMethod : String → Method
  | "GET" => .get | "POST" => .post | _ => .other

def htFault : String → Option Fault
  | "none" => some .none | "notjson" => some .notJson | "emptybody" => some .emptyBody
  | "dupkey" => some .duplicateKey | "range" => some .numberOutOfRange | "notobject" => some .notAnObject
  | "missing" => some .missingField | "type" => some .wrongType | "hexodd" => some .hexOddLength
  | "hexbad" => some .hexBadChar | "empty" => some .emptyField | "size" => some .wrongSize
  | "notkey" => some .notAKey | _ => none

/-- the gRPC code behind a reply token of the tower driver (`none`: success) -/
def grpcOfToken (out : String) : Grpc :=
  let w := (words out).headD ""
  if w = "auth" ∨ w = "noslots" ∨ w = "expired" then some "Unauthenticated"
  else if w = "triggered" then some "AlreadyExists"
  else if w = "notfound" then some "NotFound"
  else if w = "maxslots" then some "ResourceExhausted"
  else if w = "unavailable" then some "Unavailable"
  else if w = "abort" ∨ w = "dead" then some "Unknown"
  else none

/-- `ht last`: (status, code) the HTTP API gives for the tower's last answer -/
def htLast (lastOut : String) : String :=
  let r := match grpcOfToken lastOut with
    | none => (200, 0)
    | some g => grpcReply g
  s!"status={r.1} code={r.2}"

/-- `ht req <method> <endpoint> <content-length|-> <fault>` -/
def htReq (unavailable : Bool) (ws : List String) : String :=
  match ws with
  | [m, e, cl, f] =>
    match htEndpoint e, htFault f with
    | some ep, some fault =>
      let req : Request := { method := htMethod m, endpoint := ep,
                             contentLength := if cl = "-" then none else cl.toNat?, fault := fault }
      let internal : Grpc :=
        if unavailable then some "Unavailable"
        else if fault = .notAKey then some "InvalidArgument" else none
      let r := respond req internal
      s!"{r.1} {r.2}"
    | _, _ => "bad-op"
  | _ => "bad-op"

end Teos.Drv
