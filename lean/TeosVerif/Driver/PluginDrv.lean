import TeosVerif.Model.Plugin
import TeosVerif.Driver.ClientDrv
/- `pl …` lines: drives `Model.Plugin` (stable points of the real plugin binary). -/
namespace Teos.Drv
open Teos.Client Teos.Plugin

def plView (s : St) : String :=
  let c := s.client
  let towers := joinWith ";" (clUniverse.filterMap fun t => (c.towers t).map fun sm =>
    s!"{t}:{clFmtStatus sm.status}:p={clFmtLocs sm.pending}:i={clFmtLocs sm.invalid}")
  let st := c.store
  let isProofRow (t l : Nat) : Bool := match st.proofs t with
    | some p => p.loc = l
    | none => false
  let rcpts := joinWith "," (clUniverse.flatMap fun t => clUniverse.filterMap fun l =>
    if (st.rcpts t l).isSome && !isProofRow t l then some s!"{t}/{l}" else none)
  let bodies := joinWith "," (clUniverse.filterMap fun l => (st.bodies l).map fun _ => s!"{l}")
  let proofs := joinWith "," (clUniverse.filterMap fun t => (st.proofs t).map fun _ => s!"{t}")
  s!"towers=[{towers}] rcpts=[{rcpts}] pend=[{clFmtRows st.pending}] inval=[{clFmtRows st.invalid}] bodies=[{bodies}] proofs=[{proofs}]"

def plAddMode : String → Option AddMode
  | "accept" => some .accept | "suberr" => some .subErr | "reject" => some .reject
  | "nonjson" | "wrongshape" | "empty" | "malformedsig" => some .garbage
  | "badsig" => some .wrongSigner | "suberr-until-reg" => some .subErrUntilReg
  | m => if m.startsWith "reject:" then some .reject else none

def plRegMode : String → Option RegMode
  | "accept" => some .accept | "same" => some .same | "sameexpiry" => some .sameExpiry
  | "badsig" => some .wrongSigner | "nonjson" | "apierror" => some .garbage | _ => none

def plReply : Plugin.Reply → String
  | .ok => "ok" | .errConnection => "err-connection" | .errBody => "err-body"
  | .errBadSig => "err-badsig" | .errExpiry => "err-expiry" | .errSlots => "err-slots"
  | .errStatus => "err-status" | .errUnknown => "err-unknown" | .errBeingRetried => "err-being-retried"

def plStep (s : St) (ws : List String) : St × String :=
  let withView (s' : St) (r : String) : St × String :=
    (s', if s'.client.dead then s!"{r} dead" else s!"{r} {plView s'}")
  match ws with
  | "new" :: n :: _ => ({ n := n.toNat?.getD 0 }, "ok")
  | ["register", t] => match t.toNat? with
    | some t => let (s', r) := s.register t; withView s' (plReply r)
    | none => (s, "bad-op")
  | ["notify", l] => match l.toNat? with
    | some l => withView (s.notify l) "ok"
    | none => (s, "bad-op")
  | ["add", t, m] => match t.toNat?, plAddMode m with
    | some t, some m =>
      withView { s with beh := fun x => if x = t then { s.beh t with add := m, renewed := false } else s.beh x } "ok"
    | _, _ => (s, "bad-op")
  | ["once", t, m] => match t.toNat?, plAddMode m with
    | some t, some m =>
      withView { s with beh := fun x => if x = t then { s.beh t with once := 1, onceAdd := m } else s.beh x } "ok"
    | _, _ => (s, "bad-op")
  | ["holdafter", t, l] => match t.toNat?, l.toNat? with
    | some t, some l => withView (s.holdAfter t l) "held"
    | _, _ => (s, "bad-op")
  | ["release", t, m] => match t.toNat?, plAddMode m with
    | some t, some m => withView (s.release t m) "released"
    | _, _ => (s, "bad-op")
  | ["reg", t, m] => match t.toNat?, plRegMode m with
    | some t, some m =>
      withView { s with beh := fun x => if x = t then { s.beh t with reg := m } else s.beh x } "ok"
    | _, _ => (s, "bad-op")
  | ["down", t, d] => match t.toNat? with
    | some t =>
      withView { s with beh := fun x => if x = t then { s.beh t with down := d = "1" } else s.beh x } "ok"
    | none => (s, "bad-op")
  | ["retry", t] => match t.toNat? with
    | some t => let (s', r) := s.manualRetry t; withView s' (plReply r)
    | none => (s, "bad-op")
  | ["abandon", t] => match t.toNat? with
    | some t => let (s', r) := s.abandon t; withView s' (plReply r)
    | none => (s, "bad-op")
  | ["restart"] => withView s.restart "ok"
  | ["nop"] => (s, "ok")
  | _ => (s, "bad-op")

end Teos.Drv
