import TeosVerif.Model.Locks
import TeosVerif.Model.LockTraces
import TeosVerif.Driver.Util
namespace Teos.Drv
open Teos.Locks Teos.Conc

def lockId (n : String) : Option Nat := lockRank n

def parseEv (t : String) : Option Ev :=
  match t.splitOn ":" with
  | ["a", n] => (lockId n).map Ev.acq
  | ["r", n] => (lockId n).map Ev.rel
  | _ => none

def ccStep (ws : List String) : String :=
  match ws with
  | "scenario" :: _ => "ok"
  | "edges" :: es =>
    let bad := es.filter fun e => match e.splitOn ">" with
      | [a, b] => !edgeAllowed a b
      | _ => true
    if bad.isEmpty then "ok" else "bad-edges " ++ joinWith " " bad
  | "trace" :: name :: evs =>
    match evs.mapM parseEv, opTraces.lookup name with
    | some es, some want => if es = want then "ok" else "trace-differs-from-model"
    | some _, none => "trace-not-in-model"
    | none, _ => "bad-op"
  | _ => "bad-op"

end Teos.Drv
