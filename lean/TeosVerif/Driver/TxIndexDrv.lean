import TeosVerif.Model.TxIndex
import TeosVerif.Driver.Util
/- `ti …` lines: drives `Model.TxIndex` (instantiated at `Nat` keys and block numbers as values). -/
namespace Teos.Drv
open Teos

structure TiState where
  idx : TxIndex Nat Nat := TxIndex.empty 0 0
  keys : List Nat := []
  blocks : List Nat := []

def parseBlockDesc (s : String) : Option (Nat × List (Nat × Nat)) :=
  match s.splitOn ":" with
  | [b, ks] => do
      let bn ← num1 b
      let kl ← (splitComma ks).mapM num1
      some (bn, kl.map fun k => (k, bn))
  | _ => none

def tiStep (st : TiState) (ws : List String) : TiState × String :=
  match ws with
  | "new" :: n :: h :: descs =>
    match n.toNat?, h.toNat?, descs.mapM parseBlockDesc with
    | some _, some h, some bl =>
      let idx : TxIndex Nat Nat := TxIndex.new bl h
      ({ idx := idx, keys := sortDedup (bl.flatMap fun b => b.2.map (·.1)), blocks := sortDedup (bl.map (·.1)) }, "ok")
    | _, _, _ => (st, "bad-op")
  | ["upd", b, ks] =>
    match num1 b, (splitComma ks).mapM num1 with
    | some bn, some kl =>
      ({ idx := st.idx.update bn (kl.map fun k => (k, bn)),
         keys := sortDedup (st.keys ++ kl), blocks := sortDedup (st.blocks ++ [bn]) }, "ok")
    | _, _ => (st, "bad-op")
  | ["disc", b] =>
    match num1 b with
    | some bn => ({ st with idx := st.idx.removeDisconnected bn }, "ok")
    | none => (st, "bad-op")
  | ["q"] =>
    let gs := st.keys.filterMap fun k => (st.idx.get k).map fun b => s!"k{k}=b{b}"
    let hs := st.blocks.filterMap fun b => (st.idx.getHeight b).map fun h => s!"b{b}={h}"
    (st, s!"g {joinWith " " gs} ; h {joinWith " " hs}")
  | _ => (st, "bad-op")

end Teos.Drv
