import TeosVerif.Model.Outage
import TeosVerif.Driver.Util
namespace Teos.Drv
open Teos.Outage

def fmtApi : ApiSt → String
  | .idle => "idle" | .run => "run" | .wait => "wait" | .done => "done"
def fmtChain : ChainSt → String
  | .idle => "idle" | .wait => "wait" | .blocked => "blocked"

def ouShow (s : St) : String :=
  s!"flag={if s.flag then 1 else 0} api={fmtApi s.api} chain={fmtChain s.chain} sends={s.sends} trackers={s.trackers}"

def ouStep (s : St) (ws : List String) : St × String :=
  let act : Option Act := match ws with
    | ["nodedown"] => some .nodeDown
    | ["nodeup"] => some .nodeUp
    | ["rpcdown", i] => i.toNat?.map Act.rpcDownAfter
    | ["mine", d] => some (.mine (d = "1"))
    | ["failblock", i] => i.toNat?.map Act.failBlock
    | ["apistart"] => some .apiStart
    | ["apirun"] => some .apiRun
    | ["poll"] => some .poll
    | ["probe"] => some .probe
    | ["nodebehind"] => some .nodeBehind
    | _ => none
  match ws, act with
  | ["end"], _ => (s, s!"api={fmtApi s.api} chain={fmtChain s.chain}")
  | _, some a =>
    let s' := step s a
    (s', ouShow s' ++ (if a = .probe then s!" probe={apiStatus s'}" else ""))
  | _, none => (s, "bad-op")

end Teos.Drv
