import TeosVerif.Model.Slots
import TeosVerif.Driver.Util
namespace Teos.Drv
open Teos

/-- change points of `slotsF32` on `[lo, hi]` -/
def slChanges (lo hi : Nat) : String := Id.run do
  let mut prev := slotsF32 lo
  let mut acc : Array String := #[]
  let mut n := lo + 1
  while n ≤ hi do
    let v := slotsF32 n
    if v ≠ prev then
      acc := acc.push s!"{n}:{v}"
      prev := v
    n := n + 1
  return s!"v0={slotsF32 lo} " ++ joinWith "," acc.toList

def slStep (ws : List String) : String :=
  match ws with
  | ["at", n] => match n.toNat? with
    | some n => toString (slotsF32 n)
    | none => "bad-op"
  | ["changes", lo, hi] => match lo.toNat?, hi.toNat? with
    | some lo, some hi => slChanges lo hi
    | _, _ => "bad-op"
  | _ => "bad-op"

end Teos.Drv
