import TeosVerif.Model.Wire
import TeosVerif.Driver.Util
/- `wi …` lines: what the wire model prints / parses, to be compared with the real serialisers. -/
namespace Teos.Drv
open Teos.Wire

def wiBytes (s : String) : Option (List Nat) :=
  if s = "-" then some [] else (s.splitOn ",").mapM (·.toNat?)

def wiShowBytes (bs : List Nat) : String :=
  if bs.isEmpty then "-" else joinWith "," (bs.map toString)

def wiHex (bs : List Nat) : String := String.ofList (hexEncode bs)

/-- JSON text of a message as serde_json prints it (compact, fields in declaration order), from
the generated message table and adapters. Values are given per leaf field, in order:
bytes fields as comma-separated bytes, numbers in decimal, strings verbatim, repeated bytes as
`;`-separated byte lists. -/
partial def wiJsonMsg (name : String) (vals : List String) : Option (String × List String) :=
  match Gen.Wire.messages.lookup name with
  | none => none
  | some fields =>
    let rec go (fs : List (String × String)) (vals : List String) (acc : List String) :
        Option (List String × List String) :=
      match fs with
      | [] => some (acc.reverse, vals)
      | (f, ty) :: rest =>
        let adapter := Gen.Wire.adapters.lookup f
        if ty = "bytes" then
          match vals with
          | v :: vs =>
            match wiBytes v with
            | some bs =>
              let txt := if adapter = some "hexBE" then String.ofList (beEncode bs) else wiHex bs
              go rest vs (s!"\"{f}\":\"{txt}\"" :: acc)
            | none => none
          | [] => none
        else if ty = "repeated bytes" then
          match vals with
          | v :: vs =>
            let items := if v = "-" then [] else v.splitOn ";"
            match items.mapM wiBytes with
            | some bss => go rest vs (s!"\"{f}\":[{joinWith "," (bss.map fun b => s!"\"{wiHex b}\"")}]" :: acc)
            | none => none
          | [] => none
        else if ty = "uint32" then
          match vals with
          | v :: vs => go rest vs (s!"\"{f}\":{v}" :: acc)
          | [] => none
        else if ty = "string" then
          match vals with
          | v :: vs => go rest vs (s!"\"{f}\":\"{v}\"" :: acc)
          | [] => none
        else if ty = "AppointmentStatus" then
          match vals with
          | v :: vs =>
            match v.toNat?.bind statusShow with
            | some nm => go rest vs (s!"\"{f}\":\"{nm}\"" :: acc)
            | none => none
          | [] => none
        else if ty = "AppointmentData" then
          -- flattened, untagged oneof renamed to "appointment": the next value names the variant
          match vals with
          | variant :: vs =>
            match wiJsonMsg variant vs with
            | some (inner, vs') => go rest vs' (s!"\"appointment\":{inner}" :: acc)
            | none => none
          | [] => none
        else
          -- a nested message
          match wiJsonMsg ty vals with
          | some (inner, vs') => go rest vs' (s!"\"{f}\":{inner}" :: acc)
          | none => none
    match go fields vals [] with
    | some (parts, rest) => some ("{" ++ joinWith "," parts ++ "}", rest)
    | none => none

def wiStep (ws : List String) : String :=
  match ws with
  | ["hex", b] => match wiBytes b with
    | some bs => wiHex bs
    | none => "bad-op"
  | ["unhex", s] => match hexDecode s.toList with
    | some bs => wiShowBytes bs
    | none => "error"
  | ["be", b] => match wiBytes b with
    | some bs => String.ofList (beEncode bs)
    | none => "bad-op"
  | ["unbe", s] => match beDecode s.toList with
    | some bs => wiShowBytes bs
    | none => "error"
  | ["status", n] => match n.toNat?.bind statusShow with
    | some s => s
    | none => "error"
  | ["unstatus", s] => match statusParse s with
    | some n => toString n
    | none => "error"
  | "tovec" :: ty :: vals =>
    match Gen.Wire.layouts.lookup ty with
    | none => "bad-op"
    | some layout =>
      if layout.length ≠ vals.length then "bad-op" else
      let parts := (layout.zip vals).mapM fun (f, v) =>
        if f.2 = "be32" then v.toNat?.map be32 else wiBytes v
      match parts with
      | some ps => wiHex (serialize ps)
      | none => "bad-op"
  | "json" :: name :: vals =>
    match wiJsonMsg name vals with
    | some (txt, []) => txt
    | _ => "bad-op"
  | _ => "bad-op"

end Teos.Drv
