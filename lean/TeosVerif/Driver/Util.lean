/- Line-protocol helpers shared by the driver components. Core Lean only. -/
namespace Teos.Drv

def words (s : String) : List String :=
  (s.trimAscii.toString.splitOn " ").filter (· ≠ "")

/-- `k12` → 12 (drops a one-letter prefix) -/
def num1 (s : String) : Option Nat := (s.drop 1).toString.toNat?

def splitComma (s : String) : List String :=
  if s = "-" ∨ s = "" then [] else s.splitOn ","

def joinWith (sep : String) (xs : List String) : String := sep.intercalate xs

def insertSorted (x : Nat) : List Nat → List Nat
  | [] => [x]
  | y :: r => if x < y then x :: y :: r else if x = y then y :: r else y :: insertSorted x r

def sortDedup (xs : List Nat) : List Nat := xs.foldl (fun acc x => insertSorted x acc) []

end Teos.Drv
