import TeosVerif.Model.Tower
import TeosVerif.Model.Admin
import TeosVerif.Model.Crash
import TeosVerif.Driver.Util
/- `tw …` lines: drives `Model.Tower`. -/
namespace Teos.Drv
open Teos

structure TwState where
  cfg : Cfg := { slots := 0, duration := 0, grace := 0 }
  s : Tower := boot Db.empty 0 []
  /-- armed crash: the next mutating operation lets this many of its durable writes through -/
  crash : Option Nat := none

def parseSigner (w : String) : Option (Option Nat) :=
  if w = "-" then some none else (num1 w).map some

def parseBlob (w : String) : Option Blob :=
  match w.splitOn ":" with
  | ["enc", d, p, l] => do some (.enc (← d.toNat?) (← p.toNat?) (← l.toNat?))
  | ["junk", t, l] => do some (.junk (← t.toNat?) (← l.toNat?))
  | _ => none

def fmtBlob : Blob → String
  | .enc d p l => s!"enc:{d}:{p}:{l}"
  | .junk t l => s!"junk:{t}:{l}"

def parseInt (s : String) : Option Int :=
  if s.startsWith "-" then (s.drop 1).toString.toNat?.map fun n => -(n : Int) else s.toNat?.map fun n => (n : Int)

/-- oracle tokens `s:t16=ok|r-26|x`, `g:t16=mem|conf|r-5|x`; defaults: send ok, get "not found" -/
def parseNode (toks : List String) : Node :=
  toks.foldl (fun (n : Node) tok =>
    match tok.splitOn "=" with
    | [lhs, v] =>
      match lhs.splitOn ":" with
      | ["s", t] =>
        match num1 t with
        | some tx =>
          let r : SendReply := if v = "ok" then .ok else if v = "x" then .other else
            match parseInt (v.drop 1).toString with
            | some c => .rpc c
            | none => .other
          { n with send := fun x => if x = tx then r else n.send x }
        | none => n
      | ["g", t] =>
        match num1 t with
        | some tx =>
          let r : GetReply := if v = "mem" then .found false else if v = "conf" then .found true
            else if v = "x" then .other else
            match parseInt (v.drop 1).toString with
            | some c => .rpc c
            | none => .other
          { n with get := fun x => if x = tx then r else n.get x }
        | none => n
      | _ => n
    | _ => n) { send := fun _ => .ok, get := fun _ => .rpc (-5) }

def insertSortedS (x : String) : List String → List String
  | [] => [x]
  | y :: r => if x < y then x :: y :: r else y :: insertSortedS x r

def sortS (xs : List String) : List String := xs.foldl (fun acc x => insertSortedS x acc) []

def fmtRpcs (l : List Rpc) : String :=
  "rpc=" ++ joinWith "," (sortS (l.map fun r => match r with
    | .send t => s!"send:t{t}"
    | .get t => s!"get:t{t}"))

def fmtReply (r : Reply) (log : List Rpc) : String :=
  match r with
  | .registered s st e => s!"ok {s} {st} {e}"
  | .maxSlots => "maxslots"
  | .accepted st _ av e => s!"ok {st} {av} {e} {fmtRpcs log}"
  | .authFail => "auth"
  | .expired e => s!"expired {e}"
  | .notEnoughSlots => "noslots"
  | .alreadyTriggered => "triggered"
  | .appt l b t => s!"appt l{l} {fmtBlob b} {t}"
  | .tracker d p => s!"tracker t{d} t{p}"
  | .notFound => "notfound"
  | .subscription s e ls => s!"ok {s} {e} [{joinWith "," ((sortDedup ls).map fun l => s!"l{l}")}]"
  | .done => s!"ok {fmtRpcs log}"

def fmtStatus : CStatus → String
  | .confirmedIn h => s!"C:{h}"
  | .inMempoolSince h => s!"M:{h}"
  | .irrevocablyResolved => "I"
  | .rejected c => s!"R:{c}"

def uuidLt (a b : Uuid) : Bool := a.1 < b.1 || (a.1 == b.1 && a.2 < b.2)

def insertSortedU (x : Uuid) : List Uuid → List Uuid
  | [] => [x]
  | y :: r => if uuidLt x y then x :: y :: r else if x = y then y :: r else y :: insertSortedU x r

def sortU (xs : List Uuid) : List Uuid := xs.foldl (fun acc x => insertSortedU x acc) []

def fmtUser (u : Nat) (i : UserInfo) : String := s!"u{u}:{i.slots}/{i.start}/{i.expiry}"

def fmtStatusKind : CStatus → String
  | .confirmedIn _ => "C"
  | .inMempoolSince _ => "M"
  | .irrevocablyResolved => "I"
  | .rejected c => s!"R:{c}"

/-- `heights = false`: trackers are printed without the height of their status (used where the order of
several status writes inside one block depends on a hash map's iteration order) -/
def dumpWith (heights : Bool) (s : Tower) : String :=
  let us := sortDedup s.db.userKeys
  let memU := us.filterMap fun u => (s.mem.users u).map fun i => s!"u{u}:{i.slots}/{i.expiry}"
  let dbU := us.filterMap fun u => (s.db.users u).map (fmtUser u)
  let ks := sortU s.db.apptKeys
  let ap := ks.filterMap fun k => (s.db.appts k).map fun a =>
    s!"l{k.1}/u{k.2}:{fmtBlob a.blob}:{a.tsd}:{a.usig}:{a.start}"
  let tr := ks.filterMap fun k => (s.db.trackers k).map fun t =>
    s!"l{k.1}/u{k.2}:t{t.dispute}:t{t.penalty}:{if heights then fmtStatus t.status else fmtStatusKind t.status}"
  s!"users=[{joinWith " " memU}] dbusers=[{joinWith " " dbU}] appts=[{joinWith " " ap}] trackers=[{joinWith " " tr}]"

def dump (s : Tower) : String := dumpWith true s

def fmtAdminItem : AdminItem → String
  | .appt l b t => s!"a:l{l}:{fmtBlob b}:{t}"
  | .tracker d p => s!"t:t{d}:t{p}"

/-- the private API's view, canonicalised as the harness does -/
def admin (s : Tower) : String :=
  let i := adminTowerInfo s
  let us := sortDedup (adminUsers s)
  let seen := sortDedup s.db.userKeys
  let perUser := seen.map fun u => match adminUser s u with
    | some (sl, ex, locs) => s!"u{u}:{sl}/{ex}:{joinWith "," (sortS (locs.map fun l => s!"l{l}"))}"
    | none => s!"u{u}:NotFound"
  let all := sortS ((adminAppointments s none).map fmtAdminItem)
  let locs := sortDedup (s.db.apptKeys.map (·.1))
  let byLoc := locs.filterMap fun l =>
    let f := sortS ((adminAppointments s (some l)).map fmtAdminItem)
    if f.isEmpty then none else some s!"l{l}={joinWith "+" f}"
  s!"info={i.nUsers}/{i.nAppointments}/{i.nTrackers}/{if i.reachable then 1 else 0} users=[{joinWith " " (us.map fun u => s!"u{u}")}] user=[{joinWith " " perUser}] all=[{joinWith " " all}] byloc=[{joinWith " " byLoc}]"

def parseTxs (w : String) : Option (List Nat) := (splitComma w).mapM num1

def parseBootBlock (w : String) : Option (Nat × List Nat) :=
  match w.splitOn ":" with
  | [b] => (num1 b).map fun n => (n, [])
  | [b, ts] => do some (← num1 b, ← parseTxs ts)
  | _ => none

def finishOp (st : TwState) (was : Option String) (s' : Tower) (out : String) : TwState × String :=
  match st.crash with
  | some k =>
    -- the process died during this operation: memory is gone, the file keeps a prefix of its writes
    ({ st with s := { s' with db := crashDb st.s.db s'.db k }, crash := none }, "crashed")
  | none =>
  match was, s'.aborted with
  | some _, _ => ({ st with s := s' }, "dead")
  | none, some _ => ({ st with s := s' }, "abort")
  | none, none => ({ st with s := s' }, out)

def twStep (st : TwState) (ws : List String) : TwState × String :=
  let was := st.s.aborted
  match ws with
  | ["cfg", a, b, c] =>
    match a.toNat?, b.toNat?, c.toNat? with
    | some a, some b, some c => ({ st with cfg := { slots := a, duration := b, grace := c } }, "ok")
    | _, _, _ => (st, "bad-op")
  | "boot" :: h :: blocks =>
    match h.toNat?, blocks.mapM parseBootBlock with
    | some h, some bl => ({ st with s := boot Db.empty h bl }, "ok")
    | _, _ => (st, "bad-op")
  | "reboot" :: h :: blocks =>
    match h.toNat?, blocks.mapM parseBootBlock with
    | some h, some bl => ({ st with s := boot st.s.db h bl, crash := none }, "ok")
    | _, _ => (st, "bad-op")
  | ["reg", u] =>
    match num1 u with
    | some u => let (s', r, l) := step st.cfg st.s (parseNode []) (.register u); finishOp st was s' (fmtReply r l)
    | none => (st, "bad-op")
  | "add" :: sg :: l :: b :: tsd :: usig :: oracle =>
    match parseSigner sg, num1 l, parseBlob b, tsd.toNat?, usig.toNat? with
    | some sg, some l, some b, some tsd, some usig =>
      let (s', r, lg) := step st.cfg st.s (parseNode oracle) (.add sg l b tsd usig); finishOp st was s' (fmtReply r lg)
    | _, _, _, _, _ => (st, "bad-op")
  | "get" :: sg :: l :: _ =>
    match parseSigner sg, num1 l with
    | some sg, some l => let (s', r, lg) := step st.cfg st.s (parseNode []) (.get sg l); finishOp st was s' (fmtReply r lg)
    | _, _ => (st, "bad-op")
  | "sub" :: sg :: _ =>
    match parseSigner sg with
    | some sg => let (s', r, lg) := step st.cfg st.s (parseNode []) (.sub sg); finishOp st was s' (fmtReply r lg)
    | none => (st, "bad-op")
  | "conn" :: b :: h :: txs :: oracle =>
    match num1 b, h.toNat?, parseTxs txs with
    | some b, some h, some txs =>
      let (s', r, lg) := step st.cfg st.s (parseNode oracle) (.connect b h txs); finishOp st was s' (fmtReply r lg)
    | _, _, _ => (st, "bad-op")
  | ["disc", b, h] =>
    match num1 b, h.toNat? with
    | some b, some h => let (s', r, lg) := step st.cfg st.s (parseNode []) (.disconnect b h); finishOp st was s' (fmtReply r lg)
    | _, _ => (st, "bad-op")
  | ["crash", k] =>
    match k.toNat? with
    | some k => ({ st with crash := some k }, "ok")
    | none => (st, "bad-op")
  | "poll" :: tip :: rest =>
    let blocks := rest.takeWhile fun w => w.startsWith "b"
    let oracle := rest.dropWhile fun w => w.startsWith "b"
    let parseB := fun (w : String) => match w.splitOn ":" with
      | [b, h, ts] => do some (← num1 b, ← h.toNat?, ← parseTxs ts)
      | _ => none
    match num1 tip, blocks.mapM parseB with
    | some tip, some bl =>
      if was.isSome then (st, "dead") else
      let (s', lg) := pollBlocks st.cfg st.s (parseNode oracle) bl tip
      finishOp st was s' ("ok " ++ fmtRpcs lg)
    | _, _ => (st, "bad-op")
  | ["dump"] => (st, if was.isSome then "dead" else dump st.s)
  | ["admin"] => (st, if was.isSome then "dead" else admin st.s)
  | ["dbdump"] => (st, dump { st.s with mem := { st.s.mem with users := st.s.db.users } })
  | ["dbdump", "noheights"] => (st, dumpWith false { st.s with mem := { st.s.mem with users := st.s.db.users } })
  | _ => (st, "bad-op")

end Teos.Drv
