/-
Helper lemmas for C19: the `TxIndex` model refines a window (list of blocks) specification.
-/
import TeosVerif.Model.TxIndex

set_option linter.unusedSectionVars false

namespace Teos
namespace TxIndex
variable {K V : Type} [DecidableEq K]

/-- a window: the blocks held, oldest first, each with its `(key, value)` data -/
abbrev Win (K V : Type) := List (Nat × List (K × V))

def winLookup (k : K) : Win K V → Option V
  | [] => none
  | (_, d) :: r => match lookup k d with
                   | some v => some v
                   | none => winLookup k r

def winKeys (b : Nat) : Win K V → Option (List K)
  | [] => none
  | (b', d) :: r => if b' = b then some (d.map (·.1)) else winKeys b r

def allKeys (W : Win K V) : List K := W.flatMap fun b => b.2.map (·.1)

theorem lookup_none_of_not_mem {k : K} : ∀ {d : List (K × V)}, k ∉ d.map (·.1) → lookup k d = none
  | [], _ => rfl
  | (k', v) :: r, h => by
    simp only [List.map_cons, List.mem_cons, not_or] at h
    simp only [lookup]
    rw [if_neg (fun e => h.1 e.symm)]
    exact lookup_none_of_not_mem h.2

theorem mem_of_lookup_some {k : K} {v : V} : ∀ {d : List (K × V)}, lookup k d = some v → k ∈ d.map (·.1)
  | [], h => by simp [lookup] at h
  | (k', v') :: r, h => by
    simp only [lookup] at h
    by_cases e : k' = k
    · simp [e]
    · rw [if_neg e] at h
      simp only [List.map_cons, List.mem_cons]
      exact Or.inr (mem_of_lookup_some h)

theorem winLookup_none_of_not_mem {k : K} : ∀ {W : Win K V}, k ∉ allKeys W → winLookup k W = none
  | [], _ => rfl
  | (b, d) :: r, h => by
    simp only [allKeys, List.flatMap_cons, List.mem_append, not_or] at h
    simp only [winLookup]
    rw [lookup_none_of_not_mem h.1]
    exact winLookup_none_of_not_mem (by simpa [allKeys] using h.2)

theorem winLookup_append (k : K) (W : Win K V) (x : Nat × List (K × V)) :
    winLookup k (W ++ [x]) = match winLookup k W with
                              | some v => some v
                              | none => lookup k x.2 := by
  induction W with
  | nil => simp only [List.nil_append, winLookup]; cases lookup k x.2 <;> rfl
  | cons a r ih =>
    obtain ⟨b, d⟩ := a
    simp only [List.cons_append, winLookup]
    cases lookup k d with
    | some v => rfl
    | none => exact ih

theorem winKeys_append (b : Nat) (W : Win K V) (x : Nat × List (K × V)) :
    winKeys b (W ++ [x]) = match winKeys b W with
                            | some ks => some ks
                            | none => if x.1 = b then some (x.2.map (·.1)) else none := by
  induction W with
  | nil => simp only [List.nil_append, winKeys]
  | cons a r ih =>
    obtain ⟨b', d⟩ := a
    simp only [List.cons_append, winKeys]
    by_cases e : b' = b
    · simp [e]
    · simp only [if_neg e]; exact ih

theorem winKeys_none_of_not_mem {b : Nat} : ∀ {W : Win K V}, b ∉ W.map (·.1) → winKeys b W = none
  | [], _ => rfl
  | (b', d) :: r, h => by
    simp only [List.map_cons, List.mem_cons, not_or] at h
    simp only [winKeys]
    rw [if_neg (fun e => h.1 e.symm)]
    exact winKeys_none_of_not_mem h.2

theorem allKeys_append (W : Win K V) (x : Nat × List (K × V)) :
    allKeys (W ++ [x]) = allKeys W ++ x.2.map (·.1) := by
  simp [allKeys]

theorem allKeys_cons (a : Nat × List (K × V)) (W : Win K V) :
    allKeys (a :: W) = a.2.map (·.1) ++ allKeys W := by
  simp [allKeys]

/-- The refinement relation between the model's four structures and a window `W` whose newest
block has height `h`. -/
structure Rep (t : TxIndex K V) (W : Win K V) (h : Nat) : Prop where
  blocks : t.blocks = W.map (·.1)
  txIn   : ∀ b, t.txIn b = winKeys b W
  index  : ∀ k, t.index k = winLookup k W
  tip    : t.tip = h
  len    : W.length ≤ t.size
  nodupB : (W.map (·.1)).Nodup
  nodupK : (allKeys W).Nodup

/-- the window after connecting a block -/
def winConnect (size : Nat) (W : Win K V) (x : Nat × List (K × V)) : Win K V :=
  if W.length + 1 > size then (W ++ [x]).tail else W ++ [x]

theorem rep_empty (size h : Nat) : Rep (empty size h : TxIndex K V) [] h :=
  { blocks := rfl, txIn := fun _ => rfl, index := fun _ => rfl, tip := rfl,
    len := Nat.zero_le _, nodupB := List.nodup_nil, nodupK := by simp [allKeys] }

theorem update_size (t : TxIndex K V) (b : Nat) (data : List (K × V)) :
    (t.update b data).size = t.size := by
  unfold update
  simp only
  split
  · unfold removeOldest
    simp only
    split <;> rfl
  · rfl

/-- pushing a block (the first half of `update`) refines appending to the window -/
theorem rep_push {t : TxIndex K V} {W : Win K V} {h : Nat} (r : Rep t W h)
    (b : Nat) (data : List (K × V)) (hb : b ∉ W.map (·.1))
    (hk : (allKeys W ++ data.map (·.1)).Nodup) :
    let t1 : TxIndex K V :=
      { t with blocks := t.blocks ++ [b]
               index := fun k => match lookup k data with
                                 | some v => some v
                                 | none => t.index k
               txIn := fun x => if x = b then some (data.map (·.1)) else t.txIn x
               tip := t.tip + 1 }
    t1.blocks = (W ++ [(b, data)]).map (·.1) ∧ (∀ x, t1.txIn x = winKeys x (W ++ [(b, data)])) ∧
    (∀ k, t1.index k = winLookup k (W ++ [(b, data)])) ∧ t1.tip = h + 1 ∧
    ((W ++ [(b, data)]).map (·.1)).Nodup ∧ (allKeys (W ++ [(b, data)])).Nodup := by
  intro t1
  refine ⟨?_, ?_, ?_, ?_, ?_, ?_⟩
  · simp [t1, r.blocks]
  · intro x
    simp only [t1, winKeys_append, r.txIn]
    by_cases e : x = b
    · subst e
      simp [winKeys_none_of_not_mem hb]
    · simp only [if_neg e]
      have e' : ¬ (b = x) := fun h => e h.symm
      cases winKeys x W <;> simp [e']
  · intro k
    simp only [t1, winLookup_append, r.index]
    cases hl : lookup k data with
    | none => cases winLookup k W <;> rfl
    | some v =>
      have hm := mem_of_lookup_some hl
      have : k ∉ allKeys W := by
        intro hin
        exact (List.nodup_append.1 hk).2.2 k hin k hm rfl
      simp [winLookup_none_of_not_mem this]
  · simp [t1, r.tip]
  · rw [List.map_append]
    simp only [List.map_cons, List.map_nil]
    refine List.nodup_append.2 ⟨r.nodupB, by simp, ?_⟩
    intro a ha c hc
    simp only [List.mem_singleton] at hc
    subst hc
    intro e; subst e; exact hb ha
  · rw [allKeys_append]; exact hk

theorem rep_update {t : TxIndex K V} {W : Win K V} {h : Nat} (r : Rep t W h)
    (b : Nat) (data : List (K × V)) (hb : b ∉ W.map (·.1))
    (hk : (allKeys W ++ data.map (·.1)).Nodup) (hsz : 0 < t.size) :
    Rep (t.update b data) (winConnect t.size W (b, data)) (h + 1) := by
  have hp := rep_push r b data hb hk
  simp only at hp
  obtain ⟨hB, hT, hI, hTip, hNB, hNK⟩ := hp
  unfold update winConnect
  simp only [isFull, Gen.txIndexIsFull]
  have hlen : (t.blocks ++ [b]).length = W.length + 1 := by simp [r.blocks]
  by_cases hf : W.length + 1 > t.size
  · -- full: the oldest block is evicted
    have hdec : decide ((t.blocks ++ [b]).length > t.size) = true := by
      rw [hlen]; exact decide_eq_true hf
    simp only [hdec, if_pos hf, ↓reduceIte]
    cases W with
    | nil =>
      -- size = 0 is excluded
      simp at hf; omega
    | cons a rest =>
      obtain ⟨b0, d0⟩ := a
      have hblocks : t.blocks ++ [b] = b0 :: (rest ++ [(b, data)]).map (·.1) := by
        simpa using hB
      unfold removeOldest
      simp only [hblocks, List.cons_append, List.tail_cons]
      have hNB' : b0 ∉ (rest ++ [(b, data)]).map (·.1) ∧ ((rest ++ [(b, data)]).map (·.1)).Nodup := by
        simpa using hNB
      have hNK' := hNK
      rw [List.cons_append, allKeys_cons] at hNK'
      have hdis := (List.nodup_append.1 hNK')
      have hT0 : (if b0 = b then some (data.map (·.1)) else t.txIn b0) = some (d0.map (·.1)) := by
        have := hT b0
        simp only [List.cons_append, winKeys, if_true] at this
        simpa using this
      refine { blocks := rfl, txIn := ?_, index := ?_, tip := hTip, len := ?_, nodupB := hNB'.2, nodupK := hdis.2.1 }
      · intro x
        by_cases e : x = b0
        · subst e
          simp only [if_true]
          exact (winKeys_none_of_not_mem hNB'.1).symm
        · simp only [if_neg e]
          have hne : ¬ (b0 = x) := fun h => e h.symm
          have := hT x
          simp only [List.cons_append, winKeys, if_neg hne] at this
          exact this
      · intro k
        simp only [hT0, Option.getD_some]
        have hk0 := hI k
        simp only [List.cons_append, winLookup] at hk0
        by_cases hm : k ∈ d0.map (·.1)
        · rw [if_pos hm]
          have : k ∉ allKeys (rest ++ [(b, data)]) := fun hin => hdis.2.2 k hm k hin rfl
          exact (winLookup_none_of_not_mem this).symm
        · rw [if_neg hm]
          rw [lookup_none_of_not_mem hm] at hk0
          exact hk0
      · simp only [List.length_cons, List.length_append, List.length_nil] at hf ⊢
        have := r.len
        simp only [List.length_cons] at this
        omega
  · have hdec : decide ((t.blocks ++ [b]).length > t.size) = false := by
      rw [hlen]; exact decide_eq_false hf
    simp only [hdec, if_neg hf, ↓reduceIte, Bool.false_eq_true]
    exact { blocks := hB, txIn := hT, index := hI, tip := hTip,
            len := by simp only [List.length_append, List.length_cons, List.length_nil]; omega,
            nodupB := hNB, nodupK := hNK }

theorem winKeys_last {W : Win K V} {b : Nat} {d : List (K × V)}
    (hn : ((W ++ [(b, d)]).map (·.1)).Nodup) : winKeys b (W ++ [(b, d)]) = some (d.map (·.1)) := by
  rw [winKeys_append]
  have : b ∉ W.map (·.1) := by
    rw [List.map_append] at hn
    have := (List.nodup_append.1 hn).2.2
    intro hin
    exact this b hin b (by simp) rfl
  simp [winKeys_none_of_not_mem this]

/-- disconnecting the newest block refines dropping the last window element -/
theorem rep_disconnect {t : TxIndex K V} {W : Win K V} {h : Nat} {b : Nat} {d : List (K × V)}
    (r : Rep t (W ++ [(b, d)]) h) : Rep (t.removeDisconnected b) W (h - 1) := by
  have hn := r.nodupB
  have hk := r.nodupK
  rw [allKeys_append] at hk
  have hlast := winKeys_last hn
  unfold removeDisconnected
  rw [r.txIn b, hlast]
  simp only
  have hbn : b ∉ W.map (·.1) := by
    rw [List.map_append] at hn
    intro hin
    exact (List.nodup_append.1 hn).2.2 b hin b (by simp) rfl
  refine { blocks := ?_, txIn := ?_, index := ?_, tip := ?_, len := ?_, nodupB := ?_, nodupK := ?_ }
  · rw [r.blocks]; simp
  · intro x
    by_cases e : x = b
    · subst e; simp [winKeys_none_of_not_mem hbn]
    · simp only [if_neg e]
      rw [r.txIn x, winKeys_append]
      have e' : ¬ (b = x) := fun h => e h.symm
      cases winKeys x W <;> simp [e']
  · intro k
    dsimp only
    rw [r.index k, winLookup_append]
    by_cases hm : k ∈ d.map (·.1)
    · rw [if_pos hm]
      have : k ∉ allKeys W := fun hin => (List.nodup_append.1 hk).2.2 k hin k hm rfl
      simp [winLookup_none_of_not_mem this]
    · rw [if_neg hm]
      simp only [lookup_none_of_not_mem hm]
      cases winLookup k W <;> rfl
  · have : t.blocks.isEmpty = false := by rw [r.blocks]; simp
    simp [this, r.tip]
  · have := r.len
    simp only [List.length_append, List.length_cons, List.length_nil] at this
    dsimp only
    omega
  · rw [List.map_append] at hn; exact (List.nodup_append.1 hn).1
  · exact (List.nodup_append.1 hk).1

/-- disconnecting a block the index does not hold changes nothing -/
theorem removeDisconnected_absent {t : TxIndex K V} {W : Win K V} {h : Nat} (r : Rep t W h)
    {b : Nat} (hb : b ∉ W.map (·.1)) : t.removeDisconnected b = t := by
  unfold removeDisconnected
  rw [r.txIn b, winKeys_none_of_not_mem hb]

theorem position_map_append {b : Nat} : ∀ (l : List Nat), b ∉ l → position b (l ++ [b]) = some l.length
  | [], _ => by simp [position]
  | x :: r, h => by
    simp only [List.mem_cons, not_or] at h
    simp only [List.cons_append, position]
    rw [if_neg (fun e => h.1 e.symm), position_map_append r h.2]
    simp

theorem position_none {b : Nat} : ∀ {l : List Nat}, b ∉ l → position b l = none
  | [], _ => rfl
  | x :: r, h => by
    simp only [List.mem_cons, not_or] at h
    simp only [position]
    rw [if_neg (fun e => h.1 e.symm), position_none h.2]
    rfl

theorem position_getElem : ∀ {l : List Nat} (i : Nat) (hi : i < l.length), l.Nodup →
    position l[i] l = some i
  | [], i, hi, _ => by simp at hi
  | x :: r, 0, _, _ => by simp [position]
  | x :: r, i + 1, hi, hn => by
    have hi' : i < r.length := by simpa using hi
    have hn' := List.nodup_cons.1 hn
    have hne : ¬ (x = r[i]) := fun e => hn'.1 (e ▸ List.getElem_mem hi')
    have ih := position_getElem i hi' hn'.2
    simp only [List.getElem_cons_succ, position, if_neg hne, ih, Option.map_some]

end TxIndex
end Teos

namespace Teos
namespace TxIndex
variable {K V : Type} [DecidableEq K]

/-- chain events as seen by the index -/
inductive Op (K V : Type) where
  | conn (b : Nat) (data : List (K × V))
  | disc (b : Nat)

def stepT (t : TxIndex K V) : Op K V → TxIndex K V
  | .conn b d => t.update b d
  | .disc b => t.removeDisconnected b

/-- ghost: the active chain, oldest first -/
def stepC (C : Win K V) : Op K V → Win K V
  | .conn b d => C ++ [(b, d)]
  | .disc _ => C.dropLast

/-- What a valid history may do next: connect a block whose hash and keys are not in the active
chain; or disconnect the active tip while the index still holds a block (reorgs no deeper than
what the index holds). -/
def Valid (t : TxIndex K V) (C : Win K V) : Op K V → Prop
  | .conn b d => b ∉ C.map (·.1) ∧ (allKeys C ++ d.map (·.1)).Nodup
  | .disc b => (∃ C' d, C = C' ++ [(b, d)]) ∧ t.blocks ≠ []

/-- The invariant: the index represents a suffix `W` of the active chain `C`, whose blocks have
heights `base + 1, base + 2, …`. -/
def Inv (t : TxIndex K V) (C : Win K V) (base : Nat) : Prop :=
  ∃ W, Rep t W (base + C.length) ∧ W <:+ C ∧ (C.map (·.1)).Nodup ∧ (allKeys C).Nodup ∧ 0 < t.size

theorem allKeys_append' (A B : Win K V) : allKeys (A ++ B) = allKeys A ++ allKeys B := by
  simp [allKeys]

theorem removeDisconnected_size (t : TxIndex K V) (b : Nat) : (t.removeDisconnected b).size = t.size := by
  unfold removeDisconnected; split <;> rfl

theorem suffix_snoc_of_ne_nil {α : Type} {W C : List α} {x : α} (h : W <:+ C ++ [x]) (hne : W ≠ []) :
    ∃ W', W = W' ++ [x] ∧ W' <:+ C := by
  obtain ⟨p, hp⟩ := h
  rcases List.eq_nil_or_concat W with h0 | ⟨W', y, hy⟩
  · exact absurd h0 hne
  · subst hy
    rw [List.concat_eq_append] at hp hne ⊢
    rw [← List.append_assoc] at hp
    have := List.append_inj' hp rfl
    simp only [List.cons.injEq, and_true] at this
    obtain ⟨h1, h2⟩ := this
    subst h2
    exact ⟨W', rfl, ⟨p, h1⟩⟩

theorem inv_step {t : TxIndex K V} {C : Win K V} {base : Nat} (inv : Inv t C base)
    (op : Op K V) (hv : Valid t C op) : Inv (stepT t op) (stepC C op) base := by
  obtain ⟨W, r, hs, hnb, hnk, hsz⟩ := inv
  cases op with
  | conn b d =>
    obtain ⟨hb, hk⟩ := hv
    obtain ⟨p, hp⟩ := hs
    have hbW : b ∉ W.map (·.1) := by
      intro hin; apply hb; rw [← hp, List.map_append]; exact List.mem_append_right _ hin
    have hkW : (allKeys W ++ d.map (·.1)).Nodup := by
      rw [← hp, allKeys_append', List.append_assoc] at hk
      exact (List.nodup_append.1 hk).2.1
    have r' := rep_update r b d hbW hkW hsz
    refine ⟨winConnect t.size W (b, d), ?_, ?_, ?_, ?_, ?_⟩
    · simpa [stepT, stepC, Nat.add_assoc] using r'
    · have h1 : W ++ [(b, d)] <:+ C ++ [(b, d)] := ⟨p, by rw [← List.append_assoc, hp]⟩
      unfold winConnect stepC
      split
      · exact (List.tail_suffix _).trans h1
      · exact h1
    · simp only [stepC, List.map_append, List.map_cons, List.map_nil]
      refine List.nodup_append.2 ⟨hnb, by simp, ?_⟩
      intro a ha c hc
      simp only [List.mem_singleton] at hc
      subst hc; intro e; subst e; exact hb ha
    · simp only [stepC]; rw [allKeys_append]; exact hk
    · simp only [stepT, update_size]; exact hsz
  | disc b =>
    obtain ⟨⟨C', d, hC⟩, hne⟩ := hv
    subst hC
    have hWne : W ≠ [] := by
      intro h0; apply hne; rw [r.blocks, h0]; rfl
    obtain ⟨W', hW, hs'⟩ := suffix_snoc_of_ne_nil hs hWne
    subst hW
    have r' := rep_disconnect r
    refine ⟨W', ?_, ?_, ?_, ?_, ?_⟩
    · simp only [stepT, stepC, List.dropLast_concat]
      simpa using r'
    · simpa [stepC] using hs'
    · simp only [stepC, List.dropLast_concat]
      rw [List.map_append] at hnb; exact (List.nodup_append.1 hnb).1
    · simp only [stepC, List.dropLast_concat]
      rw [allKeys_append] at hnk; exact (List.nodup_append.1 hnk).1
    · simp only [stepT, removeDisconnected_size]; exact hsz

theorem rep_foldl_update : ∀ (l : Win K V) {t : TxIndex K V} {W : Win K V} {h : Nat}, Rep t W h →
    0 < t.size → W.length + l.length ≤ t.size → ((W ++ l).map (·.1)).Nodup → (allKeys (W ++ l)).Nodup →
    Rep (l.foldl (fun t (b : Nat × List (K × V)) => update t b.1 b.2) t) (W ++ l) (h + l.length)
  | [], t, W, h, r, _, _, _, _ => by simpa using r
  | x :: rest, t, W, h, r, hsz, hlen, hnb, hnk => by
    obtain ⟨b, d⟩ := x
    have hsplit : W ++ (b, d) :: rest = (W ++ [(b, d)]) ++ rest := by simp
    rw [hsplit] at hnb hnk ⊢
    have hb : b ∉ W.map (·.1) := by
      rw [List.map_append, List.map_append] at hnb
      have := (List.nodup_append.1 (List.nodup_append.1 hnb).1).2.2
      intro hin; exact this b hin b (by simp) rfl
    have hk : (allKeys W ++ d.map (·.1)).Nodup := by
      rw [allKeys_append', allKeys_append] at hnk
      exact (List.nodup_append.1 hnk).1
    have r' := rep_update r b d hb hk hsz
    have hnf : ¬ (W.length + 1 > t.size) := by
      simp only [List.length_cons] at hlen; omega
    unfold winConnect at r'
    rw [if_neg hnf] at r'
    have := rep_foldl_update rest r' (by rw [update_size]; exact hsz)
      (by rw [update_size]; simp only [List.length_append, List.length_cons, List.length_nil] at hlen ⊢; omega)
      hnb hnk
    simp only [List.foldl_cons]
    have e : h + 1 + rest.length = h + (rest.length + 1) := by omega
    simpa [e] using this

theorem foldl_update_size : ∀ (l : Win K V) (t : TxIndex K V),
    (l.foldl (fun t (b : Nat × List (K × V)) => update t b.1 b.2) t).size = t.size
  | [], _ => rfl
  | x :: r, t => by simp only [List.foldl_cons]; rw [foldl_update_size r, update_size]

/-- bootstrap: `TxIndex::new` represents exactly the blocks it was given -/
theorem inv_new (bl : Win K V) (height : Nat) (hpos : 0 < bl.length) (hh : bl.length ≤ height)
    (hnb : (bl.map (·.1)).Nodup) (hnk : (allKeys bl).Nodup) :
    Inv (new bl height : TxIndex K V) bl (height - bl.length) := by
  have r0 := rep_empty (K := K) (V := V) bl.length height
  have r := rep_foldl_update bl r0 hpos (by simp [empty]) (by simpa using hnb) (by simpa using hnk)
  simp only [List.nil_append] at r
  refine ⟨bl, ?_, List.suffix_refl _, hnb, hnk, ?_⟩
  · unfold new
    have e : height - bl.length + bl.length = height := by omega
    rw [e]
    exact { blocks := r.blocks, txIn := r.txIn, index := r.index, tip := rfl,
            len := r.len, nodupB := r.nodupB, nodupK := r.nodupK }
  · unfold new
    simp only
    rw [foldl_update_size]; exact hpos

end TxIndex
end Teos
