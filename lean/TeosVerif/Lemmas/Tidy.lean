/-
"Exactly one" and "reachable means nothing pending" as an invariant of the plugin model at stable
points. Effects of the `WTClient` mutators on one tower's summary and receipts, then the
preservation by the handler, the retriers and the commands. Core Lean only.
-/
import TeosVerif.Lemmas.Plugin

namespace Teos.Client

/-! ### what each mutator does to the tower it is about, and that it leaves the others alone -/

theorem addReceipt_effect {c : Client} (h : Inv c) {t : TowerId} {sm : Summary}
    (ht : c.towers t = some sm) (l : Loc) (n : Nat) (r : ApptReceipt) :
    (c.addReceipt t l n r).1.towers t = some { sm with slots := n } ∧
    (∀ l', ((c.addReceipt t l n r).1.store.rcpts t l').isSome = ((c.store.rcpts t l').isSome || decide (l' = l))) ∧
    (∀ t', t' ≠ t → (c.addReceipt t l n r).1.towers t' = c.towers t' ∧
      (c.addReceipt t l n r).1.store.rcpts t' = c.store.rcpts t') := by
  obtain ⟨row, _, a1, _⟩ := h.sync_some t sm ht
  unfold Client.addReceipt Store.storeApptReceipt Client.setSummary
  simp only [ht, a1]
  refine ⟨by simp, ?_, ?_⟩
  · intro l'
    by_cases e : l' = l
    · simp [e]
    · simp [e]
  · intro t' hne
    refine ⟨by simp [hne], ?_⟩
    funext y
    simp [hne]

theorem addPending_effect {c : Client} (h : Inv c) {t : TowerId} {sm : Summary}
    (ht : c.towers t = some sm) (l : Loc) (b : Body) :
    (c.addPending t l b).1.towers t =
      some { sm with pending := if sm.pending.contains l then sm.pending else sm.pending ++ [l] } ∧
    (c.addPending t l b).1.store.rcpts = c.store.rcpts ∧
    (∀ t', t' ≠ t → (c.addPending t l b).1.towers t' = c.towers t') := by
  obtain ⟨row, r, a1, a2, a3, a4, a5, a6, a7, a8, a9⟩ := h.sync_some t sm ht
  unfold Client.addPending
  simp only [ht]
  by_cases hc : sm.pending.contains l = true
  · simp only [hc, ↓reduceIte]
    refine ⟨by rw [ht], trivial, fun _ _ => trivial⟩
  · simp only [hc, Bool.false_eq_true, ↓reduceIte]
    have hnp : c.store.isPending t l = false := by
      unfold Store.isPending
      rw [← contains_locsOf, ← a7]; simpa using hc
    unfold Store.storePending Client.setSummary
    simp only [a1, hnp, reduceCtorEq, Bool.false_eq_true, or_self, ↓reduceIte]
    refine ⟨by simp, by simp, ?_⟩
    intro t' hne
    simp [hne]

theorem addInvalid_effect {c : Client} (h : Inv c) {t : TowerId} {sm : Summary}
    (ht : c.towers t = some sm) (l : Loc) (b : Body) :
    (c.addInvalid t l b).1.towers t =
      some { sm with invalid := if sm.invalid.contains l then sm.invalid else sm.invalid ++ [l] } ∧
    (c.addInvalid t l b).1.store.rcpts = c.store.rcpts ∧
    (∀ t', t' ≠ t → (c.addInvalid t l b).1.towers t' = c.towers t') := by
  obtain ⟨row, r, a1, a2, a3, a4, a5, a6, a7, a8, a9⟩ := h.sync_some t sm ht
  unfold Client.addInvalid
  simp only [ht]
  by_cases hc : sm.invalid.contains l = true
  · simp only [hc, ↓reduceIte]
    refine ⟨by rw [ht], trivial, fun _ _ => trivial⟩
  · simp only [hc, Bool.false_eq_true, ↓reduceIte]
    have hnp : c.store.isInvalid t l = false := by
      unfold Store.isInvalid
      rw [← contains_locsOf, ← a8]; simpa using hc
    unfold Store.storeInvalid Client.setSummary
    simp only [a1, hnp, reduceCtorEq, Bool.false_eq_true, or_self, ↓reduceIte]
    refine ⟨by simp, by simp, ?_⟩
    intro t' hne
    simp [hne]

theorem removePending_effect {c : Client} {t : TowerId} {sm : Summary}
    (ht : c.towers t = some sm) (l : Loc) :
    (c.removePending t l).1.towers t = some { sm with pending := sm.pending.filter (· ≠ l) } ∧
    (c.removePending t l).1.store.rcpts = c.store.rcpts ∧
    (∀ t', t' ≠ t → (c.removePending t l).1.towers t' = c.towers t') := by
  unfold Client.removePending Client.setSummary
  simp only [ht]
  refine ⟨by simp, by simp [deletePending_rcpts], ?_⟩
  intro t' hne
  simp [hne]

theorem setStatus_effect (c : Client) {t : TowerId} {sm : Summary}
    (ht : c.towers t = some sm) (st : TStatus) :
    (c.setStatus t st).towers t = some (if sm.status = .misbehaving then sm else { sm with status := st }) ∧
    (∀ t', t' ≠ t → (c.setStatus t st).towers t' = c.towers t') := by
  unfold Client.setStatus
  simp only [ht]
  by_cases hm : sm.status = .misbehaving
  · simp only [hm, ↓reduceIte]
    exact ⟨ht, fun _ _ => trivial⟩
  · simp only [hm, ↓reduceIte, Client.setSummary]
    refine ⟨by simp, ?_⟩
    intro t' hne
    simp [hne]

end Teos.Client

namespace Teos.Plugin
open Teos.Client

/-- one tower's records are tidy: no appointment in two classes at once, and "reachable" means
nothing is pending. A tower proven misbehaving is exempt (it is out of the game). -/
def TidyT (c : Client) (t : TowerId) : Prop :=
  ∀ sm, c.towers t = some sm → sm.status ≠ .misbehaving →
    (∀ l, ¬((c.store.rcpts t l).isSome = true ∧ l ∈ sm.pending)) ∧
    (∀ l, ¬((c.store.rcpts t l).isSome = true ∧ l ∈ sm.invalid)) ∧
    (∀ l, ¬(l ∈ sm.pending ∧ l ∈ sm.invalid)) ∧
    (sm.status = .reachable → sm.pending = [])

def Tidy (c : Client) : Prop := ∀ t, TidyT c t

theorem TidyT.frame {c c' : Client} {t : TowerId} (h : TidyT c t)
    (h1 : c'.towers t = c.towers t) (h2 : c'.store.rcpts t = c.store.rcpts t) : TidyT c' t := by
  intro sm hs hm
  rw [h1] at hs
  have := h sm hs hm
  rw [h2]
  exact this

theorem Tidy.fresh : Tidy Client.fresh := by
  intro t sm hs; simp [Client.fresh] at hs

/-- a status change keeps the tower tidy unless it claims "reachable" with something pending -/
theorem TidyT.setStatus {c : Client} {t : TowerId} (h : TidyT c t) (st : TStatus)
    (hst : st = .reachable → ∀ sm, c.towers t = some sm → sm.pending = []) :
    TidyT (c.setStatus t st) t := by
  intro sm' hs' hm'
  cases hs : c.towers t with
  | none =>
    unfold Client.setStatus at hs'
    simp [hs] at hs'
  | some sm =>
    have he := (setStatus_effect c hs st).1
    rw [he] at hs'
    simp only [Option.some.injEq] at hs'
    rw [setStatus_store]
    by_cases hmis : sm.status = .misbehaving
    · simp only [hmis, ↓reduceIte] at hs'
      subst hs'
      exact absurd hmis hm'
    · simp only [hmis, ↓reduceIte] at hs'
      subst hs'
      obtain ⟨a, b, cc, d⟩ := h sm hs hmis
      exact ⟨a, b, cc, fun e => hst e sm hs⟩

theorem TidyT.addPending {c : Client} (hi : Inv c) {t : TowerId} (h : TidyT c t) (l : Loc) (b : Body)
    (hpre : ∀ sm, c.towers t = some sm → sm.status ≠ .misbehaving →
      (c.store.rcpts t l).isSome = false ∧ l ∉ sm.invalid ∧ sm.status ≠ .reachable) :
    TidyT (c.addPending t l b).1 t := by
  intro sm' hs' hm'
  cases hs : c.towers t with
  | none =>
    unfold Client.addPending at hs'
    simp [hs] at hs'
  | some sm =>
    obtain ⟨e1, e2, _⟩ := addPending_effect hi hs l b
    rw [e1] at hs'
    simp only [Option.some.injEq] at hs'
    subst hs'
    simp only at hm'
    obtain ⟨a, bb, cc, d⟩ := h sm hs hm'
    obtain ⟨p1, p2, p3⟩ := hpre sm hs hm'
    rw [e2]
    simp only
    have hmem : ∀ x, x ∈ (if sm.pending.contains l = true then sm.pending else sm.pending ++ [l]) ↔ x ∈ sm.pending ∨ x = l := by
      intro x
      split
      · rename_i hc
        constructor
        · intro hx; exact Or.inl hx
        · rintro (hx | rfl)
          · exact hx
          · exact List.contains_iff_mem.mp hc
      · simp
    refine ⟨?_, bb, ?_, fun e => absurd e p3⟩
    · intro x ⟨hr, hx⟩
      rcases (hmem x).mp hx with hx | rfl
      · exact a x ⟨hr, hx⟩
      · rw [p1] at hr; cases hr
    · intro x ⟨hx, hinv⟩
      rcases (hmem x).mp hx with hx | rfl
      · exact cc x ⟨hx, hinv⟩
      · exact p2 hinv

theorem TidyT.addReceipt {c : Client} (hi : Inv c) {t : TowerId} (h : TidyT c t) (l : Loc) (n : Nat) (r : ApptReceipt)
    (hpre : ∀ sm, c.towers t = some sm → sm.status ≠ .misbehaving → l ∉ sm.pending ∧ l ∉ sm.invalid) :
    TidyT (c.addReceipt t l n r).1 t := by
  intro sm' hs' hm'
  cases hs : c.towers t with
  | none =>
    unfold Client.addReceipt at hs'
    simp [hs] at hs'
  | some sm =>
    obtain ⟨e1, e2, _⟩ := addReceipt_effect hi hs l n r
    rw [e1] at hs'
    simp only [Option.some.injEq] at hs'
    subst hs'
    simp only at hm'
    obtain ⟨a, bb, cc, d⟩ := h sm hs hm'
    obtain ⟨p1, p2⟩ := hpre sm hs hm'
    refine ⟨?_, ?_, cc, d⟩
    · intro x ⟨hr, hx⟩
      rw [e2] at hr
      simp only [Bool.or_eq_true, decide_eq_true_eq] at hr
      rcases hr with hr | rfl
      · exact a x ⟨hr, hx⟩
      · exact p1 hx
    · intro x ⟨hr, hx⟩
      rw [e2] at hr
      simp only [Bool.or_eq_true, decide_eq_true_eq] at hr
      rcases hr with hr | rfl
      · exact bb x ⟨hr, hx⟩
      · exact p2 hx

theorem TidyT.addInvalid {c : Client} (hi : Inv c) {t : TowerId} (h : TidyT c t) (l : Loc) (b : Body)
    (hpre : ∀ sm, c.towers t = some sm → sm.status ≠ .misbehaving →
      (c.store.rcpts t l).isSome = false ∧ l ∉ sm.pending) :
    TidyT (c.addInvalid t l b).1 t := by
  intro sm' hs' hm'
  cases hs : c.towers t with
  | none =>
    unfold Client.addInvalid at hs'
    simp [hs] at hs'
  | some sm =>
    obtain ⟨e1, e2, _⟩ := addInvalid_effect hi hs l b
    rw [e1] at hs'
    simp only [Option.some.injEq] at hs'
    subst hs'
    simp only at hm'
    obtain ⟨a, bb, cc, d⟩ := h sm hs hm'
    obtain ⟨p1, p2⟩ := hpre sm hs hm'
    rw [e2]
    simp only
    have hmem : ∀ x, x ∈ (if sm.invalid.contains l = true then sm.invalid else sm.invalid ++ [l]) ↔ x ∈ sm.invalid ∨ x = l := by
      intro x
      split
      · rename_i hc
        constructor
        · intro hx; exact Or.inl hx
        · rintro (hx | rfl)
          · exact hx
          · exact List.contains_iff_mem.mp hc
      · simp
    refine ⟨a, ?_, ?_, d⟩
    · intro x ⟨hr, hx⟩
      rcases (hmem x).mp hx with hx | rfl
      · exact bb x ⟨hr, hx⟩
      · rw [p1] at hr; cases hr
    · intro x ⟨hx, hinv⟩
      rcases (hmem x).mp hinv with hinv | rfl
      · exact cc x ⟨hx, hinv⟩
      · exact p2 hx

/-- releasing a pending reference only shrinks the pending set -/
theorem TidyT.removePending {c : Client} {t : TowerId} (h : TidyT c t) (l : Loc) :
    TidyT (c.removePending t l).1 t := by
  intro sm' hs' hm'
  cases hs : c.towers t with
  | none =>
    unfold Client.removePending at hs'
    simp [hs] at hs'
  | some sm =>
    obtain ⟨e1, e2, _⟩ := removePending_effect hs l
    rw [e1] at hs'
    simp only [Option.some.injEq] at hs'
    subst hs'
    simp only at hm'
    obtain ⟨a, bb, cc, d⟩ := h sm hs hm'
    rw [e2]
    simp only
    refine ⟨?_, bb, ?_, ?_⟩
    · intro x ⟨hr, hx⟩
      exact a x ⟨hr, (List.mem_filter.mp hx).1⟩
    · intro x ⟨hx, hinv⟩
      exact cc x ⟨(List.mem_filter.mp hx).1, hinv⟩
    · intro e
      rw [d e]; rfl

end Teos.Plugin

namespace Teos.Plugin
open Teos.Client

/-- pending → accepted, both writes: tidy again afterwards -/
theorem TidyT.moveAccepted {c : Client} (hi : Inv c) {t : TowerId} (h : TidyT c t) (l : Loc) (r : ApptReceipt)
    (hpre : ∀ sm, c.towers t = some sm → sm.status ≠ .misbehaving → l ∉ sm.invalid) :
    TidyT ((c.addReceipt t l 0 r).1.removePending t l).1 t := by
  intro sm' hs' hm'
  cases hs : c.towers t with
  | none =>
    have : (c.addReceipt t l 0 r).1 = c := by unfold Client.addReceipt; simp [hs]
    rw [this] at hs'
    unfold Client.removePending at hs'
    simp [hs] at hs'
  | some sm =>
    obtain ⟨e1, e2, _⟩ := addReceipt_effect hi hs l 0 r
    obtain ⟨f1, f2, _⟩ := removePending_effect e1 l
    rw [f1] at hs'
    simp only [Option.some.injEq] at hs'
    subst hs'
    simp only at hm'
    obtain ⟨a, bb, cc, d⟩ := h sm hs hm'
    have p := hpre sm hs hm'
    rw [f2]
    simp only
    refine ⟨?_, ?_, ?_, ?_⟩
    · intro x ⟨hr, hx⟩
      rw [e2] at hr
      simp only [Bool.or_eq_true, decide_eq_true_eq] at hr
      have hx' := List.mem_filter.mp hx
      rcases hr with hr | rfl
      · exact a x ⟨hr, hx'.1⟩
      · simpa using hx'.2
    · intro x ⟨hr, hx⟩
      rw [e2] at hr
      simp only [Bool.or_eq_true, decide_eq_true_eq] at hr
      rcases hr with hr | rfl
      · exact bb x ⟨hr, hx⟩
      · exact p hx
    · intro x ⟨hx, hinv⟩
      exact cc x ⟨(List.mem_filter.mp hx).1, hinv⟩
    · intro e
      rw [d e]; rfl

/-- pending → invalid, both writes -/
theorem TidyT.moveRejected {c : Client} (hi : Inv c) {t : TowerId} (h : TidyT c t) (l : Loc) (b : Body)
    (hpre : ∀ sm, c.towers t = some sm → sm.status ≠ .misbehaving → (c.store.rcpts t l).isSome = false) :
    TidyT ((c.addInvalid t l b).1.removePending t l).1 t := by
  intro sm' hs' hm'
  cases hs : c.towers t with
  | none =>
    have : (c.addInvalid t l b).1 = c := by unfold Client.addInvalid; simp [hs]
    rw [this] at hs'
    unfold Client.removePending at hs'
    simp [hs] at hs'
  | some sm =>
    obtain ⟨e1, e2, _⟩ := addInvalid_effect hi hs l b
    obtain ⟨f1, f2, _⟩ := removePending_effect e1 l
    rw [f1] at hs'
    simp only [Option.some.injEq] at hs'
    subst hs'
    simp only at hm'
    obtain ⟨a, bb, cc, d⟩ := h sm hs hm'
    have p := hpre sm hs hm'
    rw [f2, e2]
    simp only
    have hmem : ∀ x, x ∈ (if sm.invalid.contains l = true then sm.invalid else sm.invalid ++ [l]) ↔ x ∈ sm.invalid ∨ x = l := by
      intro x
      split
      · rename_i hc
        constructor
        · intro hx; exact Or.inl hx
        · rintro (hx | rfl)
          · exact hx
          · exact List.contains_iff_mem.mp hc
      · simp
    refine ⟨?_, ?_, ?_, ?_⟩
    · intro x ⟨hr, hx⟩
      exact a x ⟨hr, (List.mem_filter.mp hx).1⟩
    · intro x ⟨hr, hx⟩
      rcases (hmem x).mp hx with hx | rfl
      · exact bb x ⟨hr, hx⟩
      · rw [p] at hr; cases hr
    · intro x ⟨hx, hinv⟩
      have hx' := List.mem_filter.mp hx
      rcases (hmem x).mp hinv with hinv | rfl
      · exact cc x ⟨hx'.1, hinv⟩
      · simpa using hx'.2
    · intro e
      rw [d e]; rfl

/-- the pending set of tower `t` as the client lists it -/
def pend (c : Client) (t : TowerId) : List Loc := ((c.towers t).map (·.pending)).getD []

theorem pend_moveAccepted {c : Client} (hi : Inv c) (t : TowerId) (l : Loc) (r : ApptReceipt) :
    pend ((c.addReceipt t l 0 r).1.removePending t l).1 t = (pend c t).filter (· ≠ l) := by
  unfold pend
  cases hs : c.towers t with
  | none =>
    have : (c.addReceipt t l 0 r).1 = c := by unfold Client.addReceipt; simp [hs]
    rw [this]
    unfold Client.removePending
    simp [hs]
  | some sm =>
    obtain ⟨e1, _, _⟩ := addReceipt_effect hi hs l 0 r
    obtain ⟨f1, _, _⟩ := removePending_effect e1 l
    rw [f1]; rfl

theorem pend_moveRejected {c : Client} (hi : Inv c) (t : TowerId) (l : Loc) (b : Body) :
    pend ((c.addInvalid t l b).1.removePending t l).1 t = (pend c t).filter (· ≠ l) := by
  unfold pend
  cases hs : c.towers t with
  | none =>
    have : (c.addInvalid t l b).1 = c := by unfold Client.addInvalid; simp [hs]
    rw [this]
    unfold Client.removePending
    simp [hs]
  | some sm =>
    obtain ⟨e1, _, _⟩ := addInvalid_effect hi hs l b
    obtain ⟨f1, _, _⟩ := removePending_effect e1 l
    rw [f1]; rfl

end Teos.Plugin

namespace Teos.Plugin
open Teos.Client

theorem flagMisbehaving_others {c : Client} (t : TowerId) (p : Proof) (r : ApptReceipt) :
    ∀ t', t' ≠ t → (c.flagMisbehaving t p r).1.towers t' = c.towers t' ∧
      (c.flagMisbehaving t p r).1.store.rcpts t' = c.store.rcpts t' := by
  intro t' hne
  unfold Client.flagMisbehaving
  cases hs : c.towers t with
  | none => exact ⟨rfl, rfl⟩
  | some sm =>
    simp only
    split
    · exact ⟨rfl, rfl⟩
    · cases hp : c.store.storeProof t p r with
      | none => simp only [Client.panic]; exact ⟨trivial, trivial⟩
      | some st =>
        simp only [Client.setSummary]
        unfold Store.storeProof at hp
        split at hp
        · simp only [Option.some.injEq] at hp; subst hp
          refine ⟨by simp [hne], ?_⟩
          funext y; simp [hne]
        · cases hp

/-- whatever `Retrier::run` sends to tower `t`, the other towers' summaries and receipts are untouched -/
theorem sendAll_others (t : TowerId) (o : Outcome) : ∀ (locs : List Loc) (c : Client), Inv c →
    ∀ t', t' ≠ t → (sendAll c t o locs).1.towers t' = c.towers t' ∧
      (sendAll c t o locs).1.store.rcpts t' = c.store.rcpts t' := by
  intro locs
  induction locs with
  | nil => intro c _ t' _; exact ⟨rfl, rfl⟩
  | cons l ls ih =>
    intro c hi t' hne
    cases o with
    | accepted =>
      simp only [sendAll]
      have k := keeps_move_accepted c t l
      obtain ⟨i1, i2⟩ := ih _ (k.inv hi) t' hne
      rw [i1, i2]
      cases hs : c.towers t with
      | none =>
        have : (c.addReceipt t l 0 rcpt).1 = c := by unfold Client.addReceipt; simp [hs]
        rw [this]
        unfold Client.removePending
        simp [hs]
      | some sm =>
        obtain ⟨e1, _, e3⟩ := addReceipt_effect hi hs l 0 rcpt
        obtain ⟨_, f2, f3⟩ := removePending_effect e1 l
        rw [f3 t' hne, f2, (e3 t' hne).1, (e3 t' hne).2]
        exact ⟨rfl, rfl⟩
    | rejected =>
      simp only [sendAll]
      have k := keeps_move_rejected c t l
      obtain ⟨i1, i2⟩ := ih _ (k.inv hi) t' hne
      rw [i1, i2]
      cases hs : c.towers t with
      | none =>
        have : (c.addInvalid t l body).1 = c := by unfold Client.addInvalid; simp [hs]
        rw [this]
        unfold Client.removePending
        simp [hs]
      | some sm =>
        obtain ⟨e1, e2, e3⟩ := addInvalid_effect hi hs l body
        obtain ⟨_, f2, f3⟩ := removePending_effect e1 l
        rw [f3 t' hne, f2, e3 t' hne, e2]
        exact ⟨rfl, rfl⟩
    | connErr => simp [sendAll]
    | unparsable => simp [sendAll]
    | subErr =>
      simp only [sendAll, setStatus_store]
      cases hs : c.towers t with
      | none => unfold Client.setStatus; simp [hs]
      | some sm => exact ⟨(setStatus_effect c hs _).2 t' hne, trivial⟩
    | wrongSigner =>
      simp only [sendAll]
      exact flagMisbehaving_others t _ _ t' hne

end Teos.Plugin

namespace Teos.Plugin
open Teos.Client

theorem rcpts_moveAccepted {c : Client} (hi : Inv c) {t : TowerId} {sm : Summary} (hs : c.towers t = some sm)
    (l : Loc) (r : ApptReceipt) (x : Loc) :
    (((c.addReceipt t l 0 r).1.removePending t l).1.store.rcpts t x).isSome =
      ((c.store.rcpts t x).isSome || decide (x = l)) := by
  obtain ⟨e1, e2, _⟩ := addReceipt_effect hi hs l 0 r
  obtain ⟨_, f2, _⟩ := removePending_effect e1 l
  rw [f2, e2]

theorem status_moveAccepted {c : Client} (hi : Inv c) (t : TowerId) (l : Loc) (r : ApptReceipt) :
    (((c.addReceipt t l 0 r).1.removePending t l).1.towers t).map (·.status) = (c.towers t).map (·.status) := by
  cases hs : c.towers t with
  | none =>
    have : (c.addReceipt t l 0 r).1 = c := by unfold Client.addReceipt; simp [hs]
    rw [this]
    unfold Client.removePending
    simp [hs]
  | some sm =>
    obtain ⟨e1, _, _⟩ := addReceipt_effect hi hs l 0 r
    obtain ⟨f1, _, _⟩ := removePending_effect e1 l
    rw [f1]; rfl

theorem sendAll_accepted_tidy (t : TowerId) : ∀ (locs : List Loc) (c : Client), Inv c → TidyT c t →
    (∀ l ∈ locs, l ∈ pend c t ∨ (c.store.rcpts t l).isSome = true) →
    TidyT (sendAll c t .accepted locs).1 t ∧
    pend (sendAll c t .accepted locs).1 t = (pend c t).filter (fun x => decide (x ∉ locs)) ∧
    ((sendAll c t .accepted locs).1.towers t).map (·.status) = (c.towers t).map (·.status) := by
  intro locs
  induction locs with
  | nil => intro c _ h _; exact ⟨h, by simp only [sendAll]; exact (List.filter_eq_self.mpr (by intro x _; simp)).symm, rfl⟩
  | cons l ls ih =>
    intro c hi h hl
    simp only [sendAll]
    have k := keeps_move_accepted c t l
    have hi2 := k.inv hi
    have hpre : ∀ sm, c.towers t = some sm → sm.status ≠ .misbehaving → l ∉ sm.invalid := by
      intro sm hs hm hinv
      obtain ⟨a, bb, cc, _⟩ := h sm hs hm
      rcases hl l (by simp) with hp | hr
      · have : l ∈ sm.pending := by simpa [pend, hs] using hp
        exact cc l ⟨this, hinv⟩
      · exact bb l ⟨hr, hinv⟩
    have h2 := h.moveAccepted hi l rcpt hpre
    have hp2 := pend_moveAccepted hi t l rcpt
    have hl2 : ∀ x ∈ ls, x ∈ pend ((c.addReceipt t l 0 rcpt).1.removePending t l).1 t ∨
        (((c.addReceipt t l 0 rcpt).1.removePending t l).1.store.rcpts t x).isSome = true := by
      intro x hx
      cases hs : c.towers t with
      | none =>
        -- nothing is listed for an unknown tower: the hypothesis can only hold through a receipt
        rcases hl x (by simp [hx]) with hp | hr
        · simp [pend, hs] at hp
        · right
          have : (c.addReceipt t l 0 rcpt).1 = c := by unfold Client.addReceipt; simp [hs]
          rw [this]
          unfold Client.removePending
          simp [hs, hr]
      | some sm =>
        rw [rcpts_moveAccepted hi hs]
        by_cases e : x = l
        · right; simp [e]
        · rcases hl x (by simp [hx]) with hp | hr
          · left; rw [hp2]; exact List.mem_filter.mpr ⟨hp, by simpa using e⟩
          · right; simp [hr]
    obtain ⟨r1, r2, r3⟩ := ih _ hi2 h2 hl2
    refine ⟨r1, ?_, ?_⟩
    · rw [r2, hp2, List.filter_filter]
      apply List.filter_congr
      intro x _
      simp only [List.mem_cons, not_or, ne_eq, decide_not, Bool.and_eq_true, Bool.not_eq_eq_eq_not, Bool.not_true,
        decide_eq_false_iff_not, decide_eq_true_eq]
      by_cases e : x = l <;> simp [e, and_comm]
    · rw [r3, status_moveAccepted hi]

end Teos.Plugin

namespace Teos.Plugin
open Teos.Client

def inval (c : Client) (t : TowerId) : List Loc := ((c.towers t).map (·.invalid)).getD []

theorem inval_moveRejected {c : Client} (hi : Inv c) {t : TowerId} {sm : Summary} (hs : c.towers t = some sm)
    (l : Loc) (b : Body) (x : Loc) :
    x ∈ inval ((c.addInvalid t l b).1.removePending t l).1 t ↔ x ∈ sm.invalid ∨ x = l := by
  obtain ⟨e1, _, _⟩ := addInvalid_effect hi hs l b
  obtain ⟨f1, _, _⟩ := removePending_effect e1 l
  unfold inval
  rw [f1]
  simp only [Option.map_some, Option.getD_some]
  split
  · rename_i hc
    constructor
    · intro hx; exact Or.inl hx
    · rintro (hx | rfl)
      · exact hx
      · exact List.contains_iff_mem.mp hc
  · simp

theorem status_moveRejected {c : Client} (hi : Inv c) (t : TowerId) (l : Loc) (b : Body) :
    (((c.addInvalid t l b).1.removePending t l).1.towers t).map (·.status) = (c.towers t).map (·.status) := by
  cases hs : c.towers t with
  | none =>
    have : (c.addInvalid t l b).1 = c := by unfold Client.addInvalid; simp [hs]
    rw [this]
    unfold Client.removePending
    simp [hs]
  | some sm =>
    obtain ⟨e1, _, _⟩ := addInvalid_effect hi hs l b
    obtain ⟨f1, _, _⟩ := removePending_effect e1 l
    rw [f1]; rfl

theorem sendAll_rejected_tidy (t : TowerId) : ∀ (locs : List Loc) (c : Client), Inv c → TidyT c t →
    (c.towers t).isSome = true →
    (∀ l ∈ locs, l ∈ pend c t ∨ l ∈ inval c t) →
    TidyT (sendAll c t .rejected locs).1 t ∧
    pend (sendAll c t .rejected locs).1 t = (pend c t).filter (fun x => decide (x ∉ locs)) ∧
    ((sendAll c t .rejected locs).1.towers t).map (·.status) = (c.towers t).map (·.status) := by
  intro locs
  induction locs with
  | nil => intro c _ h _ _; exact ⟨h, by simp only [sendAll]; exact (List.filter_eq_self.mpr (by intro x _; simp)).symm, rfl⟩
  | cons l ls ih =>
    intro c hi h hk hl
    obtain ⟨sm, hs⟩ := Option.isSome_iff_exists.mp hk
    simp only [sendAll]
    have k := keeps_move_rejected c t l
    have hi2 := k.inv hi
    have hpre : ∀ sm, c.towers t = some sm → sm.status ≠ .misbehaving → (c.store.rcpts t l).isSome = false := by
      intro sm' hs' hm
      obtain ⟨a, bb, _, _⟩ := h sm' hs' hm
      cases hr : (c.store.rcpts t l).isSome with
      | false => rfl
      | true =>
        rcases hl l (by simp) with hp | hv
        · have : l ∈ sm'.pending := by simpa [pend, hs'] using hp
          exact absurd ⟨hr, this⟩ (a l)
        · have : l ∈ sm'.invalid := by simpa [inval, hs'] using hv
          exact absurd ⟨hr, this⟩ (bb l)
    have h2 := h.moveRejected hi l body hpre
    have hp2 := pend_moveRejected hi t l body
    have hk2 : (((c.addInvalid t l body).1.removePending t l).1.towers t).isSome = true := k.known hi t hk
    have hl2 : ∀ x ∈ ls, x ∈ pend ((c.addInvalid t l body).1.removePending t l).1 t ∨
        x ∈ inval ((c.addInvalid t l body).1.removePending t l).1 t := by
      intro x hx
      rw [inval_moveRejected hi hs]
      by_cases e : x = l
      · right; right; exact e
      · rcases hl x (by simp [hx]) with hp | hv
        · left; rw [hp2]; exact List.mem_filter.mpr ⟨hp, by simpa using e⟩
        · right; left; simpa [inval, hs] using hv
    obtain ⟨r1, r2, r3⟩ := ih _ hi2 h2 hk2 hl2
    refine ⟨r1, ?_, ?_⟩
    · rw [r2, hp2, List.filter_filter]
      apply List.filter_congr
      intro x _
      simp only [List.mem_cons, not_or, ne_eq, decide_not, Bool.and_eq_true, Bool.not_eq_eq_eq_not, Bool.not_true,
        decide_eq_false_iff_not, decide_eq_true_eq]
      by_cases e : x = l <;> simp [e, and_comm]
    · rw [r3, status_moveRejected hi]

end Teos.Plugin

namespace Teos.Plugin
open Teos.Client

/-- a registration never touches receipts, pending or invalid sets, nor a status -/
theorem addUpdateTower_tidy (c : Client) (t : TowerId) (a : Nat) (r : RegReceipt) (t' : TowerId)
    (h : TidyT c t') : TidyT (c.addUpdateTower t a r).1 t' ∧
      pend (c.addUpdateTower t a r).1 t' = pend c t' ∧
      ((c.towers t').isSome = true →
        ((c.addUpdateTower t a r).1.towers t').map (·.status) = (c.towers t').map (·.status)) := by
  have hr : ∀ (st : Store), c.store.storeTowerRecord t a r = some st → st.rcpts = c.store.rcpts := by
    intro st hst
    unfold Store.storeTowerRecord at hst
    split at hst
    · cases hst
    · simp only [Option.some.injEq] at hst; subst hst; rfl
  unfold Client.addUpdateTower Client.panic Client.setSummary
  cases ht : c.towers t with
  | none =>
    simp only
    cases hs : c.store.storeTowerRecord t a r with
    | none => exact ⟨h, rfl, fun _ => rfl⟩
    | some st =>
      simp only
      by_cases e : t' = t
      · subst e
        refine ⟨?_, by simp [pend, ht], by intro hk; rw [ht] at hk; cases hk⟩
        intro sm' hs' _
        simp only [↓reduceIte, Option.some.injEq] at hs'
        subst hs'
        simp
      · refine ⟨?_, by simp [pend, e], by intro _; simp [e]⟩
        apply h.frame
        · simp [e]
        · simp only; rw [hr st hs]
  | some old =>
    simp only
    split
    · exact ⟨h, rfl, fun _ => rfl⟩
    · split
      · exact ⟨h, rfl, fun _ => rfl⟩
      · split
        · exact ⟨h, rfl, fun _ => rfl⟩
        · cases hs : c.store.storeTowerRecord t a r with
          | none => exact ⟨h, rfl, fun _ => rfl⟩
          | some st =>
            simp only
            by_cases e : t' = t
            · subst e
              refine ⟨?_, by simp [pend, ht], by intro _; simp [ht]⟩
              intro sm' hs' hm'
              simp only [↓reduceIte, Option.some.injEq] at hs'
              subst hs'
              simp only at hm' ⊢
              rw [hr st hs]
              exact h old ht hm'
            · refine ⟨?_, by simp [pend, e], by intro _; simp [e]⟩
              apply h.frame
              · simp [e]
              · simp only; rw [hr st hs]

end Teos.Plugin

namespace Teos.Plugin
open Teos.Client

theorem Tidy.of_frame {c c' : Client} (t : TowerId) (h : Tidy c) (ht : TidyT c' t)
    (ho : ∀ t', t' ≠ t → c'.towers t' = c.towers t' ∧ c'.store.rcpts t' = c.store.rcpts t') : Tidy c' := by
  intro x
  by_cases e : x = t
  · subst e; exact ht
  · exact (h x).frame (ho x e).1 (ho x e).2

theorem tidyT_of_misbehaving {c : Client} {t : TowerId}
    (h : (c.towers t).map (·.status) = some .misbehaving) : TidyT c t := by
  intro sm hs hm
  rw [hs] at h
  simp only [Option.map_some, Option.some.injEq] at h
  exact absurd h hm

theorem filter_not_mem_nil (l : List Loc) : l.filter (fun x => decide (x ∉ ([] : List Loc))) = l :=
  List.filter_eq_self.mpr (by intro x _; simp)

/-- one pass of `Retrier::run` over `locs ⊆ pending`, whatever the tower answers -/
theorem sendAll_spec (t : TowerId) (o : Outcome) (locs : List Loc) (c : Client) (hi : Inv c) (h : Tidy c)
    (hk : (c.towers t).isSome = true) (hl : ∀ l ∈ locs, l ∈ pend c t) :
    Inv (sendAll c t o locs).1 ∧ Tidy (sendAll c t o locs).1 ∧
    ((sendAll c t o locs).2 = .ok → pend (sendAll c t o locs).1 t = (pend c t).filter (fun x => decide (x ∉ locs))) ∧
    ((sendAll c t o locs).2 = .transient → pend (sendAll c t o locs).1 t = pend c t) := by
  have hinv := (keeps_sendAll t o locs c).inv hi
  have hoth := sendAll_others t o locs c hi
  refine ⟨hinv, ?_, ?_, ?_⟩
  · -- tidy
    apply h.of_frame t _ hoth
    cases o with
    | accepted => exact (sendAll_accepted_tidy t locs c hi (h t) (fun l hl' => Or.inl (hl l hl'))).1
    | rejected => exact (sendAll_rejected_tidy t locs c hi (h t) hk (fun l hl' => Or.inl (hl l hl'))).1
    | connErr => cases locs <;> simp only [sendAll] <;> exact h t
    | unparsable => cases locs <;> simp only [sendAll] <;> exact h t
    | subErr =>
      cases locs with
      | nil => simp only [sendAll]; exact h t
      | cons l ls => simp only [sendAll]; exact (h t).setStatus _ (by intro e; cases e)
    | wrongSigner =>
      cases locs with
      | nil => simp only [sendAll]; exact h t
      | cons l ls =>
        simp only [sendAll]
        obtain ⟨sm, hs⟩ := Option.isSome_iff_exists.mp hk
        exact tidyT_of_misbehaving (flagMisbehaving_status hi hs _ _).1
  · intro hr
    cases o with
    | accepted => exact (sendAll_accepted_tidy t locs c hi (h t) (fun l hl' => Or.inl (hl l hl'))).2.1
    | rejected => exact (sendAll_rejected_tidy t locs c hi (h t) hk (fun l hl' => Or.inl (hl l hl'))).2.1
    | connErr => cases locs <;> simp only [sendAll] at hr ⊢ <;> first | exact (filter_not_mem_nil _).symm | cases hr
    | unparsable => cases locs <;> simp only [sendAll] at hr ⊢ <;> first | exact (filter_not_mem_nil _).symm | cases hr
    | subErr => cases locs <;> simp only [sendAll] at hr ⊢ <;> first | exact (filter_not_mem_nil _).symm | cases hr
    | wrongSigner => cases locs <;> simp only [sendAll] at hr ⊢ <;> first | exact (filter_not_mem_nil _).symm | cases hr
  · intro hr
    cases o with
    | accepted =>
      -- a pass that accepts never reports a transient error
      have : ∀ (locs : List Loc) (c : Client), (sendAll c t .accepted locs).2 = .ok := by
        intro locs
        induction locs with
        | nil => intro c; rfl
        | cons l ls ih => intro c; simp only [sendAll]; exact ih _
      rw [this] at hr; cases hr
    | rejected =>
      have : ∀ (locs : List Loc) (c : Client), (sendAll c t .rejected locs).2 = .ok := by
        intro locs
        induction locs with
        | nil => intro c; rfl
        | cons l ls ih => intro c; simp only [sendAll]; exact ih _
      rw [this] at hr; cases hr
    | connErr => cases locs <;> simp only [sendAll]
    | unparsable => cases locs <;> simp only [sendAll]
    | subErr =>
      cases locs with
      | nil => simp only [sendAll]
      | cons l ls =>
        simp only [sendAll]
        obtain ⟨sm, hs⟩ := Option.isSome_iff_exists.mp hk
        unfold pend
        rw [(setStatus_effect c hs _).1]
        split <;> simp [hs]
    | wrongSigner => cases locs <;> simp only [sendAll] at hr ⊢ <;> cases hr

end Teos.Plugin

namespace Teos.Plugin
open Teos.Client

structure TidyS (s : St) : Prop where
  inv : Inv s.client
  tidy : Tidy s.client

theorem reRegister_spec (s : St) (t : TowerId) (h : TidyS s) :
    TidyS (reRegister s t).1 ∧ pend (reRegister s t).1.client t = pend s.client t := by
  have hc : (s.towerRegisters t).client = s.client := towerRegisters_client s t
  have htr : TidyS (s.towerRegisters t) ∧ pend (s.towerRegisters t).client t = pend s.client t :=
    ⟨⟨by rw [hc]; exact h.inv, by rw [hc]; exact h.tidy⟩, by rw [hc]⟩
  have hreg : TidyS ((s.towerRegisters t).recordRegistration t) ∧
      pend ((s.towerRegisters t).recordRegistration t).client t = pend s.client t := by
    unfold St.recordRegistration
    simp only [hc]
    exact ⟨⟨h.inv.addUpdateTower t t _, fun x => (addUpdateTower_tidy s.client t t _ x (h.tidy x)).1⟩,
      (addUpdateTower_tidy s.client t t _ t (h.tidy t)).2.1⟩
  unfold reRegister
  split
  · split
    · exact ⟨h, rfl⟩
    · split
      · exact ⟨h, rfl⟩
      · exact htr
      · split
        · exact hreg
        · exact htr
  · exact ⟨h, rfl⟩

theorem consume_beh_client (s : St) (t : TowerId) : (s.consume t).client = s.client := consume_client s t

/-- one call of `Retrier::run` -/
theorem runOnce_spec (s : St) (t : TowerId) (locs : List Loc) (h : TidyS s)
    (hk : (s.client.towers t).isSome = true) (hl : ∀ l ∈ locs, l ∈ pend s.client t) :
    TidyS (runOnce s t locs).1 ∧
    ((runOnce s t locs).2 = .ok →
      pend (runOnce s t locs).1.client t = (pend s.client t).filter (fun x => decide (x ∉ locs))) ∧
    ((runOnce s t locs).2 = .transient → pend (runOnce s t locs).1.client t = pend s.client t) ∧
    ((runOnce s t locs).1.client.towers t).isSome = true := by
  have hr := reRegister_spec s t h
  have kr := keeps_reRegister s t
  unfold runOnce
  split
  · rename_i s1 r heq
    rw [heq] at hr kr
    simp only at hr
    refine ⟨hr.1, ?_, fun _ => hr.2, kr.known h.inv t hk⟩
    intro hok
    -- the re-registration never reports success by itself
    exfalso
    have : (reRegister s t).2 ≠ some .ok := by
      unfold reRegister
      repeat' split
      all_goals simp
    rw [heq] at this
    simp only at hok
    exact this (by rw [hok])
  · rename_i s1 heq
    rw [heq] at hr kr
    simp only at hr
    have hk1 := kr.known h.inv t hk
    have hl1 : ∀ l ∈ locs, l ∈ pend s1.client t := by intro l hl'; rw [hr.2]; exact hl l hl'
    obtain ⟨a, b, c, d⟩ := sendAll_spec t (classify (s1.beh t)) locs s1.client hr.1.inv hr.1.tidy hk1 hl1
    have hcc : ∀ (x : St) (cl : Client), ((x.withClient cl).consume t).client = cl := by
      intro x cl; rw [consume_client]; rfl
    refine ⟨⟨by rw [hcc]; exact a, by rw [hcc]; exact b⟩, ?_, ?_, ?_⟩
    · intro hok; rw [hcc, c hok, hr.2]
    · intro htr; rw [hcc, d htr, hr.2]
    · rw [hcc]; exact (keeps_sendAll t _ locs s1.client).known hr.1.inv t hk1

theorem runRetrier_spec (t : TowerId) (locs : List Loc) : ∀ (fuel : Nat) (s : St), TidyS s →
    (s.client.towers t).isSome = true → (∀ l ∈ locs, l ∈ pend s.client t) →
    TidyS (runRetrier fuel s t locs).1 ∧
    ((runRetrier fuel s t locs).2 = .ok →
      pend (runRetrier fuel s t locs).1.client t = (pend s.client t).filter (fun x => decide (x ∉ locs))) ∧
    ((runRetrier fuel s t locs).1.client.towers t).isSome = true := by
  intro fuel
  induction fuel with
  | zero => intro s h hk _; exact ⟨h, by simp [runRetrier], hk⟩
  | succ n ih =>
    intro s h hk hl
    obtain ⟨a, b, c, d⟩ := runOnce_spec s t locs h hk hl
    simp only [runRetrier]
    cases hr : (runOnce s t locs).2 with
    | transient =>
      simp only [hr]
      have hp := c hr
      obtain ⟨i1, i2, i3⟩ := ih (runOnce s t locs).1 a d (by intro l hl'; rw [hp]; exact hl l hl')
      exact ⟨i1, by intro hok; rw [i2 hok, hp], i3⟩
    | ok => simp only [hr]; exact ⟨a, fun _ => b hr, d⟩
    | permanentSub => simp only [hr]; exact ⟨a, by simp, d⟩
    | misbehaving => simp only [hr]; exact ⟨a, by simp, d⟩

end Teos.Plugin

namespace Teos.Plugin
open Teos.Client

theorem pendingOf_eq_pend (s : St) (t : TowerId) : s.pendingOf t = pend s.client t := by
  unfold St.pendingOf pend
  cases s.client.towers t <;> rfl

theorem pend_setStatus (c : Client) (t : TowerId) (st : TStatus) (x : TowerId) :
    pend (c.setStatus t st) x = pend c x := by
  unfold pend
  cases hs : c.towers t with
  | none => unfold Client.setStatus; simp [hs]
  | some sm =>
    by_cases e : x = t
    · subst e
      rw [(setStatus_effect c hs st).1, hs]
      split <;> rfl
    · rw [(setStatus_effect c hs st).2 x e]

theorem tidy_setStatus (c : Client) (t : TowerId) (st : TStatus) (hi : Inv c) (h : Tidy c)
    (hst : st ≠ .misbehaving) (hr : st = .reachable → pend c t = []) :
    Inv (c.setStatus t st) ∧ Tidy (c.setStatus t st) := by
  refine ⟨hi.setStatus t st hst, ?_⟩
  apply h.of_frame t
  · apply (h t).setStatus st
    intro e sm hs
    have := hr e
    simpa [pend, hs] using this
  · intro t' hne
    rw [setStatus_store]
    cases hs : c.towers t with
    | none => unfold Client.setStatus; simp [hs]
    | some sm => exact ⟨(setStatus_effect c hs st).2 t' hne, rfl⟩

theorem filter_not_mem_self (l : List Loc) : l.filter (fun x => decide (x ∉ l)) = [] := by
  rw [List.filter_eq_nil_iff]
  intro x hx
  simp [hx]

theorem retryRun_tidy (s : St) (t : TowerId) (h : TidyS s) : TidyS (s.retryRun t (s.pendingOf t)) := by
  rw [pendingOf_eq_pend]
  unfold St.retryRun
  split
  · exact h
  · cases hst : s.status t with
    | none => exact h
    | some st =>
      simp only
      have hk : (s.client.towers t).isSome = true := by
        unfold St.status at hst
        cases hs : s.client.towers t with
        | none => simp [hs] at hst
        | some sm => rfl
      -- the state the retrier starts from
      have h0 : TidyS (if st = TStatus.subscriptionError then s
          else s.withClient (s.client.setStatus t TStatus.tempUnreachable)) ∧
          pend (if st = TStatus.subscriptionError then s
            else s.withClient (s.client.setStatus t TStatus.tempUnreachable)).client t = pend s.client t ∧
          ((if st = TStatus.subscriptionError then s
            else s.withClient (s.client.setStatus t TStatus.tempUnreachable)).client.towers t).isSome = true := by
        split
        · exact ⟨h, rfl, hk⟩
        · obtain ⟨a, b⟩ := tidy_setStatus s.client t .tempUnreachable h.inv h.tidy (by intro e; cases e) (by intro e; cases e)
          exact ⟨⟨a, b⟩, pend_setStatus _ _ _ _, by simp only [St.withClient]; rw [setStatus_towers]; exact hk⟩
      generalize (if st = TStatus.subscriptionError then s
          else s.withClient (s.client.setStatus t TStatus.tempUnreachable)) = s0 at h0
      obtain ⟨hs0, hp0, hk0⟩ := h0
      obtain ⟨r1, r2, r3⟩ := runRetrier_spec t (pend s.client t) 4 s0 hs0 hk0 (by intro l hl; rw [hp0]; exact hl)
      generalize hrr : runRetrier 4 s0 t (pend s.client t) = rr at *
      obtain ⟨s1, r⟩ := rr
      simp only at r1 r2 r3 ⊢
      cases r with
      | ok =>
        simp only
        have hp : pend s1.client t = [] := by
          rw [r2 rfl, hp0]; exact filter_not_mem_self _
        obtain ⟨a, b⟩ := tidy_setStatus s1.client t .reachable r1.inv r1.tidy (by intro e; cases e) (fun _ => hp)
        exact ⟨a, b⟩
      | transient =>
        simp only
        obtain ⟨a, b⟩ := tidy_setStatus s1.client t .unreachable r1.inv r1.tidy (by intro e; cases e) (by intro e; cases e)
        exact ⟨a, b⟩
      | permanentSub =>
        simp only
        obtain ⟨a, b⟩ := tidy_setStatus s1.client t .subscriptionError r1.inv r1.tidy (by intro e; cases e) (by intro e; cases e)
        exact ⟨a, b⟩
      | misbehaving => exact r1

theorem retry_tidy (s : St) (t : TowerId) (h : TidyS s) : TidyS (s.retry t (s.pendingOf t)) := by
  unfold St.retry
  split
  · unfold St.park
    obtain ⟨a, b⟩ := tidy_setStatus s.client t .tempUnreachable h.inv h.tidy (by intro e; cases e) (by intro e; cases e)
    exact ⟨a, b⟩
  · exact retryRun_tidy s t h

end Teos.Plugin

namespace Teos.Plugin
open Teos.Client

theorem tidy_addPending (c : Client) (t : TowerId) (l : Loc) (hi : Inv c) (h : Tidy c)
    (hpre : ∀ sm, c.towers t = some sm → sm.status ≠ .misbehaving →
      (c.store.rcpts t l).isSome = false ∧ l ∉ sm.invalid ∧ sm.status ≠ .reachable) :
    Inv (c.addPending t l body).1 ∧ Tidy (c.addPending t l body).1 := by
  refine ⟨hi.addPending t l body, ?_⟩
  apply h.of_frame t ((h t).addPending hi l body hpre)
  intro t' hne
  cases hs : c.towers t with
  | none => unfold Client.addPending; simp [hs]
  | some sm =>
    obtain ⟨_, e2, e3⟩ := addPending_effect hi hs l body
    exact ⟨e3 t' hne, by rw [e2]⟩

theorem hookTower_tidy (s : St) (t : TowerId) (l : Loc) (h : TidyS s) : TidyS (hookTower s t l).1 := by
  unfold hookTower
  cases hs : s.client.towers t with
  | none => exact h
  | some sm =>
    simp only
    by_cases hdone : ((s.client.store.rcpts t l).isSome || sm.invalid.contains l) = true
    · simp only [hdone, ↓reduceIte]; exact h
    · simp only [hdone, Bool.false_eq_true, ↓reduceIte]
      have hnr : (s.client.store.rcpts t l).isSome = false := by
        cases hr : (s.client.store.rcpts t l).isSome with
        | false => rfl
        | true => simp [hr] at hdone
      have hni : l ∉ sm.invalid := by
        intro hm
        have : sm.invalid.contains l = true := List.contains_iff_mem.mpr hm
        exact hdone (by rw [this]; simp)
      -- pending after a status change
      have pend_after : ∀ st, st ≠ TStatus.misbehaving → st ≠ TStatus.reachable →
          TidyS (s.withClient ((s.client.setStatus t st).addPending t l body).1) := by
        intro st hst1 hst2
        obtain ⟨a, b⟩ := tidy_setStatus s.client t st h.inv h.tidy hst1 (fun e => absurd e hst2)
        obtain ⟨c1, c2⟩ := tidy_addPending (s.client.setStatus t st) t l a b (by
          intro sm' hs' hm'
          rw [setStatus_store]
          rw [(setStatus_effect s.client hs st).1] at hs'
          simp only [Option.some.injEq] at hs'
          by_cases hmis : sm.status = .misbehaving
          · simp only [hmis, ↓reduceIte] at hs'; subst hs'; exact absurd hmis hm'
          · simp only [hmis, ↓reduceIte] at hs'; subst hs'
            exact ⟨hnr, hni, hst2⟩)
        exact ⟨c1, c2⟩
      have pend_plain : sm.status ≠ .reachable → TidyS (s.withClient (s.client.addPending t l body).1) := by
        intro hst
        obtain ⟨c1, c2⟩ := tidy_addPending s.client t l h.inv h.tidy (by
          intro sm' hs' _
          rw [hs] at hs'; simp only [Option.some.injEq] at hs'; subst hs'
          exact ⟨hnr, hni, hst⟩)
        exact ⟨c1, c2⟩
      cases hst : sm.status with
      | misbehaving => exact h
      | unreachable => exact pend_plain (by rw [hst]; intro e; cases e)
      | tempUnreachable => exact pend_plain (by rw [hst]; intro e; cases e)
      | subscriptionError => exact pend_plain (by rw [hst]; intro e; cases e)
      | reachable =>
        simp only
        have hpe : sm.pending = [] := ((h.tidy t) sm hs (by rw [hst]; intro e; cases e)).2.2.2 hst
        cases hc : classify (s.beh t) with
        | accepted =>
          simp only
          refine ⟨h.inv.addReceipt t l 0 rcpt, ?_⟩
          apply h.tidy.of_frame t ((h.tidy t).addReceipt h.inv l 0 rcpt (by
            intro sm' hs' _
            rw [hs] at hs'; simp only [Option.some.injEq] at hs'; subst hs'
            exact ⟨by rw [hpe]; simp, hni⟩))
          intro t' hne
          exact (addReceipt_effect h.inv hs l 0 rcpt).2.2 t' hne
        | connErr => exact pend_after _ (by intro e; cases e) (by intro e; cases e)
        | unparsable => exact pend_after _ (by intro e; cases e) (by intro e; cases e)
        | subErr => exact pend_after _ (by intro e; cases e) (by intro e; cases e)
        | rejected =>
          simp only
          refine ⟨h.inv.addInvalid t l body, ?_⟩
          apply h.tidy.of_frame t ((h.tidy t).addInvalid h.inv l body (by
            intro sm' hs' _
            rw [hs] at hs'; simp only [Option.some.injEq] at hs'; subst hs'
            exact ⟨hnr, by rw [hpe]; simp⟩))
          intro t' hne
          obtain ⟨_, e2, e3⟩ := addInvalid_effect h.inv hs l body
          exact ⟨e3 t' hne, by rw [e2]⟩
        | wrongSigner =>
          simp only
          refine ⟨h.inv.flagMisbehaving t _ _, ?_⟩
          apply h.tidy.of_frame t (tidyT_of_misbehaving (flagMisbehaving_status h.inv hs _ _).1)
          exact flagMisbehaving_others t _ _

end Teos.Plugin

namespace Teos.Plugin
open Teos.Client

theorem TidyS.of_client {s s' : St} (h : TidyS s) (e : s'.client = s.client) : TidyS s' :=
  ⟨by rw [e]; exact h.inv, by rw [e]; exact h.tidy⟩

theorem notifyTower_tidy (s : St) (t : TowerId) (l : Loc) (h : TidyS s) : TidyS (notifyTower s t l) := by
  unfold notifyTower
  have hh := hookTower_tidy s t l h
  split
  · rename_i s1 heq
    rw [heq] at hh
    split
    · exact hh
    · have hc : (s1.consumeIf (asked s t l) t).client = s1.client := consumeIf_client _ _ _
      have hx : TidyS (s1.consumeIf (asked s t l) t) := hh.of_client hc
      have hp : s1.pendingOf t = (s1.consumeIf (asked s t l) t).pendingOf t := by
        unfold St.pendingOf; rw [hc]
      rw [hp]
      exact retry_tidy _ t hx
  · rename_i s1 heq
    rw [heq] at hh
    exact hh.of_client (consumeIf_client _ _ _)

theorem tidy_foldl {α : Type} (f : St → α → St) (hf : ∀ s a, TidyS s → TidyS (f s a)) :
    ∀ (xs : List α) (s : St), TidyS s → TidyS (xs.foldl f s) := by
  intro xs
  induction xs with
  | nil => intro s h; exact h
  | cons x xs ih => intro s h; exact ih _ (hf s x h)

theorem notify_tidy (s : St) (l : Loc) (h : TidyS s) : TidyS (s.notify l) := by
  unfold St.notify
  exact tidy_foldl _ (fun a x ha => notifyTower_tidy a x l ha) _ s h

theorem register_tidy (s : St) (t : TowerId) (h : TidyS s) : TidyS (s.register t).1 := by
  unfold St.register
  have hg : TidyS (s.grow t) := h.of_client (grow_client s t)
  generalize s.grow t = g at hg
  unfold St.registerCore
  split
  · split
    · obtain ⟨a, b⟩ := tidy_setStatus g.client t .tempUnreachable hg.inv hg.tidy (by intro e; cases e) (by intro e; cases e)
      exact ⟨a, b⟩
    · exact hg
  · split
    · exact hg
    · exact hg.of_client (towerRegisters_client g t)
    · split
      · unfold St.recordRegistration
        simp only [towerRegisters_client]
        exact ⟨hg.inv.addUpdateTower t t _, fun x => (addUpdateTower_tidy g.client t t _ x (hg.tidy x)).1⟩
      · exact hg.of_client (towerRegisters_client g t)

theorem manualRetry_tidy (s : St) (t : TowerId) (h : TidyS s) : TidyS (s.manualRetry t).1 := by
  unfold St.manualRetry
  split
  · exact h
  · split
    · exact h
    · split
      · have hw : TidyS (s.wake t) := h.of_client rfl
        exact retry_tidy _ t hw
      · split
        · exact retry_tidy s t h
        · exact h

theorem abandon_tidy (s : St) (t : TowerId) (h : TidyS s) : TidyS (s.abandon t).1 := by
  unfold St.abandon
  cases hs : s.client.towers t with
  | none => exact h
  | some sm =>
    simp only
    refine ⟨h.inv.removeTower t, ?_⟩
    have hrt : (s.client.removeTower t).1 =
        { s.client with towers := fun x => if x = t then none else s.client.towers x,
                        store := s.client.store.removeTowerRecord t } := by
      unfold Client.removeTower; simp [hs]
    rw [hrt]
    apply h.tidy.of_frame t
    · intro sm' hs' _; simp at hs'
    · intro t' hne
      refine ⟨by simp [hne], ?_⟩
      funext y
      simp [Store.removeTowerRecord, hne]

/-- a restart: the summaries are rebuilt from the file -/
theorem reload_tidy (c : Client) (hi : Inv c) (h : Tidy c) : Inv c.reload ∧ Tidy c.reload := by
  refine ⟨Inv.reload hi.wf, ?_⟩
  intro t sm' hs' hm'
  simp only [Client.reload, Store.loadSummary] at hs'
  cases ht : c.store.towers t with
  | none => simp [ht] at hs'
  | some row =>
    cases hmx : maxReg (c.store.regs t) with
    | none => simp [ht, hmx] at hs'
    | some r =>
      simp only [ht, hmx, Option.some.injEq] at hs'
      subst hs'
      simp only at hm' ⊢
      -- the old summary listed the same pending / invalid locators
      have hknown : c.towers t ≠ none := by
        intro hn
        have := hi.sync_none t hn
        rw [ht] at this; cases this
      obtain ⟨sm, hs⟩ := Option.ne_none_iff_exists'.mp hknown
      obtain ⟨_, _, _, _, _, _, _, _, a7, a8, a9⟩ := hi.sync_some t sm hs
      have hnm : sm.status ≠ .misbehaving := by
        intro e
        have hp := a9.mp e
        simp only [reconStatus, hp, ↓reduceIte, ne_eq, not_true_eq_false] at hm'
      obtain ⟨a, b, cc, _⟩ := h t sm hs hnm
      show (∀ l, ¬((c.store.rcpts t l).isSome = true ∧ l ∈ locsOf c.store.pending t)) ∧
        (∀ l, ¬((c.store.rcpts t l).isSome = true ∧ l ∈ locsOf c.store.invalid t)) ∧
        (∀ l, ¬(l ∈ locsOf c.store.pending t ∧ l ∈ locsOf c.store.invalid t)) ∧
        (reconStatus (c.store.proofs t).isSome (locsOf c.store.pending t) = .reachable → locsOf c.store.pending t = [])
      rw [← a7, ← a8]
      refine ⟨a, b, cc, ?_⟩
      intro e
      simp only [reconStatus] at e
      split at e
      · cases e
      · split at e
        · rename_i he; simpa using he
        · cases e

theorem restartTower_tidy (s : St) (t : TowerId) (h : TidyS s) : TidyS (restartTower s t) := by
  unfold restartTower
  split
  · exact retry_tidy s t h
  · exact h

theorem restart_tidy (s : St) (h : TidyS s) : TidyS s.restart := by
  unfold St.restart
  apply tidy_foldl _ restartTower_tidy
  unfold St.reloaded
  obtain ⟨a, b⟩ := reload_tidy s.client h.inv h.tidy
  exact ⟨a, b⟩

theorem release_tidy (s : St) (t : TowerId) (m : AddMode) (h : TidyS s) : TidyS (s.release t m) := by
  unfold St.release
  simp only
  split
  · exact retry_tidy _ t (h.of_client rfl)
  · exact h.of_client rfl

theorem holdTurn_tidy (t : TowerId) (l : Loc) (acc : St) (x : TowerId) (h : TidyS acc) :
    TidyS (holdTurn t l acc x) := by
  unfold holdTurn
  split
  · have hh := hookTower_tidy acc t l h
    generalize hookTower acc t l = r at hh
    obtain ⟨s1, start⟩ := r
    simp only at hh ⊢
    split
    · exact retry_tidy _ t (hh.of_client rfl)
    · exact hh.of_client rfl
  · exact notifyTower_tidy acc x l h

theorem holdAfter_tidy (s : St) (t : TowerId) (l : Loc) (h : TidyS s) : TidyS (s.holdAfter t l) := by
  unfold St.holdAfter
  simp only
  exact tidy_foldl (holdTurn t l) (fun a x ha => holdTurn_tidy t l a x ha) _ _ (h.of_client rfl)

/-- **every event keeps the client tidy** -/
theorem step_tidy (s : St) (ev : Ev) (h : TidyS s) : TidyS (s.step ev).1 := by
  cases ev with
  | register t => exact register_tidy s t h
  | notify l => exact notify_tidy s l h
  | setBeh t b => exact h.of_client rfl
  | retry t => exact manualRetry_tidy s t h
  | abandon t => exact abandon_tidy s t h
  | restart => exact restart_tidy s h
  | release t m => exact release_tidy s t m h
  | holdAfter t l => exact holdAfter_tidy s t l h

theorem TidyS.init : TidyS ({} : St) := ⟨Inv.fresh, Tidy.fresh⟩

end Teos.Plugin
